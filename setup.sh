#!/bin/bash
# Offline setup: contracts libraries beside the repo's interpreter (only E10 needs them).
cd "$(dirname "$0")" || exit 1
mkdir -p .deps .work evidence replays
if [ ! -d .deps/icontract ]; then
  /venv/bin/pip install --quiet --no-index --find-links /opt/veriftools/wheels --target .deps icontract deal >/dev/null 2>&1 \
    || { [ "$1" = "--quiet" ] || echo "setup: icontract/deal not installed (E10 contract workload will be inconclusive)"; }
fi
exit 0
