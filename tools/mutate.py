#!/usr/bin/env python3
"""Sensitivity campaign: apply one named property-breaking edit to a scratch copy of /repo (removed right after), run the
property's quick check with VERIF_REPO pointing at the copy, record fired / silent / inconclusive. Optionally (--tests) also
run the repository's own test-suite on the mutant to learn whether the existing tests would have noticed.

    python3 tools/mutate.py [--only C06,C17] [--tests] [--jobs 4]

The result table is written to mutation_report.json (documentation, not evidence)."""
import argparse
import json
import os
import shutil
import subprocess
import sys
import tempfile
import time
from concurrent.futures import ThreadPoolExecutor

V = os.path.dirname(os.path.dirname(os.path.abspath(__file__)))
REPO = "/repo"

# (name, property, file, old, new)
M = [
    ("c06-annotation-tiling-assert-removed", "C06", "protocol.py", "            assert i == self.annotations_size", "            pass"),
    ("c06-size-check-ignores-annotations-recv", "C06", "protocol.py", "        if self.data_size+self.annotations_size > config.MAX_MESSAGE_SIZE:", "        if self.data_size > config.MAX_MESSAGE_SIZE:"),
    ("c06-size-check-ignores-annotations-send", "C06", "protocol.py", "        if total_size > config.MAX_MESSAGE_SIZE:", "        if len(payload) > config.MAX_MESSAGE_SIZE:"),
    ("c06-data-size-not-updated", "C06", "protocol.py", "            self.data_size = len(self.data)", "            pass"),
    ("c06-compressed-flag-kept", "C06", "protocol.py", "            self.flags &= ~FLAGS_COMPRESSED\n            self.data_size", "            self.data_size"),
    ("c06-annotation-offbyone", "C06", "protocol.py", "                i += 8 + length", "                i += 8 + length if length else 9"),
    ("c17-send-skips-a-byte", "C17", "socketutil.py", "                data = data[sent:]", "                data = data[sent+1:]"),
    ("c17-recv-cap-ignores-remaining", "C17", "socketutil.py", "chunk = sock.recv(min(60000, size - msglen))", "chunk = sock.recv(60000)"),
    ("c17-partialdata-last-chunk", "C17", "socketutil.py", "                    err.partialData = data  ", "                    err.partialData = chunk  "),
    ("c17-eintr-fatal", "C17", "socketutil.py", "ERRNO_RETRIES = [errno.EINTR, errno.EAGAIN, errno.EWOULDBLOCK, errno.EINPROGRESS]", "ERRNO_RETRIES = [errno.EAGAIN, errno.EWOULDBLOCK, errno.EINPROGRESS]"),
    ("c17-timeout-as-closed", "C17", "socketutil.py", "            except socket.timeout:\n                raise TimeoutError(\"receiving: timeout\")\n            except socket.error as x:\n                err = getattr(x, \"errno\", x.args[0])\n                if err not in ERRNO_RETRIES:\n                    raise ConnectionClosedError(\"receiving: connection lost: \" + str(x))\n                time.sleep(next(delays))  # a slight delay to wait before retrying\n    except", "            except socket.error as x:\n                err = getattr(x, \"errno\", None)\n                if err not in ERRNO_RETRIES:\n                    raise ConnectionClosedError(\"receiving: connection lost: \" + str(x))\n                time.sleep(next(delays))  # a slight delay to wait before retrying\n    except"),
    ("c19-ipv6-without-brackets", "C19", "core.py", '                return "[%s]:%d" % (self.host, self.port)', '                return "%s:%d" % (self.host, self.port)'),
    ("c19-object-uppercased", "C19", "core.py", '        self.object = match.group("object")', '        self.object = match.group("object").upper()'),
    ("c19-sockname-not-in-state", "C19", "core.py", "        return self.protocol, self.object, self.sockname, self.host, self.port", "        return self.protocol, self.object, None, self.host, self.port"),
    ("c19-hash-ignores-port", "C19", "core.py", "        return hash(self.__getstate__())", "        return hash(self.__getstate__()[:4]) ^ id(self) % 2"),
    ("c01-msgpack-bin-type-off", "C01", "serializers.py", "use_bin_type=True, default=self.default)", "use_bin_type=False, default=self.default)"),
    ("c01-json-kwargs-not-recreated", "C01", "serializers.py", '        kwargs = self.recreate_classes(data["kwargs"])', '        kwargs = data["kwargs"]'),
    ("c01-decompress-only-requests", "C01", "protocol.py", "            self.data = zlib.decompress(self.data)", "            self.data = zlib.decompress(self.data) if self.type != MSG_RESULT else self.data"),
    ("c01-serpent-sets-as-tuples", "C01", "serializers.py", "        if t is set:\n            return {self.recreate_classes(x) for x in literal}", "        if t is set:\n            return tuple(self.recreate_classes(x) for x in literal)"),
    ("c04-dunder-check-removed", "C04", "serializers.py", '        if "__" in classname:', '        if False:'),
    ("c04-any-pyro-errors-attr", "C04", "serializers.py", "            if issubclass(errortype, errors.PyroError):\n                return", "            if True:\n                return"),
    ("c04-exception-flag-not-required", "C04", "serializers.py", '        elif data.get("__exception__", False):', "        elif True:"),
    ("c04-importlib-fallback", "C04", "serializers.py", '        log.warning("unsupported serialized class: " + classname)', '        import importlib\n        try:\n            m, _, c = classname.rpartition(".")\n            return getattr(importlib.import_module(m), c)()\n        except Exception:\n            pass\n        log.warning("unsupported serialized class: " + classname)'),
    ("c02-exposed-test-dropped", "C02", "server.py", '    if getattr(obj, "_pyroExposed", False):\n        return obj', "    if True:\n        return obj"),
    ("c02-expose-class-walks-dir", "C02", "server.py", "        for name in clazz.__dict__:", "        for name in dir(clazz):"),
    ("c02-private-check-only-single-underscore", "C02", "server.py", "    if attr_name in _private_dunder_methods:\n        return True", "    if attr_name in _private_dunder_methods and attr_name != '__init__':\n        return True"),
    ("c02-metadata-includes-unexposed", "C02", "server.py", '            if getattr(v, "_pyroExposed", not only_exposed):\n                methods.add(m)', "            if True:\n                methods.add(m)"),
    ("c02-setattr-without-setter-check", "C02", "server.py", '        if v.fset and getattr(pfunc, "_pyroExposed", not only_exposed):', '        if v.fset:'),
    ("c07-attributes-not-restored", "C07", "serializers.py", '        if "attributes" in data:', '        if False:'),
    ("c07-traceback-lost", "C07", "server.py", "        exc_value._pyroTraceback = tbinfo\n        serializer = serializers.serializers_by_id[serializer_id]", "        serializer = serializers.serializers_by_id[serializer_id]"),
    ("c07-generic-fallback-removed", "C07", "server.py", "            exc_value = errors.PyroError(msg)\n            exc_value._pyroTraceback = tbinfo\n            data = serializer.dumps(exc_value)", "            raise"),
    ("c07-bare-classname-first", "C07", "serializers.py", '                "__class__": obj.__class__.__module__ + "." + obj.__class__.__name__,\n                "__exception__": True,', '                "__class__": obj.__class__.__name__,\n                "__exception__": True,'),
    ("c08-handshake-returns-true", "C08", "server.py", "        return msg.type == protocol.MSG_CONNECTOK", "        return True"),
    ("c08-ping-accepted-as-first", "C08", "server.py", "            msg = protocol.recv_stub(conn, [protocol.MSG_CONNECT])", "            msg = protocol.recv_stub(conn, [protocol.MSG_CONNECT, protocol.MSG_PING])"),
    ("c08-metadata-before-validator", "C08", "server.py", '            handshake_response = self.validateHandshake(conn, data["handshake"])\n            handshake_response = {\n                "handshake": handshake_response,\n                "meta": self.objectsById[core.DAEMON_NAME].get_metadata(data["object"])\n            }', '            meta = self.objectsById[core.DAEMON_NAME].get_metadata(data["object"])\n            handshake_response = self.validateHandshake(conn, data["handshake"])\n            handshake_response = {\n                "handshake": handshake_response,\n                "meta": meta\n            }'),
    ("c08-multiplex-registers-before-handshake", "C08", "svr_multiplex.py", "            if self.daemon._handshake(conn):\n                return conn\n            conn.close()", "            self.daemon._handshake(conn)\n            return conn"),
    ("c11-no-break-after-failure", "C11", "server.py", "                            break  # stop processing the rest of the batch", "                            pass"),
    ("c11-results-reversed", "C11", "server.py", "                    wasBatched = True", "                    wasBatched = True\n                    data.reverse()"),
    ("c11-wrapper-swallowed", "C11", "client.py", "                result.raiseIt()  # re-raise the remote exception locally.", "                return"),
    ("c13-multiplex-hook-twice", "C13", "svr_multiplex.py", "                    self.selector.unregister(s)", "                    self.selector.unregister(s); self.daemon._clientDisconnect(s)"),
    ("c13-tracked-not-cleared", "C13", "socketutil.py", "        self.tracked_resources.clear()", "        pass"),
    ("c13-instances-kept", "C13", "socketutil.py", "        self.pyroInstances = {}   # release the session instances", "        pass"),
    ("c13-thread-hook-skipped-on-timeout", "C13", "svr_threads.py", "                    except errors.TimeoutError as x:\n                        # for timeout errors we're not really interested in detailed traceback info\n                        log.warning(\"error during handleRequest: %s\" % x)\n                        break", "                    except errors.TimeoutError as x:\n                        self.csock.close()\n                        return"),
    ("c12-oneway-live-context", "C12", "server.py", "        self.parent_context = current_context.to_global()", "        self.parent_context = current_context.__dict__"),
    ("c12-request-reset-removed", "C12", "server.py", "            current_context.response_annotations = {}   # nothing left over from an earlier request served by this thread\n            request_flags = msg.flags", "            request_flags = msg.flags"),
    ("c12-context-in-module-global", "C12", "callcontext.py", "class _CallContext(threading.local):", "class _FakeLocal(object):\n    pass\n\n\nclass _CallContext(_FakeLocal):"),
    ("c09-single-lock-removed", "C09", "server.py", "            with self.create_single_instance_lock:\n                instance = self._pyroInstances.get(clazz)", "            if True:\n                instance = self._pyroInstances.get(clazz)"),
    ("c09-session-keyed-on-daemon", "C09", "server.py", "            instance = conn.pyroInstances.get(clazz)", "            instance = self._pyroInstances.get(clazz)"),
    ("c09-creator-result-discarded", "C09", "server.py", "                    if isinstance(obj, clazz):\n                        return obj", "                    if isinstance(obj, clazz):\n                        return clazz()"),
    ("c16-duplicate-id-test-skipped", "C16", "server.py", "            if objectId in self.objectsById:\n                raise errors.DaemonError(\"an object or class is already registered with that id\")", "            pass"),
    ("c16-unregister-daemon-allowed", "C16", "server.py", "        if objectId == core.DAEMON_NAME:\n            return", "        if False:\n            return"),
    ("c16-unregister-by-object-keeps-entry", "C16", "server.py", "        if objectId in self.objectsById:\n            del self.objectsById[objectId]", "        if objectId in self.objectsById:\n            if objectOrId is None:\n                del self.objectsById[objectId]"),
    ("c16-weak-finalizer-unconditional", "C16", "server.py", "        if self.objectsById.get(objectId) is ref:", "        if True:"),
    ("c05-generic-except-narrowed-thread", "C05", "svr_threads.py", "                    except Exception:\n                        # other errors log a warning, break this loop and close the client connection", "                    except errors.PyroError:\n                        # other errors log a warning, break this loop and close the client connection"),
    ("c05-multiplex-handshake-except-narrowed", "C05", "svr_multiplex.py", "        except Exception:  # catch all errors, otherwise the event loop could terminate", "        except errors.PyroError:  # catch all errors, otherwise the event loop could terminate"),
    ("c05-deny-unguarded", "C05", "svr_threads.py", "        try:\n            self.daemon._handshake(self.csock, denied_reason=reason)\n        except Exception:", "        try:\n            self.daemon._handshake(self.csock, denied_reason=reason)\n        except KeyboardInterrupt:"),
    ("c05-exception-fallback-removed", "C05", "server.py", "        try:\n            data = serializer.dumps(exc_value)\n        except Exception:", "        try:\n            data = serializer.dumps(exc_value)\n        except KeyboardInterrupt:"),
    ("c03-sequence-check-removed", "C03", "client.py", "                self.__pyroCheckSequence(msg.seq)", "                pass"),
    ("c03-no-release-on-error", "C03", "client.py", "            self._pyroRelease()\n            raise", "            raise"),
    ("c03-server-replies-to-oneway", "C03", "server.py", "            if request_flags & protocol.FLAGS_ONEWAY:\n                return  # oneway call, don't send a response", "            if False:\n                return  # oneway call, don't send a response"),
    ("c03-retry-on-any-pyroerror", "C03", "client.py", "            except (errors.ConnectionClosedError, errors.TimeoutError):", "            except errors.PyroError:"),
    ("c10-entry-kept-on-exception", "C10", "server.py", "            # in case of error (or StopIteration!) the stream is removed\n            del self.daemon.streaming_responses[streamId]\n            raise", "            raise"),
    ("c10-lifetime-vs-linger-stamp", "C10", "server.py", "                            last_use_period = time.time() - info[1]", "                            last_use_period = time.time() - (info[2] or info[1])"),
    ("c10-drop-on-disconnect-despite-linger", "C10", "server.py", "        if config.ITER_STREAM_LINGER > 0:\n            # client goes away, keep streams", "        if False:\n            # client goes away, keep streams"),
    ("c10-close-stream-noop", "C10", "server.py", "        if streamId in self.daemon.streaming_responses:\n            del self.daemon.streaming_responses[streamId]", "        pass"),
    ("c14-setitem-commit-between", "C14", "nameserver.py", "                    cursor.execute(\"DELETE FROM pyro_names WHERE id=?\", (dbid,))\n                cursor.execute(\"INSERT INTO pyro_names(name, uri) VALUES(?,?)\", (key, uri))", "                    cursor.execute(\"DELETE FROM pyro_names WHERE id=?\", (dbid,))\n                    db.commit()\n                cursor.execute(\"INSERT INTO pyro_names(name, uri) VALUES(?,?)\", (key, uri))"),
    ("c14-names-case-folded", "C14", "nameserver.py", "                result = db.execute(\"SELECT id, uri FROM pyro_names WHERE name=?\", (item,)).fetchone()", "                result = db.execute(\"SELECT id, uri FROM pyro_names WHERE name=? COLLATE NOCASE\", (item,)).fetchone()"),
    ("c14-remove-counts-candidates", "C14", "nameserver.py", "        with self.lock:\n            if name and name in self.storage and name != core.NAMESERVER_NAME:", "        with self.lock:\n            if name and name != core.NAMESERVER_NAME and not prefix and not regex:\n                self.storage.remove_items([name])\n                return 1\n            if name and name in self.storage and name != core.NAMESERVER_NAME:"),
    ("c14-nameserver-entry-removable-by-prefix", "C14", "nameserver.py", "                items = list(self.list(prefix=prefix).keys())\n                if core.NAMESERVER_NAME in items:\n                    items.remove(core.NAMESERVER_NAME)", "                items = list(self.list(prefix=prefix).keys())"),
    ("c15-register-check-outside-lock", "C15", "nameserver.py", "        with self.lock:\n            if safe and name in self.storage:\n                raise NamingError(\"name already registered: \" + name)\n            self.storage[name]", "        if safe and name in self.storage:\n            raise NamingError(\"name already registered: \" + name)\n        with self.lock:\n            self.storage[name]"),
    ("c15-remove-lock-dropped", "C15", "nameserver.py", "        with self.lock:\n            if name and name in self.storage and name != core.NAMESERVER_NAME:", "        if True:\n            if name and name in self.storage and name != core.NAMESERVER_NAME:"),
    ("c18-busy-add-skipped", "C18", "svr_threads.py", "            self.busy.add(worker)\n        worker.process(job)", "        worker.process(job)"),
    ("c18-size-test-off-by-one", "C18", "svr_threads.py", "            elif self.num_workers() < config.THREADPOOL_SIZE:", "            elif self.num_workers() <= config.THREADPOOL_SIZE:"),
    ("c18-event-not-cleared", "C18", "svr_threads.py", "            self.job_available.clear()\n", "            pass\n"),
    ("c18-lock-dropped-in-notify", "C18", "svr_threads.py", "    def notify_done(self, worker):\n        with self.count_lock:", "    def notify_done(self, worker):\n        if True:"),
    ("c20-search-instead-of-match", "C20", "utils/httpgateway.py", "re.match(pyro_app.ns_regex, object_name)", "re.search(pyro_app.ns_regex, object_name)"),
    ("c20-key-compared-with-in", "C20", "utils/httpgateway.py", "        if gateway_key != pyro_app.gateway_key:", "        if gateway_key not in pyro_app.gateway_key:"),
    ("c20-pattern-checked-after-lookup", "C20", "utils/httpgateway.py", "    if pyro_app.ns_regex and not re.match(pyro_app.ns_regex, object_name):\n        start_response('403 Forbidden', cors_response_header([('Content-Type', 'text/plain')], pyro_app.cors))\n        return [b\"403 Forbidden - access to the requested object has been denied\"]\n    try:\n        nameserver = get_nameserver()", "    try:\n        nameserver = get_nameserver()\n        if pyro_app.ns_regex and not re.match(pyro_app.ns_regex, object_name):\n            start_response('403 Forbidden', cors_response_header([('Content-Type', 'text/plain')], pyro_app.cors))\n            return [b\"403 Forbidden - access to the requested object has been denied\"]"),
    ("c20-meta-calls-method", "C20", "utils/httpgateway.py", '            if method == "$meta":\n                result =', '            if method == "$meta":\n                proxy._pyroInvoke("nothing", (), {})\n                result ='),
    ("c20-key-param-not-removed", "C20", "utils/httpgateway.py", '        if "$key" in parameters:\n            del parameters["$key"]', "        pass"),
]


def run_one(m, with_tests):
    name, prop, rel, old, new = m
    d = tempfile.mkdtemp(prefix="pv-mut-", dir="/tmp")
    out = {"mutation": name, "property": prop, "file": rel}
    try:
        shutil.copytree(os.path.join(REPO, "Pyro5"), os.path.join(d, "Pyro5"))
        path = os.path.join(d, "Pyro5", rel)
        s = open(path).read()
        if old not in s:
            out["result"] = "not-applicable (pattern not found)"
            return out
        open(path, "w").write(s.replace(old, new, 1))
        rc = subprocess.run([sys.executable, "-c", "import ast,sys; ast.parse(open(sys.argv[1]).read())", path]).returncode
        if rc != 0:
            out["result"] = "does-not-compile"
            return out
        t0 = time.time()
        env = dict(os.environ, VERIF_REPO=d, VERIF_JOBS="8")
        p = subprocess.run([os.path.join(V, "check"), prop, "--tier", "quick"], env=env, capture_output=True, text=True, timeout=900)
        out["check_rc"] = p.returncode
        out["wall_s"] = round(time.time() - t0, 1)
        first = [l for l in p.stdout.splitlines() if l.startswith("  mechanism=")]
        out["result"] = {0: "SILENT", 1: "FIRED", 3: "INCONCLUSIVE"}.get(p.returncode, "rc=%d" % p.returncode)
        out["first_mechanism"] = first[0].strip()[:200] if first else None
        if with_tests:
            shutil.copytree(os.path.join(REPO, "tests"), os.path.join(d, "tests"))
            if os.path.isdir(os.path.join(REPO, "certs")):
                shutil.copytree(os.path.join(REPO, "certs"), os.path.join(d, "certs"))      # tests/test_socketutil.py::TestSSL looks for ./certs
            for f in ("setup.cfg", "tox.ini"):
                if os.path.exists(os.path.join(REPO, f)):
                    shutil.copy(os.path.join(REPO, f), d)
            tp = subprocess.run(["/venv/bin/python", "-m", "pytest", "-q", "-p", "no:cacheprovider", "--timeout=900", "tests"], cwd=d, capture_output=True, text=True, timeout=1500)
            out["repo_tests"] = tp.stdout.strip().splitlines()[-1][:120] if tp.stdout.strip() else "?"
    except subprocess.TimeoutExpired:
        out["result"] = "TIMEOUT"
    finally:
        shutil.rmtree(d, ignore_errors=True)
    return out


# SILENT results that were analysed by hand: the mutation does not break the property it was aimed at
ANALYSIS = {
    "c19-hash-ignores-port": "equivalent for C19: id(self) % 2 is always 0 (object addresses are 16-aligned) and dropping the port from the hash keeps 'equal URIs have equal hashes'",
    "c19-object-uppercased": "not a C19 violation (the upper-cased URI still round-trips through its own text form); the repository's tests kill it",
    "c04-dunder-check-removed": "equivalent for C04: every '__' tag is still rejected with an error by the closed-set lookups that follow (TypeError from issubclass / SerializeError), no foreign class is built",
    "c13-thread-hook-skipped-on-timeout": "equivalent for C13: 'return' inside try/finally still runs the disconnect handling exactly once; only the order hook/close changes, which the statement does not fix",
    "c05-generic-except-narrowed-thread": "equivalent for C05: an exception leaving the job is caught by Worker.run after the job's finally block cleaned up; loop and worker survive",
    "c05-exception-fallback-removed": "not a C05 violation (the connection is dropped, daemon and workers survive); it is a C07 violation and the C07 check fires on it (unserialisable-exception-not-described)",
    "c03-server-replies-to-oneway": "equivalent: on the oneway path 'data' is unbound, the UnboundLocalError is swallowed by the oneway branch of the error handler, nothing is sent",
    "c01-json-kwargs-not-recreated": "was silent because the C01 domain held no class-dict values; C01 now sends URI values on every path and fires on it (arg-result-mapping-differs:json); the repository's tests kill it too",
}


def main():
    ap = argparse.ArgumentParser()
    ap.add_argument("--only", default="")
    ap.add_argument("--tests", action="store_true")
    ap.add_argument("--jobs", type=int, default=2)
    a = ap.parse_args()
    only = set(x for x in a.only.split(",") if x)
    todo = [m for m in M if not only or m[1] in only]
    results = []
    with ThreadPoolExecutor(a.jobs) as ex:
        for r in ex.map(lambda m: run_one(m, a.tests), todo):
            print("%-48s %-4s %-13s %s" % (r["mutation"], r["property"], r.get("result"), (r.get("first_mechanism") or "")[:90] + ("  | tests: " + r["repo_tests"] if "repo_tests" in r else "")), flush=True)
            if r.get("result") != "FIRED" and r["mutation"] in ANALYSIS:
                r["analysis"] = ANALYSIS[r["mutation"]]
            results.append(r)
    path = os.path.join(V, "mutation_report.json")
    old = []
    if only and os.path.exists(path):
        old = [r for r in json.load(open(path))["results"] if r["property"] not in only]
    json.dump({"note": "sensitivity campaign of tools/mutate.py; documentation, not evidence", "results": sorted(old + results, key=lambda r: (r["property"], r["mutation"]))},
              open(path, "w"), indent=1)
    fired = sum(1 for r in results if r.get("result") == "FIRED")
    print("fired %d / %d" % (fired, len(results)))


if __name__ == "__main__":
    main()
