#!/bin/bash
# tools/seedtest.sh <patch.diff> <Cxx> [tier]  -- run a check against a scratch copy of /repo with a patch applied
# (scratch copy under /tmp, removed afterwards; /repo itself is not touched). Uses the checkout this script lives in.
here="$(cd "$(dirname "$0")/.." && pwd)"
patch="$(realpath "$1")"; prop="$2"; tier="${3:-quick}"
d=$(mktemp -d /tmp/pv-seed-XXXXXX)
cp -r /repo/Pyro5 "$d/"; [ -d /repo/certs ] && cp -r /repo/certs "$d/"
( cd "$d" && git init -q . && git apply --unsafe-paths "$patch" ) || { echo "patch failed"; rm -rf "$d"; exit 9; }
rm -rf "$d/.git"
VERIF_REPO="$d" "$here/check" "$prop" --tier "$tier" 2>&1 | grep -E "verdict|^VIOLATION|mechanism=|^INCONCL|^KNOWN" | cut -c1-400 | head -${SEEDTEST_LINES:-8}
rc=${PIPESTATUS[0]}
rm -rf "$d"
exit $rc
