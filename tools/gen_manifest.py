#!/usr/bin/env python3
"""Regenerates /verif/MANIFEST.json from the registry below (only checks whose module exists are claimed)."""
import importlib
import json
import os
import sys

V = os.path.dirname(os.path.dirname(os.path.abspath(__file__)))
sys.path.insert(0, V)
from vlib.core import CHECK_MODULES   # noqa

INFO = {
    "C01": ("§2 C01", "metamorphic runtime oracle over generated values: codec pairs and a live daemon (Proxy/Batch/stream), all four serializers",
            "Held on the generated values only (hypothesis + enumerated edge values); identity is asserted on the lossless core and on natively supported types, consistency (arg==kw==result, idempotence) elsewhere. Trusted: the serializer libraries (serpent, msgpack, json, marshal) and zlib."),
    "C02": ("§2 C02", "raw-wire client against generated class shapes; independent exposure model; side-effect log monitor",
            "Held on the generated class shapes and requested names; the exposure model is computed from the shape spec, not from Pyro's code. Trusted: reference wire codec."),
    "C03": ("§2 C03", "fault-injecting relay between Proxy and daemon; unique tokens; exactly-once accounting from relay and server logs",
            "Held on the generated call histories x fault scripts; the relay knows which requests it forwarded, so executions == forwarded is an equality. Timing-shaped clauses are re-confirmed before being reported."),
    "C04": ("§2 C04", "audit-hook sandbox monitor + reachable-type walk + bait classes over hostile payload trees on all decode paths",
            "Held on the generated payload trees; the audit hook sees import/exec/open/socket/subprocess events of the interpreter. Trusted: CPython's audit events cover the side effects of interest."),
    "C05": ("§2 C05", "hostile raw clients (structure-aware mutations, stalled / TLS / plaintext-on-TLS / UDP-datagram / pipelining clients, oneway piles, hostile trace ids) against live daemons with concurrent witness clients that check the results and the annotations of their replies; liveness and accounting probes",
            "Held on the hostile streams sent; liveness is read from the threads themselves, accounting from pool/selector state. Bounded-progress restatement of 'still accepts'."),
    "C06": ("§2 C06", "three-way differential: repo encoder/decoder vs independent reference codec over generated and mutated messages; byte-counting fake socket",
            "Held on the generated field tuples and hostile strings; reference codec written from the docstring is the second opinion."),
    "C07": ("§2 C07", "every exception class in builtins/Pyro5.errors raised remotely through every call kind and serializer (plain daemons and application Daemon subclasses); compared with a locally built twin",
            "Held on the enumerated classes x generated args/attributes."),
    "C08": ("§2 C08", "raw first messages of every type with pipelined INVOKEs; execution log + reply parser + EOF probe; validators as subclass overrides, assigned on the instance, and swapped while serving",
            "Held on the generated first messages and validator behaviours."),
    "C09": ("§2 C09", "constructor-serial monitor over socket-level races and a controlled line-level scheduler on Daemon._getInstance",
            "Held on the generated histories and explored schedules (preemption-bounded systematic + random)."),
    "C10": ("§2 C10", "reference model of the stream table under a virtual clock, stepped in lock-step with a live daemon",
            "Held on the generated stream histories; the model tolerates the window between a deadline and the next housekeeping step."),
    "C11": ("§2 C11", "differential: batch vs the same calls one by one on an identical object (with and without a translating methodcall_error_handler); state dump comparison",
            "Held on the generated call lists."),
    "C12": ("§2 C12", "unique tokens in annotations/correlation ids; context snapshots inside methods; annotation record on every reply",
            "Held on the generated multi-client histories under both server types with sleep injection."),
    "C13": ("§2 C13", "per-connection hook/resource/socket accounting over every way and byte offset a connection can end (plain and TLS daemons, small and 200 kB requests, lingering clients)",
            "Held on the enumerated endings; 'at quiescence' is awaited with a watchdog (expiry = inconclusive)."),
    "C14": ("§2 C14", "lock-step differential of model / memory / sqlite name servers (arguments and results spoiled after each call) + statement-level failpoint and crash-point enumeration",
            "Held on the generated histories; every sqlite statement of every mutating operation is failed once (fault_enumeration)."),
    "C15": ("§2 C15", "controlled line-level thread scheduler + linearizability checker against the map model; free-running stresses with a single-writer prefix-state oracle for listings and count/half-done oracles for bulk removals",
            "Held on the explored schedules (systematic to a preemption bound, then PCT/random)."),
    "C16": ("§2 C16", "registry model stepped with generated register/unregister/call/return histories against a live daemon; application converters that come and go between registrations",
            "Held on the generated histories."),
    "C17": ("§2 C17", "scripted fake sockets; trace-based oracle; exhaustive small-scope enumeration of per-call socket behaviours + random large cases; non-blocking OS socket pairs with slow peers and descriptors above 1024",
            "Exhaustive within the stated small scope (n<=6, scripts<=L); beyond it sampled. The fake socket obeys OS realism rules."),
    "C18": ("§2 C18", "controlled line-level thread scheduler on the real Pool/Worker (incl. thread-start faults and jobs that end their thread) + socket-level stress with sleep injection + two daemons in one process whose connection hooks are clients of each other",
            "Held on the explored schedules and socket runs."),
    "C19": ("§2 C19", "grammar-based string generation; differential on URI()/str()/hash/serializers/proxy state/name server",
            "Held on the generated strings; acceptance is whatever URI() accepts."),
    "C20": ("§2 C20", "pyro_app driven as a function against a real name server/daemon; traffic counter on the calling thread; independent authorisation model",
            "Held on the generated requests."),
}

LEVELS = {"C14": "fault_enumeration", "C17": "fault_enumeration"}


def main():
    checks, na = [], []
    for pid in sorted(CHECK_MODULES):
        modfile = os.path.join(V, CHECK_MODULES[pid].replace(".", "/") + ".py")
        ref, technique, note = INFO[pid]
        if not os.path.exists(modfile):
            na.append({"property_id": pid, "reason": "check not built yet in this session (runtime monitor planned in DESIGN.md %s); nothing is claimed for it" % ref})
            continue
        import re
        mm = re.search(r'^LEVEL = "(\w+)"', open(modfile).read(), re.M)
        level = mm.group(1) if mm else "exploration"
        checks.append({
            "property_id": pid,
            "quick_cmd": "./check %s --tier quick" % pid,
            "thorough_cmd": "./check %s --tier thorough" % pid,
            "evidence_file": "evidence/%s.json" % pid,
            "replay_cmd_template": "./check %s --replay {path}" % pid,
            "engine": "vlib (runtime monitors over executions of the real code)",
            "level_claimed": {"category": level,
                              "text": "Runtime monitoring: " + technique + ". The verdict is 'held on the executions described in the evidence file', never 'verified'.",
                              "design_ref": "DESIGN.md " + ref},
            "level_note": note,
            "technique": "runtime monitoring: " + technique,
        })
    manifest = {
        "version": 1,
        "setup_cmd": "./setup.sh",
        "hooks": {"guard": "PYRO5_VERIF", "enable": "no source hooks are needed: all instrumentation attaches from the harness (module-global replacement, public Daemon override points, sys.monitoring, audit hooks)",
                  "baseline_off_cmd": "cd /repo && /venv/bin/python -m pytest -ra -q -p no:cacheprovider --timeout=900 --continue-on-collection-errors tests",
                  "source_commits": [], "add_only": True},
        "engines": [
            {"name": "core", "path": "vlib/core.py", "serves_properties": sorted(CHECK_MODULES), "kind_free_text": "recorder, subprocess shard runner, evidence/replay/known-findings plumbing"},
            {"name": "E1 generators", "path": "vlib/gen.py", "serves_properties": ["C01", "C04", "C07", "C19"], "kind_free_text": "hypothesis strategies + type-exact deep comparison"},
            {"name": "E2 reference wire codec / raw client", "path": "vlib/wire.py", "serves_properties": ["C02", "C05", "C06", "C08", "C12", "C13", "C18"], "kind_free_text": "independent codec written from the protocol docstring"},
            {"name": "E3 daemon fixture", "path": "vlib/fixture.py", "serves_properties": ["C01", "C02", "C03", "C05", "C07", "C08", "C09", "C10", "C11", "C12", "C13", "C16"], "kind_free_text": "live daemon in a thread (TCP / unix / TLS), event log with logical clock, every third shard with Pyro5 logging on, thread-fault hooks, pool/selector probes"},
            {"name": "E8 fake sockets", "path": "vlib/fakesock.py", "serves_properties": ["C06", "C17"], "kind_free_text": "scripted sockets"},
        ],
        "checks": checks,
        "not_applicable": na,
        "notes": "Family: runtime monitoring. Compiler sanitizers/valgrind/TSan are not applicable (pure-Python repository); see DESIGN.md §0. Known findings: known_findings.json.",
    }
    with open(os.path.join(V, "MANIFEST.json"), "w") as f:
        json.dump(manifest, f, indent=1)
    print("claimed:", [c["property_id"] for c in checks])
    print("not claimed:", [n["property_id"] for n in na])


if __name__ == "__main__":
    main()
