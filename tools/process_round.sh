#!/bin/bash
# tools/process_round.sh <round> : confirm every finished, not yet stored sub-agent change of /tmp/sa-<round>/Cxx/out, then run its property's quick check on it
cd "$(dirname "$0")/.." || exit 1
rnd="$1"
ready=()
for i in $(seq -w 1 20); do
  p=C$i
  if [ -f /tmp/sa-$rnd/$p/out/meta.json ] && [ -f /tmp/sa-$rnd/$p/out/patch.diff ] && [ ! -d seeded/$p-$rnd ] && [ ! -f /tmp/sv/rejected-$p-$rnd ]; then ready+=($p); fi
done
[ ${#ready[@]} = 0 ] && { echo "nothing ready"; exit 0; }
n=0
for p in "${ready[@]}"; do
  ( tools/confirm_seed.sh $p $rnd /tmp/sa-$rnd/$p/out > /tmp/sv/confirm-$rnd-$p.txt 2>&1 || touch /tmp/sv/rejected-$p-$rnd ) &
  n=$((n+1)); [ $((n % 6)) = 0 ] && wait
done
wait
for p in "${ready[@]}"; do
  head -1 /tmp/sv/confirm-$rnd-$p.txt | cut -c1-200
  if [ -d seeded/$p-$rnd ]; then
    echo "   -> $(SEEDTEST_LINES=3 tools/seedtest.sh seeded/$p-$rnd/patch.diff $p quick | grep -v KNOWN | cut -c1-260 | tr '\n' ' ')"
  fi
done
