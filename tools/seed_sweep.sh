#!/bin/bash
# tools/seed_sweep.sh [tier]: run every confirmed seeded change against its property's check; writes seeded/SWEEP.txt
cd "$(dirname "$0")/.." || exit 1
tier="${1:-quick}"
out=seeded/SWEEP-$tier.txt
: > "$out"
for d in seeded/C[0-9][0-9]-*; do
  n=$(basename "$d"); prop=${n%%-*}
  res=$(SEEDTEST_LINES=3 tools/seedtest.sh "$PWD/$d/patch.diff" "$prop" "$tier" 2>&1 | grep -v "^KNOWN")
  v=$(echo "$res" | grep -o "verdict=[A-Z-]*" | head -1)
  mech=$(echo "$res" | grep -o "mechanism=[^ ]*" | head -2 | tr '\n' ' ')
  [ -z "$v" ] && v="$(echo "$res" | head -1 | cut -c1-80)"
  echo "$n $v $mech" | tee -a "$out"
done
