#!/bin/bash
# tools/seed_sweep.sh [tier] [parallel]: run every confirmed seeded change against its property's check; writes seeded/SWEEP-<tier>.txt
cd "$(dirname "$0")/.." || exit 1
tier="${1:-quick}"; par="${2:-3}"
out=seeded/SWEEP-$tier.txt
one() {
  d="$1"; tier="$2"
  n=$(basename "$d"); prop=${n%%-*}
  res=$(SEEDTEST_LINES=3 tools/seedtest.sh "$PWD/$d/patch.diff" "$prop" "$tier" 2>&1 | grep -v "^KNOWN")
  v=$(echo "$res" | grep -o "verdict=[A-Z-]*" | head -1)
  mech=$(echo "$res" | grep -o "mechanism=[^ ]*" | head -2 | tr '\n' ' ')
  [ -z "$v" ] && v="$(echo "$res" | head -1 | cut -c1-80)"
  echo "$n $v $mech"
}
export -f one
ls -d seeded/C[0-9][0-9]-* | xargs -P "$par" -I{} bash -c 'one {} '"$tier" | tee "$out.tmp"
sort "$out.tmp" > "$out"; rm -f "$out.tmp"
grep -vc "VIOLATED" "$out" | sed 's/^/not VIOLATED: /'
grep -v "VIOLATED" "$out"
