#!/bin/bash
# tools/final_refresh.sh: every quick check once in /verif against /repo (fresh evidence files), then MANIFEST and schema validation
cd "$(dirname "$0")/.." || exit 1
rc=0
for i in $(seq -w 1 20); do
  rm -f evidence/C$i.json
  PYTHONHASHSEED=0 ./check C$i 2>&1 | grep -E "verdict|^VIOLATION|^INCONCL" | cut -c1-200
  [ -f evidence/C$i.json ] || { echo "NO EVIDENCE for C$i"; rc=1; }
done
/venv/bin/python tools/gen_manifest.py >/dev/null || rc=1
python3-vt - <<'PY' || rc=1
import json, jsonschema, glob, sys
jsonschema.validate(json.load(open('MANIFEST.json')), json.load(open('/root/.vp/MANIFEST.schema.json')))
sch = json.load(open('/root/.vp/EVIDENCE.schema.json'))
bad = 0
for f in sorted(glob.glob('evidence/C*.json')):
    d = json.load(open(f))
    jsonschema.validate(d, sch)
    if d.get("violations") or (d.get("coverage") or {}).get("verdict") not in (None, "HELD-ON-OBSERVED"):
        print("evidence not clean:", f, d.get("violations"), (d.get("coverage") or {}).get("verdict")); bad += 1
print("manifest + %d evidence files valid; not clean: %d" % (len(glob.glob('evidence/C*.json')), bad))
sys.exit(1 if bad else 0)
PY
exit $rc
