#!/bin/bash
# tools/c05loop.sh: the C05 thorough tier three times in a row (chasing a load-dependent alarm)
cd "$(dirname "$0")/.." || exit 1
for i in 1 2 3; do
  VERIF_SEED=0 PYTHONHASHSEED=0 ./check C05 --tier thorough 2>&1 | grep -v KNOWN | grep -v "^  monitors" | cut -c1-3000
done
