#!/bin/bash
# tools/seedloop.sh <tier> <seed>...: every check on the unchanged tree with several VERIF_SEED values, each from a fresh process
cd "$(dirname "$0")/.." || exit 1
tier="$1"; shift
for s in "$@"; do
  for i in $(seq -w 1 20); do
    VERIF_SEED=$s PYTHONHASHSEED=0 ./check C$i --tier "$tier" 2>&1 | grep -E "verdict|^VIOLATION|^INCONCL|unjudged" | cut -c1-300
  done
done
