#!/bin/bash
# tools/confirm_seed.sh <Cxx> <round> <srcdir-with-patch.diff,demo.py,meta.json>
# Confirms a sub-agent's change in a FRESH worktree of /repo (demo 0 unchanged / 1 patched, test-suite passes with patch),
# then stores it as /verif/seeded/<Cxx>-<round>/. The worktree is removed afterwards.
prop="$1"; round="$2"; src="$3"
wt=/tmp/sv/$prop-$round
rm -rf "$wt"; mkdir -p /tmp/sv
git -C /repo worktree add --detach "$wt" HEAD >/dev/null 2>&1 || { echo "worktree failed"; exit 9; }
cd "$wt" || exit 9
# demos name their tree through an env var; PYRO_* is read by Pyro5's own configuration, so it is renamed
mkdir -p /tmp/sv/$prop-$round.src; cp "$src"/patch.diff "$src"/meta.json /tmp/sv/$prop-$round.src/; sed "s/PYRO_TREE/SEED_TREE/g" "$src/demo.py" > /tmp/sv/$prop-$round.src/demo.py; src=/tmp/sv/$prop-$round.src
export SEED_TREE="$wt" PYTHONPATH="$wt" PYTHONDONTWRITEBYTECODE=1
timeout 180 /venv/bin/python "$src/demo.py" > /tmp/sv/$prop-$round.orig.log 2>&1; o1=$?
timeout 180 /venv/bin/python "$src/demo.py" > /tmp/sv/$prop-$round.orig2.log 2>&1; o2=$?
git apply "$src/patch.diff" || { echo "patch does not apply"; cd /; git -C /repo worktree remove --force "$wt"; exit 8; }
stat=$(git diff --shortstat)
timeout 180 /venv/bin/python "$src/demo.py" > /tmp/sv/$prop-$round.patched.log 2>&1; p1=$?
tests=$(timeout 1200 /venv/bin/python -m pytest -q -p no:cacheprovider --timeout=900 tests 2>&1 | tail -1)
# (on a loaded machine one of the timing-based tests may fail once: the suite gets a second run before the change is turned down)
echo "$tests" | grep -q "^449 passed" || tests=$(timeout 1200 /venv/bin/python -m pytest -q -p no:cacheprovider --timeout=900 tests 2>&1 | tail -1)
cd /
git -C /repo worktree remove --force "$wt"
res="$prop-$round demo_orig_rc=$o1,$o2 demo_patched_rc=$p1 tests=[$tests] diff=[$stat]"
echo "$res"
if [ "$o1" = 0 ] && [ "$o2" = 0 ] && [ "$p1" = 1 ] && echo "$tests" | grep -q "^449 passed"; then
  d=/verif/seeded/$prop-$round; mkdir -p "$d"
  cp "$src/patch.diff" "$src/demo.py" "$d/"
  /venv/bin/python - "$src/meta.json" "$d/meta.json" "$res" <<'PY'
import json,sys
m=json.load(open(sys.argv[1]))
m["confirmed_by_me"]={"how":"fresh git worktree of /repo under /tmp/sv: demo.py twice on the unchanged tree (exit 0), git apply patch.diff, demo.py again (exit 1), full test-suite with the patch","result":sys.argv[3]}
json.dump(m,open(sys.argv[2],"w"),indent=1)
PY
  echo "STORED $d"
else
  echo "NOT CONFIRMED (logs in /tmp/sv/$prop-$round.*.log)"; exit 1
fi
