"""C07 - remote exceptions arrive as the same exception with the same content.

A server method builds cls(*args), sets attributes and raises; the expected exception is built the same way locally
(so constructor normalisation is on both sides). Every Exception subclass in builtins and Pyro5.errors, through every
call kind (plain, property get, property set, batch member at varying positions, streamed item), serializer and
server type. Unserialisable content / classes unknown to the receiver: a Pyro error naming the original, never a hang
or None, and the next call on the same proxy works."""
import builtins
import threading

from vlib import core, gen, fixture, yieldinj

PROPERTY = "C07"
LEVEL = "exploration"
RULE = ("every Exception subclass of builtins and Pyro5.errors x argument tuples and attribute dicts from the lossless core (class specific "
        "templates where a constructor demands a shape) x 4 serializers x call kinds {plain, property get, property set, batch member at "
        "positions 0..3, streamed item after k items} x both server types; BaseException-only classes at codec level; plus unserialisable "
        "attribute values and exception classes unknown to the receiver. distinct = (class, args shape, attrs, serializer, kind, server); "
        "non-trivial = args or attributes non-empty")
ASSUMPTIONS = ["classes that cannot be constructed from the value domain (e.g. ExceptionGroup) are counted as skipped",
               "StopIteration raised from an iterator's __next__ is the end of the stream, not an exception, so it is not used for the stream kind",
               "builtin slot attributes (OSError.filename, ImportError.name, ...) are neither args nor custom attributes"]
REQUIRED_REACH = ["reraised_exception_objects_ok", "proxies_switched_serializer_on_live_connection", "chained_exceptions_ok", "aftermath_cases", "concurrent_exceptions_checked", "exc_ok", "kind_plain", "kind_propget", "kind_propset", "kind_batch", "kind_stream", "unserialisable_ok", "unknown_class_ok", "next_call_ok", "codec_baseexc_ok", "handover_cases_ok", "big_batches"]
SHARD_TIMEOUT = {"quick": 480, "thorough": 2800}

ARG_SHAPES = [(), ("msg",), ("msg", 2), (2, "strerror"), ("é\x00x", [1, {"k": None}], 2 ** 70, 1.5), ({"d": [1, 2.5, "s"]},), (None,), ("a", "b", "c", "d", "e", "f")]
ATTR_SHAPES = [{}, {"custom_a": 1}, {"custom_a": "text é", "detail_b": [1, {"k": [None, True]}], "zz": 2 ** 80}, {"detail_b": {"nested": {"deeper": [1.5, -0.0]}}},
               {"_detail": "disk seven", "code": 42, "_retry_after": 3}, {"__notes__": ["a note added with add_note"], "x1": None}]
TEMPLATES = {"UnicodeEncodeError": [("utf-8", "text é", 1, 2, "reason")], "UnicodeTranslateError": [("text", 1, 2, "reason")]}
BYTES_TEMPLATES = {"UnicodeDecodeError": [("utf-8", b"\xff\xfeabc", 0, 1, "invalid start byte")]}
KINDS = ["plain", "propget", "propset", "batch0", "batch1", "batch3", "stream0", "stream2", "proxyiter"]


def exception_classes(P):
    out = {}
    for name, t in vars(builtins).items():
        if isinstance(t, type) and issubclass(t, Exception):
            out.setdefault(t, "builtins." + t.__name__)
    for name, t in vars(P.errors).items():
        if isinstance(t, type) and issubclass(t, P.errors.PyroError):
            out.setdefault(t, "Pyro5.errors." + t.__name__)
    return sorted(out.items(), key=lambda kv: kv[1])


def build(cls, args, attrs):
    ex = cls(*args)
    for k, v in attrs.items():
        setattr(ex, k, v)
    return ex


class UnknownToReceiver(Exception):
    """lives only in the harness; the client has no converter for it"""
    pass


class SlotsUnassigned(object):
    __slots__ = ("a", "b")

    def __init__(self):
        self.a = 1          # slot b stays unassigned: getattr raises AttributeError while the object is converted


class GetstateRaises(object):
    def __init__(self, exc):
        self.exc = exc

    def __getstate__(self):
        raise self.exc("getstate failed")


class ReprRaises(object):
    __slots__ = ()

    def __repr__(self):
        raise ZeroDivisionError("repr failed")


def deep_list(n):
    v = []
    for _ in range(n):
        v = [v]
    return v


class Armed:
    def __init__(self):
        self.spec = None
        self.extra = None


def make_service(P, registry):
    armed = Armed()

    def make_exc():
        clsname, args, attrs = armed.spec
        ex = build(registry[clsname], tuple(args), dict(attrs))
        if armed.extra == "unserialisable-object":
            ex.custom_bad = object()
        elif armed.extra == "unserialisable-lock":
            ex.custom_bad = threading.Lock()
        elif armed.extra == "unserialisable-arg":
            ex.args = ex.args + (object(),)
        elif armed.extra == "unserialisable-slots":
            ex.custom_bad = SlotsUnassigned()
        elif armed.extra == "unserialisable-getstate-runtimeerror":
            ex.custom_bad = GetstateRaises(RuntimeError)
        elif armed.extra == "unserialisable-getstate-keyerror":
            ex.custom_bad = GetstateRaises(KeyError)
        elif armed.extra == "unserialisable-getstate-oserror":
            ex.custom_bad = GetstateRaises(OSError)
        elif armed.extra == "unserialisable-repr-raises":
            ex.custom_bad = ReprRaises()
        elif armed.extra == "unserialisable-deep-nesting":
            ex.custom_bad = deep_list(6000)
        return ex

    class RaisingIter(object):
        def __init__(self, k):
            self.k, self.i = k, 0

        def __iter__(self):
            return self

        def __next__(self):
            if self.i < self.k:
                self.i += 1
                return "item%d" % self.i
            raise make_exc()

    @P.server.expose
    class Svc(object):
        def arm(self, clsname, args, attrs, extra=None):
            armed.spec = (clsname, args, attrs)
            armed.extra = extra
            return "armed"

        def raise_it(self):
            raise make_exc()

        def ok(self, x):
            return x

        def raise_direct(self, clsname, args, attrs):
            # stateless (no 'armed' slot): safe for several clients at once
            raise build(registry[clsname], tuple(args), dict(attrs))

        def raise_chained(self, clsname, args, attrs, causekind):
            # `raise X from Y`: X is what the method raises (and what the caller is owed); Y - which may well be something no serializer
            # can carry - is X's private business
            exc = build(registry[clsname], tuple(args), dict(attrs))
            if causekind == "lock":
                cause = RuntimeError("low-level failure", threading.Lock())
            elif causekind == "unicode":
                cause = UnicodeDecodeError("utf-8", b"\xff\xfe", 0, 1, "invalid start byte")
            elif causekind == "plain":
                cause = KeyError("missing")
            else:
                cause = None
            raise exc from cause

        def raise_shared(self):
            # one exception OBJECT for every caller (a cached failure, a module-level singleton error): several workers report it at once
            raise SHARED_FAILURE.with_traceback(None)

        def raise_shared_elsewhere(self):
            # the same exception object again, raised from another place (a stored failure re-raised by another accessor)
            raise SHARED_FAILURE.with_traceback(None)

        def echo(self, token):
            return token

        @property
        def boom(self):
            raise make_exc()

        @boom.setter
        def boom(self, v):
            raise make_exc()

        def stream(self, k):
            return RaisingIter(k)

        def __iter__(self):
            # the object itself is iterable: `for x in proxy` / list(proxy) use the remote iterator
            return RaisingIter(2)

    return armed, Svc()


def run_kind(P, p, kind):
    """performs the call of the given kind; returns (prefix_results, exception or None)"""
    try:
        if kind == "plain":
            p.raise_it()
            return [], None
        if kind == "propget":
            p.boom
            return [], None
        if kind == "propset":
            p.boom = 5
            return [], None
        if kind.startswith("batch"):
            pos = int(kind[5:])
            b = P.client.BatchProxy(p)
            for i in range(pos):
                b.ok(i)
            b.raise_it()
            b.ok("after")
            got = []
            try:
                for r in b():
                    got.append(r)
            except Exception as x:
                return got, x
            return got, None
        if kind.startswith("stream") or kind == "proxyiter":
            got = []
            it = p.stream(int(kind[6:])) if kind != "proxyiter" else iter(p)
            try:
                for item in it:
                    got.append(item)
            except Exception as x:
                if kind == "proxyiter":
                    # the stream iterator lives inside the proxy's generator and cannot be closed by name: drop the frames that hold it now, in this
                    # thread (see below), instead of leaving them to the cyclic collector
                    import traceback
                    traceback.clear_frames(x.__traceback__)
                    x = x.with_traceback(None)
                return got, x
            finally:
                # close in the client thread: client and daemon share this process, and a stream iterator finalised by the
                # garbage collector inside the (single) multiplex server thread would try to connect to its own server
                try:
                    it.close()
                except Exception:
                    pass
            return got, None
    except Exception as x:
        return [], x
    return [], None


def expected_prefix(kind):
    if kind.startswith("batch"):
        return list(range(int(kind[5:])))
    if kind.startswith("stream"):
        return ["item%d" % (i + 1) for i in range(int(kind[6:]))]
    if kind == "proxyiter":
        return ["item1", "item2"]
    return []


def check_case(fx, p, armed_name, cls, clsname, args, attrs, sername, kind, rec, token):
    P = fx.P
    pay = {"class": clsname, "args": args, "attrs": attrs, "serializer": sername, "kind": kind, "servertype": fx.servertype}
    try:
        twin = build(cls, tuple(args), dict(attrs))
    except Exception:
        rec.count("skipped_unconstructible")
        return
    rec.case((clsname, repr(args), repr(sorted(attrs)), sername, kind, fx.servertype), nontrivial=bool(args or attrs),
             sample=pay if rec.evaluations % 900 == 7 else None)
    try:
        p.arm(clsname, list(args), attrs)
    except Exception as x:
        rec.inconc("arming call failed: %r" % (x,))
        return
    prefix, exc = run_kind(P, p, kind)
    rec.count("kind_" + ("batch" if kind.startswith("batch") else "stream" if kind.startswith("stream") else kind))
    if kind == "proxyiter":
        rec.count("kind_stream")
    want_type = type(twin)
    is_comm = issubclass(want_type, P.errors.CommunicationError) and not issubclass(want_type, P.errors.SerializeError)
    if exc is None:
        rec.violation("no-exception-raised", "%s %s: remote %s%r raised nothing at the caller (results %r)" % (sername, kind, clsname, tuple(args), prefix), pay)
        return
    if sername == "marshal" and kind.startswith("batch") and type(exc) is ValueError and exc.args == ("unmarshallable object",) and not getattr(exc, "custom_a", None) \
            and "marshal" in "".join(getattr(exc, "_pyroTraceback", None) or []):
        rec.violation("marshal-batch-member-exception-unmarshallable",
                      "marshal %s: the exception wrapper of the failing batch member cannot be marshalled; remote %s arrives as %r" % (kind, clsname, exc), pay)
        return
    if type(exc) is not want_type or (is_comm and not getattr(exc, "_pyroTraceback", None)):
        if is_comm and isinstance(exc, P.errors.ConnectionClosedError) and not getattr(exc, "_pyroTraceback", None):
            rec.violation("remote-raised-communication-error-gets-no-reply",
                          "%s %s: remote method raised %s; the server sent no error reply and dropped the connection, caller got %r" % (sername, kind, clsname, exc), pay)
        elif sername == "marshal" and kind.startswith("batch") and type(exc) is ValueError and "unmarshallable" in str(exc):
            rec.violation("marshal-batch-member-exception-unmarshallable",
                          "marshal %s: the exception wrapper of the failing batch member cannot be marshalled; remote %s arrives as %r" % (kind, clsname, exc), pay)
        elif want_type in (StopIteration,) and kind.startswith("batch") and type(exc) is RuntimeError and "StopIteration" in str(exc):
            rec.violation("batch-member-stopiteration-becomes-runtimeerror",
                          "%s %s: remote StopIteration%r re-raised inside the batch results generator arrives as %r (PEP 479)" % (sername, kind, tuple(args), exc), pay)
        else:
            rec.violation("exception-class-differs", "%s %s: remote raised %s%r but caller got %s: %r" % (
                sername, kind, clsname, tuple(args), type(exc).__module__ + "." + type(exc).__name__, exc), pay)
        return
    if not gen.deep_eq(exc.args, twin.args):
        rec.violation("exception-args-differ", "%s %s: %s args sent %r arrived %r" % (sername, kind, clsname, twin.args, exc.args), pay)
        return
    got_vars = {k: v for k, v in vars(exc).items() if k != "_pyroTraceback"}
    if not gen.deep_eq(got_vars, vars(twin)):
        rec.violation("exception-attributes-differ", "%s %s: %s attributes sent %r arrived %r" % (sername, kind, clsname, vars(twin), got_vars), pay)
        return
    tb = getattr(exc, "_pyroTraceback", None)
    raiser = "__next__" if kind.startswith("stream") or kind == "proxyiter" else ("boom" if kind.startswith("prop") else "raise_it")
    if not (isinstance(tb, list) and tb and all(isinstance(l, str) for l in tb) and any("make_exc" in l or raiser in l for l in tb)):
        rec.violation("remote-traceback-missing", "%s %s: %s arrived without usable remote traceback: %r" % (sername, kind, clsname, core.short(tb, 200)), pay)
        return
    if prefix != expected_prefix(kind):
        rec.violation("results-before-exception-differ", "%s %s: results before the exception %r, expected %r" % (sername, kind, prefix, expected_prefix(kind)), pay)
        return
    rec.count("exc_ok")
    # the statement promises a usable proxy only for the unserialisable case; here a follow-up call may fail with a communication
    # error (e.g. the server closes the connection after replying with a SecurityError), but it must never return a wrong reply
    try:
        if p.echo(token) != token:
            rec.violation("next-call-wrong-reply", "call after %s returned a wrong token" % clsname, pay)
        else:
            rec.count("next_call_ok")
    except P.errors.CommunicationError as x:
        if isinstance(exc, P.errors.CommunicationError):
            # what the caller saw WAS a communication error (a SerializeError relayed by the daemon, which drops the connection after
            # answering): the proxy knows its connection is gone and must serve the next call over a fresh one
            rec.violation("next-call-fails-after-communication-error", "%s %s: the call raised %s (a communication error); the next call on the same proxy failed too: %r" % (
                sername, kind, clsname, x), pay)
        else:
            rec.count("next_call_comm_error")
    except Exception as x:
        rec.violation("next-call-fails", "call after remote %s failed: %r" % (clsname, x), pay)


def chained_phase(fx, p, sername, registry, rec):
    """exceptions raised with an explicit cause (`raise X from Y`): X arrives as X, whatever Y is made of"""
    P = fx.P
    for clsname in ("builtins.ValueError", "builtins.KeyError", "Pyro5.errors.NamingError", "builtins.RuntimeError"):
        for causekind in ("lock", "unicode", "plain", "none"):
            args, attrs = ["bad input", 7], {"field": "name", "codes": [1, 2]}
            pay = {"chained": True, "class": clsname, "cause": causekind, "serializer": sername, "servertype": fx.servertype}
            rec.case(("chained", clsname, causekind, sername, fx.servertype), nontrivial=True)
            try:
                p.raise_chained(clsname, args, attrs, causekind)
                got = ("returned",)
            except Exception as x:
                tb = getattr(x, "_pyroTraceback", None)
                got = (type(x), tuple(x.args), {k: v for k, v in vars(x).items() if not k.startswith("_pyro")}, bool(tb) and "raise_chained" in "".join(tb))
            ok = got[0] is registry[clsname] and gen.deep_eq(list(got[1]), args) and gen.deep_eq(got[2], attrs) and got[3]
            if not ok:
                rec.violation("exception-class-differs" if got[0] is not registry[clsname] else "exception-content-differs",
                              "%s: remote `raise %s(*%r) from <%s cause>` (attributes %r) reached the caller as %r (class, args, attributes, remote traceback present)" % (
                                  sername, clsname, args, causekind, attrs, got), pay)
                return
            rec.count("chained_exceptions_ok")
    # one exception OBJECT raised twice, from two places: each time the caller gets the remote traceback of THAT failure
    for first, second in (("raise_shared", "raise_shared_elsewhere"), ("raise_shared_elsewhere", "raise_shared")):
        texts = []
        for m in (first, second):
            try:
                getattr(p, m)()
                texts.append(None)
            except Exception as x:
                texts.append("".join(getattr(x, "_pyroTraceback", None) or []))
        rec.case(("reraised-object", first, second, sername, fx.servertype), nontrivial=True)
        import re as _re
        if texts[1] is None or not _re.search(r"\b%s\b" % second, texts[1]):
            rec.violation("remote-traceback-of-another-failure", "%s: one exception object was raised by %s and then by %s; the remote traceback that came with the second failure does not mention %s: %s" % (
                sername, first, second, second, core.short(texts[1], 400)), {"reraised": True, "serializer": sername, "servertype": fx.servertype})
            return
        rec.count("reraised_exception_objects_ok")


def check_unserialisable(fx, p, sername, extra, clsname, rec, token, registry):
    P = fx.P
    pay = {"class": clsname, "extra": extra, "serializer": sername, "servertype": fx.servertype, "kind": "plain"}
    rec.case(("unser", clsname, extra, sername, fx.servertype))
    try:
        p.arm(clsname, ["original message"], {"custom_a": 1}, extra)
    except Exception as x:
        rec.inconc("arming failed %r" % (x,))
        return
    done = {}

    def call():
        try:
            done["result"] = ("returned", p.raise_it())
        except BaseException as x:
            done["result"] = ("raised", x)
    # same thread (proxy ownership); the proxy has a timeout so a hang surfaces as a TimeoutError, which is not a description of the original
    call()
    kind, val = done["result"]
    short_cls = clsname.rsplit(".", 1)[-1]
    if kind == "returned":
        rec.violation("unserialisable-exception-silent", "%s: %s with %s: call returned %r" % (sername, clsname, extra, val), pay)
        return
    if isinstance(val, P.errors.TimeoutError):
        rec.violation("unserialisable-exception-hangs", "%s: %s with %s: call timed out" % (sername, clsname, extra), pay)
        return
    if not isinstance(val, P.errors.PyroError) and type(val) is not registry.get(clsname):
        rec.violation("unserialisable-exception-not-pyro-error", "%s: %s with %s: caller got %r" % (sername, clsname, extra, val), pay)
        return
    if isinstance(val, P.errors.PyroError) and short_cls not in str(val) and type(val) is not registry.get(clsname):
        rec.violation("unserialisable-exception-not-described", "%s: %s with %s: the Pyro error does not name the original: %r" % (sername, clsname, extra, val), pay)
        return
    rec.count("unknown_class_ok" if extra == "unknown-class" else "unserialisable_ok")
    try:
        if p.echo(token) != token:
            rec.violation("next-call-wrong-reply", "after unserialisable %s" % clsname, pay)
        else:
            rec.count("next_call_ok")
    except Exception as x:
        rec.violation("next-call-fails", "call after unserialisable remote %s failed: %r" % (clsname, x), pay)


SHARED_FAILURE = LookupError("shared failure", 7)
SHARED_FAILURE.code = ["E", 42]


def concurrent_phase(fx, sername, registry, rec, r):
    """several clients raise exceptions at the same time (their replies are serialised by different server workers at once):
    every caller still gets exactly its own exception"""
    P = fx.P
    classes = ["builtins.ValueError", "builtins.KeyError", "Pyro5.errors.NamingError", "builtins.LookupError"]
    problems = []
    lock = threading.Lock()

    def client(tid):
        try:
            with fx.proxy("svc", serializer=sername, timeout=10.0) as p:
                for n in range(25):
                    clsname = classes[(tid + n) % len(classes)]
                    args = ["t%d-n%d" % (tid, n), 2 ** 70 + tid * 1000 + n]        # the big int takes msgpack's default() hook, like the exception itself
                    attrs = {"who": [tid, n], "big": -(2 ** 80) - n, "note": "é%d" % tid}
                    try:
                        p.raise_direct(clsname, args, attrs)
                        got = ("returned",)
                    except Exception as x:
                        got = (type(x), tuple(x.args), {k: v for k, v in vars(x).items() if not k.startswith("_pyro")})
                    want = (registry[clsname], tuple(args), attrs)
                    ok = got[0] is want[0] and gen.deep_eq(list(got[1]), list(want[1])) and gen.deep_eq(got[2], want[2])
                    with lock:
                        rec.count("concurrent_exceptions_checked")
                        if not ok:
                            problems.append("client %d call %d: raised %s%r %r remotely, the caller got %r" % (tid, n, clsname, tuple(args), attrs, got))
                    # ... and one exception object that all of them are handed at the same time
                    try:
                        p.raise_shared()
                        got = ("returned",)
                    except Exception as x:
                        tb = getattr(x, "_pyroTraceback", None)
                        got = (type(x), tuple(x.args), {k: v for k, v in vars(x).items() if not k.startswith("_pyro")},
                               bool(tb) and isinstance(tb, list) and all(isinstance(t, str) for t in tb) and "raise_shared" in "".join(tb))
                    ok = got[0] is LookupError and gen.deep_eq(list(got[1]), ["shared failure", 7]) and gen.deep_eq(got[2], {"code": ["E", 42]}) and got[3]
                    with lock:
                        rec.count("concurrent_shared_exception_checked")
                        if not ok:
                            problems.append("client %d call %d: the method raised the shared LookupError('shared failure', 7) with code=['E', 42]; the caller got %r (class, args, attributes, remote traceback present)" % (tid, n, got))
        except Exception as x:
            with lock:
                problems.append("client %d could not work: %r" % (tid, x))
    yieldinj.enable(("Pyro5/serializers.py", "Pyro5/protocol.py", "Pyro5/server.py"), 0.02, rec.seed * 17 + 3, max_sleep=0.001)
    try:
        ts = [threading.Thread(target=client, args=(i,), daemon=True) for i in range(5)]
        for t in ts:
            t.start()
        for t in ts:
            t.join(120)
    finally:
        n, _ = yieldinj.disable()
        rec.count("injected_yields", n)
    rec.case(("concurrent", sername, fx.servertype), nontrivial=True)
    if problems:
        rec.violation("concurrent-exceptions-mixed-up", "%s (%s server), 5 clients raising at once: %d of the calls did not get their own exception; first: %s" % (
            sername, fx.servertype, len(problems), problems[0]), {"concurrent": True, "serializer": sername, "servertype": fx.servertype})


def reregistration_phase(fx, sername, rec):
    """an object id is handed from one object to another with the same member names, whose `submit` is no longer oneway but a regular
    method that raises; a long-lived proxy that reconnects (either way) gets the exception, like a brand-new proxy does - never None"""
    P = fx.P

    @P.server.expose
    class V1(object):
        @P.server.oneway
        def submit(self, item):
            pass

        def other(self):
            return 1

    @P.server.expose
    class V2(object):
        def submit(self, item):
            e = ValueError("rejected", item)
            e.reason = ["too", "late"]
            raise e

        def other(self):
            return 2
    for how in ("reconnect", "release"):
        oid = "handover-%s-%s" % (sername, how)
        pay = {"reregistration": how, "serializer": sername, "servertype": fx.servertype}
        rec.case(("reregistration", how, sername, fx.servertype), nontrivial=True)
        v1, v2 = V1(), V2()
        fx.register(v1, oid)
        p = fx.proxy(oid, serializer=sername, timeout=8.0)
        try:
            if p.submit(1) is not None or p.other() != 1:
                rec.inconc("re-registration phase: first object not reached")
                continue
            fx.daemon.unregister(v1)
            fx.register(v2, oid)
            if how == "reconnect":
                p._pyroReconnect(tries=3)
            else:
                p._pyroRelease()
            outcomes = []
            for q in (p, fx.proxy(oid, serializer=sername, timeout=8.0)):
                try:
                    outcomes.append(("returned", q.submit(7)))
                except ValueError as x:
                    outcomes.append(("raised", type(x).__name__, tuple(x.args), getattr(x, "reason", None)))
                except Exception as x:
                    outcomes.append(("raised", type(x).__name__, repr(x)))
                if q is not p:
                    q._pyroRelease()
            want = ("raised", "ValueError", ("rejected", 7), ["too", "late"])
            if outcomes[1] != want:
                rec.inconc("re-registration phase: a brand-new proxy got %r" % (outcomes[1],))
            elif outcomes[0] != want:
                rec.violation("remote-exception-lost-after-handover", "the id was handed to an object whose submit() raises ValueError('rejected', 7); the long-lived proxy (%s) got %r, "
                              "a brand-new proxy %r" % (how, outcomes[0], outcomes[1]), pay)
            else:
                rec.count("handover_cases_ok")
        except Exception as x:
            rec.inconc("re-registration phase failed in the harness: %r" % (x,))
        finally:
            p._pyroRelease()
            for o in (v1, v2):
                try:
                    fx.daemon.unregister(o)
                except Exception:
                    pass


def plan(tier, seed):
    shards = []
    for st in ("thread", "multiplex"):
        for sername in fixture.SERIALIZERS:
            shards.append({"servertype": st, "serializer": sername, "nargs": 2 if tier == "quick" else len(ARG_SHAPES),
                           "nattrs": 1 if tier == "quick" else len(ATTR_SHAPES)})
    shards.append({"codec": True})
    return shards


def run_shard(shard, rec):
    P = fixture.pyro()
    classes = exception_classes(P)
    registry = {name: cls for cls, name in classes}
    registry["checks.c07_exceptions.UnknownToReceiver"] = UnknownToReceiver
    r = gen.rng(rec.seed, "c07", repr(sorted(shard.items())))
    if shard.get("codec"):
        # BaseException-only builtins: the daemon deliberately catches Exception only; codec level
        for name, t in vars(builtins).items():
            if isinstance(t, type) and issubclass(t, BaseException) and not issubclass(t, Exception) and t is not BaseExceptionGroup:
                for sername in fixture.SERIALIZERS:
                    ser = P.serializers.serializers[sername]
                    for args in (("m",), (3,), ()):
                        rec.case(("codec", name, sername, args))
                        try:
                            twin = t(*args)
                            twin.custom_a = [1, "x"]
                            back = ser.loads(ser.dumps(twin))
                        except Exception as x:
                            rec.violation("codec-baseexception-fails", "%s: %s%r round trip raised %r" % (sername, name, args, x), None)
                            continue
                        if type(back) is not t or not gen.deep_eq(back.args, twin.args) or not gen.deep_eq({k: v for k, v in vars(back).items()}, vars(twin)):
                            rec.violation("codec-baseexception-differs", "%s: %s%r came back as %r %r" % (sername, name, args, back, vars(back)), None)
                        else:
                            rec.count("codec_baseexc_ok")
        return      # this shard only decides the codec-level part
    sername = shard["serializer"]
    dcls = None
    if (len(sername) + len(shard["servertype"]) + rec.seed) % 2:
        # an application's Daemon subclass that has a METHOD of the name the daemon uses for its error-handler attribute (written the way one
        # writes any other override: self first). Whether or not the library ever calls it, exceptions reach the caller as they were raised
        class AppDaemon(P.server.Daemon):
            def methodcall_error_handler(self, client_sock, method, vargs, kwargs, exception):
                rec.count("subclass_error_handler_method_calls")
        dcls = fixture.make_monitored_daemon_class(base=AppDaemon, hooks_on_instance=fixture.variant_for(rec.seed, "c07", repr(sorted(shard.items()))) >= len(fixture.VARIANTS))
        rec.count("shards_with_error_handler_method_in_subclass")
    fx = fixture.Fixture(servertype=shard["servertype"], COMMTIMEOUT=0.0, ITER_STREAMING=True, daemon_cls=dcls,
                         variant=fixture.variant_for(rec.seed, "c07", repr(sorted(shard.items()))))
    rec.count("fixture_variant:" + fx.variant)
    try:
        armed, svc = make_service(P, registry)
        fx.register(svc, "svc")
        switch_over = None
        if (len(sername) + rec.seed) % 2:
            p = fx.proxy("svc", serializer=sername, timeout=8.0)
        else:
            # the proxy connected (and made a call) with ANOTHER serializer and was switched over afterwards, on the live connection: from then on
            # its requests - and the error replies to them - are in the serializer it uses now
            other = fixture.SERIALIZERS[(fixture.SERIALIZERS.index(sername) + 1) % len(fixture.SERIALIZERS)]
            p = fx.proxy("svc", serializer=other, timeout=8.0)

            def switch_over():
                # (again and again: some of the cases below cost the proxy its connection, and a fresh one is handshaken in the current serializer)
                p._pyroRelease()
                p._pyroSerializer = other
                p._pyroBind()
                p._pyroSerializer = sername
                rec.count("proxies_switched_serializer_on_live_connection")
            switch_over()
        tokn = [0]
        arg_rot = r.randrange(len(ARG_SHAPES))
        for ci, (cls, clsname) in enumerate(classes):
            shapes = list(TEMPLATES.get(cls.__name__, []))
            if sername in ("marshal", "msgpack"):
                shapes += BYTES_TEMPLATES.get(cls.__name__, [])
            if not shapes:
                shapes = [ARG_SHAPES[(arg_rot + ci + j) % len(ARG_SHAPES)] for j in range(shard["nargs"])]
                if ("msg",) not in shapes:
                    shapes.append(("msg",))
            if cls.__name__ in BYTES_TEMPLATES and sername not in ("marshal", "msgpack"):
                rec.count("skipped_needs_bytes")
                continue
            for args in shapes:
                for ai in range(shard["nattrs"]):
                    attrs = ATTR_SHAPES[(ci + ai) % len(ATTR_SHAPES)]
                    for kind in KINDS:
                        if rec.should_stop(40):
                            break
                        if (kind.startswith("stream") or kind == "proxyiter") and issubclass(cls, (StopIteration, StopAsyncIteration)):
                            continue
                        if kind == "proxyiter" and issubclass(cls, AttributeError):
                            continue      # (Proxy.__iter__ reads an AttributeError as "no remote iterator" and falls back to indexing: its documented design)
                        tokn[0] += 1
                        if switch_over is not None and tokn[0] % 20 == 1:
                            switch_over()
                        check_case(fx, p, armed, cls, clsname, args, attrs, sername, kind, rec, "tok%d" % tokn[0])
        for extra in ("unserialisable-object", "unserialisable-lock", "unserialisable-arg", "unserialisable-slots", "unserialisable-getstate-runtimeerror",
                      "unserialisable-getstate-keyerror", "unserialisable-getstate-oserror", "unserialisable-repr-raises", "unserialisable-deep-nesting"):
            for clsname in ("builtins.ValueError", "builtins.KeyError", "Pyro5.errors.NamingError", "builtins.OSError"):
                tokn[0] += 1
                check_unserialisable(fx, p, sername, extra, clsname, rec, "tok%d" % tokn[0], registry)
        tokn[0] += 1
        check_unserialisable(fx, p, sername, "unknown-class", "checks.c07_exceptions.UnknownToReceiver", rec, "tok%d" % tokn[0], registry)
        chained_phase(fx, p, sername, registry, rec)
        # aftermath: the same daemon, after it had to fall back for unserialisable exceptions of these classes, still delivers ordinary
        # exceptions of the very same classes unchanged (nothing learnt from one exception may be applied to the next)
        for clsname in ("builtins.ValueError", "builtins.KeyError", "Pyro5.errors.NamingError", "builtins.OSError"):
            for kind in ("plain", "propget", "stream2", "batch1"):
                tokn[0] += 1
                check_case(fx, p, armed, registry[clsname], clsname, ("after the fallback", 2), {"custom_a": 1}, sername, kind, rec, "tok%d" % tokn[0])
                rec.count("aftermath_cases")
        # a failing call at the end of a very long batch (bulk results before it): it still arrives as that call's exception
        if sername != "marshal":
            for nbefore in (1200, 4500):
                tokn[0] += 1
                rec.case(("bigbatch", nbefore, sername, fx.servertype), nontrivial=True)
                check_case(fx, p, armed, ValueError, "builtins.ValueError", ("bad value", 42), {"custom_a": [1, "x"]}, sername, "batch%d" % nbefore, rec, "tok%d" % tokn[0])
                rec.count("big_batches")
        p._pyroRelease()
        reregistration_phase(fx, sername, rec)
        concurrent_phase(fx, sername, registry, rec, r)
        for kind, text in fixture.take_faults():
            if kind == "thread-exception":
                rec.violation("server-thread-fault", text, None)
    finally:
        fx.stop()


def replay(payload, rec):
    P = fixture.pyro()
    classes = exception_classes(P)
    registry = {name: cls for cls, name in classes}
    registry["checks.c07_exceptions.UnknownToReceiver"] = UnknownToReceiver
    fx = fixture.Fixture(servertype=payload["servertype"], COMMTIMEOUT=0.0)
    try:
        armed, svc = make_service(P, registry)
        fx.register(svc, "svc")
        p = fx.proxy("svc", serializer=payload["serializer"], timeout=8.0)
        if payload.get("reregistration"):
            reregistration_phase(fx, payload["serializer"], rec)
        elif payload.get("concurrent"):
            for _ in range(5):
                concurrent_phase(fx, payload["serializer"], registry, rec, gen.rng(0, "replay"))
        elif "extra" in payload:
            check_unserialisable(fx, p, payload["serializer"], payload["extra"], payload["class"], rec, "tok", registry)
        else:
            check_case(fx, p, armed, registry[payload["class"]], payload["class"], payload["args"], payload["attrs"], payload["serializer"], payload["kind"], rec, "tok")
    finally:
        fx.stop()
