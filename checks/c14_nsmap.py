"""C14 - the name server is a faithful map, identical on both storage back-ends, durable.

Lock-step differential: a small map model, NameServer(MemoryStorage) and NameServer(SqlStorage) execute the same history;
every return value / exception class must agree. Reopen points compare the database with the model. E9: for every
mutating operation every sqlite statement (incl. commit) is failed once -> the operation must raise and have no effect;
thorough tier also crashes a child process (os._exit) at every statement and reopens."""
import os
import re
import shutil
import sqlite3 as real_sqlite3
import subprocess
import sys
import tempfile
import threading

from vlib import core, gen, fixture

PROPERTY = "C14"
LEVEL = "fault_enumeration"
RULE = ("histories of 10-60 operations {register (safe/unsafe, uri as str or URI, metadata as set/list/tuple/None incl. duplicates), remove by name / "
        "prefix / regex, set_metadata, lookup, list (all/prefix/regex, with metadata), yplookup (all/any), count} over names and tags from an "
        "alphabet with upper/lower case pairs, SQL wildcards % and _, regex metacharacters, unicode, the empty string and Pyro.NameServer; "
        "executed in lock-step on model, memory and sqlite back-ends, reopen at random points; failpoints: every statement index of every "
        "mutating sqlite operation of the history failed once (exhaustive per history). distinct = (history hash, step) for differential steps and "
        "(history hash, step, statement index) for failpoints; non-trivial = the step touches an existing entry or returns a non-empty result")
ASSUMPTIONS = ["an empty name/prefix/regex argument means 'not given' (the API's own convention on both back-ends)",
               "results are normalised to (uri text, set of tags); any exception type counts as 'raises' for injected failures",
               "sqlite's own journaling is trusted for crash atomicity; the check observes it through reopen"]
REQUIRED_REACH = ["steps_agree", "reopens_ok", "failpoints_ok", "failpoint_statements", "daemon_steps_agree", "prefix_wildcard_cases", "case_pair_cases", "bulk_removals_ok"]
SHARD_TIMEOUT = {"quick": 480, "thorough": 3000}
NSNAME = "Pyro.NameServer"
NAMES = ["test", "Test", "TEST", "test.a", "test.b", "Test.a", "tes", "te%t", "te_t", "te.t", "%", "_", "a%", "axb", "a_b", "a.b", "a+b", "a*", "[ab]", "(x)", "ä", "Ä", "ß", "straße",
         "", NSNAME, "Pyro.NameServer2", "pyro.nameserver", "x" * 40, "a b", "ab\\c", "'quoted'", "semi;colon", "\"dq\"",
         "42", "042", "1e2", "100", "+5", "0x10", " 7", "NULL", "nan",
         # characters from the whole of unicode, also right after a prefix that is listed / removed (collation and byte order must not matter)
         "test.\U0001F600", "test.\U00010348.deep", "te\uffff", "te\uffffx", "test\U0010FFFF", "a\U0001F600", "te\x7f", "te\x01", "ä\U0001F600"]        # number-like text must stay literal text (sqlite column affinity)
TAGS = ["t", "T", "tag%", "tag_", "a", "b", "ä", "", "class:x", "x.y", "[", "%", "7", "07", "7.0"]
PREFIXES = ["te", "Te", "test", "TEST", "test.", "te%", "te_", "%", "_", "a", "a%", "a_", "a.", "ä", "Ä", "Pyro", "pyro", "", "[", "ab\\", "'", "x" * 40, "st", "0", "4", "1"]
REGEXES = ["te.*", "test\\..", "TEST", "[Tt]est", ".*", "a.b", "a\\+b", "a+b", "%", "_", "(", "[", "*", "ä", "te%t", "Pyro\\..*", "", "a|t", "^te", "st$", ".*e$", "[0-9]+", "0.*"]
URIS = ["PYRO:obj@host:1", "PYRO:obj2@host:2", "PYRO:o@[::1]:3", "PYRO:o@./u:sock", "PYRONAME:x", "PYRO:Ä@h:4"]
MUTATING = {"register", "remove", "set_metadata"}


class MapModel:
    def __init__(self):
        self.d = {}

    def snapshot(self):
        return {n: (u, frozenset(m)) for n, (u, m) in self.d.items()}

    def apply(self, op, a):
        d = self.d
        if op == "register":
            name, uri, safe, meta = a["name"], a["uri"], a["safe"], a["meta"]
            if isinstance(meta, str):
                return ("exc", "TypeError")
            if safe and name in d:
                return ("exc", "NamingError")
            d[name] = (uri, frozenset(meta or ()))
            return None
        if op == "lookup":
            if a["name"] not in d:
                return ("exc", "NamingError")
            u, m = d[a["name"]]
            return (u, m) if a["meta"] else u
        if op == "set_metadata":
            if isinstance(a["meta"], str):
                return ("exc", "TypeError")
            if a["name"] not in d:
                return ("exc", "NamingError")
            d[a["name"]] = (d[a["name"]][0], frozenset(a["meta"] or ()))
            return None
        if op == "remove":
            name, prefix, regex = a.get("name"), a.get("prefix"), a.get("regex")
            if name and name in d and name != NSNAME:
                del d[name]
                return 1
            if prefix:
                v = [n for n in d if n.startswith(prefix) and n != NSNAME]
            elif regex:
                try:
                    rx = re.compile(regex)
                except re.error:
                    return ("exc", "NamingError")
                v = [n for n in d if rx.match(n) and n != NSNAME]
            else:
                return 0
            for n in v:
                del d[n]
            return len(v)
        if op == "list":
            prefix, regex = a.get("prefix"), a.get("regex")
            if prefix and regex:
                return ("exc", "ValueError")
            if prefix:
                sel = [n for n in d if n.startswith(prefix)]
            elif regex:
                try:
                    rx = re.compile(regex)
                except re.error:
                    return ("exc", "NamingError")
                sel = [n for n in d if rx.match(n)]
            else:
                sel = list(d)
            return {n: ((d[n][0], d[n][1]) if a["meta"] else d[n][0]) for n in sel}
        if op == "yplookup":
            ma, mn = a.get("all"), a.get("any")
            if ma and mn:
                return ("exc", "ValueError")
            if ma:
                if isinstance(ma, str):
                    return ("exc", "TypeError")
                sel = [n for n in d if frozenset(ma) <= d[n][1]]
            elif mn:
                if isinstance(mn, str):
                    return ("exc", "TypeError")
                sel = [n for n in d if frozenset(mn) & d[n][1]]
            else:
                return {}
            return {n: ((d[n][0], d[n][1]) if a["meta"] else d[n][0]) for n in sel}
        if op == "count":
            return len(d)
        raise ValueError(op)


def norm(v):
    """normalise a real result: URI -> text, metadata collections -> frozenset"""
    if type(v).__name__ == "URI":
        return str(v)
    if isinstance(v, dict):
        return {k: norm(x) for k, x in v.items()}
    if isinstance(v, (tuple, list)) and len(v) == 2 and isinstance(v[1], (set, frozenset, list, tuple)) and not isinstance(v[0], (tuple, list, dict)):
        return (norm(v[0]), frozenset(v[1]))
    if isinstance(v, (tuple, list)) and len(v) == 2 and v[1] is None and isinstance(v[0], str):
        return (v[0], frozenset())
    return v


def spoil(v, depth=0):
    """what an in-process caller may do with the objects it passed in or got back: keep using them. Every mutable container is changed in
    place AFTER the operation has returned (and after its result has been normalised): a faithful map keeps nothing of the caller's"""
    if isinstance(v, set):
        v.clear()
        v.add("~spoiled~")
    elif isinstance(v, list):
        for x in v:
            spoil(x, depth + 1)
        del v[:]
        v.append("~spoiled~")
    elif isinstance(v, dict):
        for x in list(v.values()):
            spoil(x, depth + 1)
        v.clear()
        v["~spoiled~"] = ("PYRO:spoiled@h:1", {"~spoiled~"})
    elif isinstance(v, tuple) and depth < 3:
        for x in v:
            spoil(x, depth + 1)
    elif type(v).__name__ == "URI" and hasattr(v, "protocol"):
        # a uri object handed out by the server belongs to the caller: it may re-point it (the daemon's NAT rewriting does the same)
        try:
            v.object = "~spoiled~"
            if v.host is not None and not v.sockname:
                v.host, v.port = "spoiled.invalid", 1
        except Exception:
            pass


def done(result, *args):
    out = norm(result)
    if SPOIL[0]:
        spoil(result)
        for x in args:
            spoil(x)
    return out


SPOIL = [True]


def real_apply(ns, op, a, URI):
    return real_apply_(ns, op, a, URI)


def real_apply_(ns, op, a, URI):
    try:
        if op == "register":
            uri = URI(a["uri"]) if a.get("uri_obj") else a["uri"]
            meta = a["meta"]
            if a.get("meta_as") == "list" and meta is not None and not isinstance(meta, str):
                meta = list(meta) + (list(meta)[:1] if a.get("dup") else [])
            elif a.get("meta_as") == "tuple" and meta is not None and not isinstance(meta, str):
                meta = tuple(meta)
            elif meta is not None and not isinstance(meta, str):
                meta = set(meta)
            return done(ns.register(a["name"], uri, safe=a["safe"], metadata=meta), meta)
        if op == "lookup":
            return done(ns.lookup(a["name"], return_metadata=a["meta"]))
        if op == "set_metadata":
            meta = a["meta"]
            if meta is not None and not isinstance(meta, str):
                meta = list(meta) if a.get("meta_as") == "list" else set(meta)
            return done(ns.set_metadata(a["name"], meta), meta)
        if op == "remove":
            return done(ns.remove(name=a.get("name"), prefix=a.get("prefix"), regex=a.get("regex")))
        if op == "list":
            return done(ns.list(prefix=a.get("prefix"), regex=a.get("regex"), return_metadata=a["meta"]))
        if op == "yplookup":
            ma, mn = a.get("all"), a.get("any")
            if a.get("as_list"):
                ma = (list(ma) + list(ma)[:1]) if ma and not isinstance(ma, str) and a.get("dup") else (list(ma) if ma and not isinstance(ma, str) else ma)
                mn = list(mn) if mn and not isinstance(mn, str) else mn
            return done(ns.yplookup(meta_all=ma, meta_any=mn, return_metadata=a["meta"]), ma, mn)
        if op == "count":
            return ns.count()
    except Exception as x:
        return ("exc", type(x).__name__)
    raise ValueError(op)


def gen_history(r, n):
    h = []
    for _ in range(n):
        k = r.random()
        name = r.choice(NAMES)
        if k < 0.34:
            meta = r.choice([None, None, (), (r.choice(TAGS),), tuple(r.sample(TAGS, r.randrange(1, 4))), "astring" if r.random() < 0.1 else ("t",)])
            h.append(("register", {"name": name, "uri": r.choice(URIS), "uri_obj": r.random() < 0.3, "safe": r.random() < 0.3, "meta": meta,
                                   "meta_as": r.choice(["set", "list", "tuple"]), "dup": r.random() < 0.3}))
        elif k < 0.44:
            w = r.random()
            if w < 0.5:
                h.append(("remove", {"name": name}))
            elif w < 0.8:
                h.append(("remove", {"prefix": r.choice(PREFIXES)}))
            else:
                h.append(("remove", {"regex": r.choice(REGEXES)}))
        elif k < 0.52:
            h.append(("set_metadata", {"name": name, "meta": r.choice([None, (), ("t",), tuple(r.sample(TAGS, 2)), "astring" if r.random() < 0.2 else ("b",)]), "meta_as": r.choice(["set", "list"])}))
        elif k < 0.62:
            h.append(("lookup", {"name": name, "meta": r.random() < 0.5}))
        elif k < 0.82:
            w = r.random()
            a = {"meta": r.random() < 0.5}
            if w < 0.5:
                a["prefix"] = r.choice(PREFIXES)
            elif w < 0.8:
                a["regex"] = r.choice(REGEXES)
            elif w < 0.85:
                a["prefix"], a["regex"] = "te", "te.*"
            h.append(("list", a))
        elif k < 0.95:
            a = {"meta": r.random() < 0.5, "as_list": r.random() < 0.5, "dup": r.random() < 0.4}
            w = r.random()
            if w < 0.45:
                a["all"] = tuple(r.sample(TAGS, r.randrange(1, 3)))
            elif w < 0.9:
                a["any"] = tuple(r.sample(TAGS, r.randrange(1, 3)))
            elif w < 0.95:
                a["all"], a["any"] = ("t",), ("a",)
            else:
                a["all"] = "astring"
            h.append(("yplookup", a))
        else:
            h.append(("count", {}))
    return h


# ---- E9: statement-level failpoints -----------------------------------------------------------------------------------
class FailState:
    def __init__(self):
        self.count = 0
        self.fail_at = None
        self.crash_at = None
        self.fired = False

    def tick(self, what):
        self.count += 1
        if self.fail_at is not None and self.count == self.fail_at:
            self.fired = True
            raise real_sqlite3.OperationalError("injected failure at statement %d (%s)" % (self.count, what))
        if self.crash_at is not None and self.count == self.crash_at:
            os._exit(77)


FS = FailState()


class FailCursor(real_sqlite3.Cursor):
    def execute(self, sql, *a):
        FS.tick(sql[:30])
        return super().execute(sql, *a)


class FailConn(real_sqlite3.Connection):
    def cursor(self, factory=FailCursor):
        return super().cursor(factory)

    def execute(self, sql, *a):
        FS.tick(sql[:30])
        return super().execute(sql, *a)

    def commit(self):
        FS.tick("commit")
        return super().commit()


class ShimSqlite:
    """stands in for the `sqlite3` global of Pyro5.nameserver"""

    def __init__(self):
        for k in dir(real_sqlite3):
            if not k.startswith("__") and k != "connect":
                setattr(self, k, getattr(real_sqlite3, k))

    def connect(self, *a, **k):
        k.setdefault("factory", FailConn)
        return real_sqlite3.connect(*a, **k)


def listing_of(N, dbfile):
    st = N.SqlStorage(dbfile)
    return {n: (u, frozenset(m or ())) for n, (u, m) in st.everything(return_metadata=True).items()}


def run_history(P, N, hist, rec, r, workdir, failpoints, hh):
    URI = P.core.URI
    dbfile = os.path.join(workdir, "ns-%s.sqlite" % hh)
    for f in (dbfile, dbfile + "-journal"):
        if os.path.exists(f):
            os.remove(f)
    model = MapModel()
    mem = N.NameServer(N.MemoryStorage())
    sql = N.NameServer(N.SqlStorage(dbfile))
    pay = {"history": hist, "failpoints": failpoints}
    for step, (op, a) in enumerate(hist):
        before = model.snapshot()
        if failpoints and op in MUTATING:
            # measure the statement count of this operation on a scratch copy, then fail each statement once
            scratch = dbfile + ".scratch"
            shutil.copyfile(dbfile, scratch)
            ns1 = N.NameServer(N.SqlStorage(scratch))
            FS.count, FS.fail_at, FS.fired = 0, None, False
            real_apply(ns1, op, a, URI)
            nstmt = FS.count
            for k in range(1, nstmt + 1):
                shutil.copyfile(dbfile, scratch)
                if os.path.exists(scratch + "-journal"):
                    os.remove(scratch + "-journal")
                ns2 = N.NameServer(N.SqlStorage(scratch))
                FS.count, FS.fail_at, FS.fired = 0, k, False
                res = real_apply(ns2, op, a, URI)
                FS.fail_at = None
                rec.case(("fp", hh, step, k), nontrivial=bool(before))
                rec.count("failpoint_statements")
                if not FS.fired:
                    continue          # an earlier (legitimate) exception ended the operation before statement k
                if not (isinstance(res, tuple) and res and res[0] == "exc"):
                    rec.violation("storage-failure-swallowed", "step %d %s%r: statement %d of %d failed but the operation returned %r" % (step, op, a, k, nstmt, res), dict(pay, step=step, stmt=k))
                    return False
                after = listing_of(N, scratch)
                if after != before:
                    rec.violation("failed-operation-had-effect", "step %d %s%r: statement %d of %d failed (operation raised %s) but the stored map changed: %r -> %r" % (
                        step, op, a, k, nstmt, res[1], short_map(before), short_map(after)), dict(pay, step=step, stmt=k))
                    return False
                # ... not for the name server that made the failed attempt either, and not later: after one more (successful) operation through the
                # same name server the stored map is the earlier map plus that operation's entry
                same = {n: (str(u), frozenset(m or ())) for n, (u, m) in ns2.list(return_metadata=True).items()}
                if same != before:
                    rec.violation("failed-operation-had-effect:visible-to-same-server", "step %d %s%r: statement %d of %d failed (operation raised %s) but the name server that made the attempt now lists %r (before: %r)" % (
                        step, op, a, k, nstmt, res[1], short_map(same), short_map(before)), dict(pay, step=step, stmt=k))
                    return False
                ns2.register("zz.after-the-failure", "PYRO:after@h:1")
                after = listing_of(N, scratch)
                want = dict(before)
                want["zz.after-the-failure"] = ("PYRO:after@h:1", frozenset())
                if after != want:
                    rec.violation("failed-operation-had-effect:after-next-operation", "step %d %s%r: statement %d of %d failed (operation raised %s); after the next successful operation of the same name server the stored map is %r, "
                                  "expected the earlier map plus that one entry %r" % (step, op, a, k, nstmt, res[1], short_map(after), short_map(want)), dict(pay, step=step, stmt=k))
                    return False
                rec.count("failpoints_ok")
            if os.path.exists(scratch):
                os.remove(scratch)
        exp = model.apply(op, a)
        FS.fail_at = None
        got_mem = real_apply(mem, op, a, URI)
        got_sql = real_apply(sql, op, a, URI)
        nontrivial = bool(exp) and exp != 0 and not (isinstance(exp, tuple) and exp and exp[0] == "exc")
        rec.case(("h", hh, step), nontrivial=nontrivial or (op in MUTATING and a.get("name") in before),
                 sample={"op": op, "args": core.jsonable(a), "expected": core.jsonable(exp)} if rec.evaluations % 1500 == 5 else None)
        if op in ("list", "remove") and a.get("prefix") and any(c in a["prefix"] for c in "%_"):
            rec.count("prefix_wildcard_cases")
        if op in ("list", "remove", "lookup") and (a.get("prefix") or a.get("name") or "").lower() in ("te", "test", "test."):
            rec.count("case_pair_cases")
        for label, got in (("memory", got_mem), ("sqlite", got_sql)):
            if got != exp:
                rec.violation("%s-backend-differs-from-map:%s" % (label, classify(op, a)), "step %d %s%r: model %r, %s back-end %r (other back-end: %r); map before: %s" % (
                    step, op, a, exp, label, got, got_sql if label == "memory" else got_mem, short_map(before)), dict(pay, step=step))
                return False
        rec.count("steps_agree")
        if op in MUTATING:
            # read-your-writes for every name this step could have touched: each one is looked up again on both back-ends (a name that was
            # looked up before a bulk removal is the interesting one: nothing remembered from then may answer now)
            touched = sorted(set(before) | set(model.snapshot()) | ({a["name"]} if isinstance(a.get("name"), str) else set()))
            for nm in touched[:14]:
                la = {"name": nm, "meta": True}
                lexp = model.apply("lookup", la)
                for label, ns_ in (("memory", mem), ("sqlite", sql)):
                    lgot = real_apply(ns_, "lookup", la, URI)
                    if lgot != lexp:
                        rec.violation("%s-backend-differs-from-map:lookup-after-%s" % (label, classify(op, a)), "after step %d %s%r a lookup of %r gives %r on the %s back-end, the map says %r; "
                                      "map before the step: %s" % (step, op, a, nm, lgot, label, lexp, short_map(before)), dict(pay, step=step))
                        return False
                rec.count("lookups_after_mutation")
        if r.random() < 0.08 or step == len(hist) - 1:
            after = listing_of(N, dbfile)
            if after != model.snapshot():
                rec.violation("reopened-database-differs", "after step %d the reopened database holds %s, the map is %s" % (step, short_map(after), short_map(model.snapshot())), dict(pay, step=step))
                return False
            sql = N.NameServer(N.SqlStorage(dbfile))
            rec.count("reopens_ok")
    return True


def classify(op, a):
    if op in ("list", "remove") and a.get("prefix"):
        return "prefix"
    if op == "yplookup" and a.get("all") and a.get("dup") and a.get("as_list"):
        return "yplookup-duplicate-tags"
    return op


def short_map(m):
    return core.short(sorted((n, u, sorted(t)) for n, (u, t) in m.items()), 400)


# ---- crash points (thorough) -------------------------------------------------------------------------------------------
CRASH_CHILD = r"""
import sys, os, pickle
sys.path[:0] = [%(repo)r, %(verif)r]
from checks import c14_nsmap as c
from vlib import fixture
P = fixture.pyro()
import Pyro5.nameserver as N
N.sqlite3 = c.ShimSqlite()
op, a, k, dbfile = pickle.load(open(%(spec)r, 'rb'))
c.FS.count, c.FS.crash_at = 0, k
ns = N.NameServer(N.SqlStorage(dbfile))
c.FS.count = 0
c.real_apply(ns, op, a, P.core.URI)
os._exit(0)
"""


def crash_points(P, N, hist, rec, workdir, hh, budget):
    import pickle
    URI = P.core.URI
    dbfile = os.path.join(workdir, "crash-%s.sqlite" % hh)
    if os.path.exists(dbfile):
        os.remove(dbfile)
    model = MapModel()
    sql = N.NameServer(N.SqlStorage(dbfile))
    done = 0
    for step, (op, a) in enumerate(hist):
        before = model.snapshot()
        exp = model.apply(op, a)
        after_model = model.snapshot()
        if op in MUTATING and not (isinstance(exp, tuple) and exp and exp[0] == "exc") and done < budget:
            scratch = dbfile + ".c"
            shutil.copyfile(dbfile, scratch)
            ns1 = N.NameServer(N.SqlStorage(scratch))
            FS.count, FS.fail_at = 0, None
            real_apply(ns1, op, a, URI)
            nstmt = FS.count
            for k in range(1, nstmt + 1):
                shutil.copyfile(dbfile, scratch)
                for ext in ("-journal", "-wal"):
                    if os.path.exists(scratch + ext):
                        os.remove(scratch + ext)
                spec = scratch + ".spec"
                src = CRASH_CHILD % {"repo": core.REPO, "verif": core.VERIF, "spec": spec}
                with open(spec, "wb") as f:
                    pickle.dump((op, a, k, scratch), f)
                p = subprocess.run([sys.executable, "-c", src], timeout=60, capture_output=True)
                done += 1
                rec.case(("crash", hh, step, k))
                if p.returncode not in (77, 0):
                    rec.inconc("crash child failed: rc=%s %s" % (p.returncode, p.stderr[-300:]))
                    continue
                got = listing_of(N, scratch)
                if got != before and got != after_model:
                    rec.violation("crash-leaves-partial-state", "step %d %s%r: crash at statement %d of %d leaves %s (before %s, after %s)" % (
                        step, op, a, k, nstmt, short_map(got), short_map(before), short_map(after_model)), {"history": hist, "step": step, "crash_at": k})
                    return
                rec.count("crash_points_ok")
        real_apply(sql, op, a, URI)


# ---- through a real name server daemon ----------------------------------------------------------------------------------
def daemon_history(P, N, hist, rec, storage, workdir, hh):
    P.config.SERVERTYPE = "thread"
    P.config.POLLTIMEOUT = 0.5
    model = MapModel()
    d = N.NameServerDaemon(host="127.0.0.1", port=0, storage=storage)
    t = threading.Thread(target=d.requestLoop, daemon=True)
    t.start()
    try:
        nsuri = d.uriFor(NSNAME)
        model.d[NSNAME] = (str(nsuri), frozenset(["class:Pyro5.nameserver.NameServer"]))
        with P.client.Proxy(nsuri) as ns:
            for step, (op, a) in enumerate(hist):
                exp = model.apply(op, a)
                got = real_apply(ns, op, a, P.core.URI)
                rec.case(("d", storage[:3], hh, step))
                if got != exp:
                    rec.violation("daemon-differs-from-map:" + classify(op, a), "name server daemon (%s) step %d %s%r: model %r, daemon %r" % (storage[:6], step, op, a, exp, got), {"history": hist, "step": step, "daemon": storage})
                    return
                rec.count("daemon_steps_agree")
    finally:
        d.shutdown()
        t.join(5)


def bulk_case(P, N, rec, r, workdir, n, hh):
    """the map at scale: n registrations under one prefix (a few tagged), removed in bulk by prefix or regex; counts, listings, tag searches and
    the reopened database against a dict"""
    dbfile = os.path.join(workdir, "bulk-%s.sqlite" % hh)
    mem = N.NameServer(N.MemoryStorage())
    sql = N.NameServer(N.SqlStorage(dbfile))
    model = {}
    pay = {"bulk": n}
    rec.case(("bulk", n, hh), nontrivial=True, sample={"bulk_registrations": n})
    for i in range(n):
        name = "Bulk.job.%05d" % i
        meta = {"bulk"} if i % 7 == 0 else None
        for ns_ in (mem, sql):
            ns_.register(name, "PYRO:o%d@h:1" % i, metadata=meta)
        model[name] = ("PYRO:o%d@h:1" % i, frozenset(meta or ()))
    for ns_ in (mem, sql):
        ns_.register("Other.keep", "PYRO:keep@h:2", metadata={"bulk"})
    model["Other.keep"] = ("PYRO:keep@h:2", frozenset({"bulk"}))
    how = r.choice(["prefix", "regex"])
    want_removed = sum(1 for k in model if k.startswith("Bulk.job."))
    for k in [k for k in model if k.startswith("Bulk.job.")]:
        del model[k]
    for label, ns_ in (("memory", mem), ("sqlite", sql)):
        removed = ns_.remove(prefix="Bulk.job.") if how == "prefix" else ns_.remove(regex=r"Bulk\.job\..*")
        left = {k: (u, frozenset(m or ())) for k, (u, m) in ns_.list(return_metadata=True).items()}
        tagged = sorted(ns_.yplookup(meta_any={"bulk"}))
        problems = []
        if removed != want_removed:
            problems.append("remove(%s) of %d registrations reported %r" % (how, want_removed, removed))
        if left != model:
            problems.append("%d entries are left, the map has %d (e.g. %r)" % (len(left), len(model), sorted(set(left) - set(model))[:3]))
        if ns_.count() != len(model):
            problems.append("count() says %d, the map has %d" % (ns_.count(), len(model)))
        if tagged != ["Other.keep"]:
            problems.append("tag search finds %d names (e.g. %r), the map has ['Other.keep']" % (len(tagged), tagged[:3]))
        if problems:
            rec.violation("%s-backend-differs-from-map:bulk-remove" % label, "%d registrations under one prefix, removed by %s on the %s back-end: %s" % (n, how, label, "; ".join(problems)), pay)
            return
    after = listing_of(N, dbfile)
    if after != model:
        rec.violation("reopened-database-differs", "after a bulk removal of %d registrations the reopened database holds %d entries, the map %d" % (n, len(after), len(model)), pay)
        return
    rec.count("bulk_removals_ok")
    rec.count("bulk_registrations", n)


def plan(tier, seed):
    n = 8 if tier == "quick" else 16
    return [{"i": i, "histories": 60 if tier == "quick" else 400, "fp_histories": 10 if tier == "quick" else 60, "daemon_histories": 2 if tier == "quick" else 10,
             "crash": 0 if tier == "quick" else 25} for i in range(n)]


def run_shard(shard, rec):
    P = fixture.pyro()
    import Pyro5.nameserver as N
    N.sqlite3 = ShimSqlite()
    r = gen.rng(rec.seed, "c14", shard["i"])
    workdir = tempfile.mkdtemp(prefix="c14-", dir=os.path.join(core.VERIF, ".work"))
    try:
        for h in range(shard["histories"]):
            if rec.should_stop(12):
                break
            hist = gen_history(r, r.randrange(10, 61))
            run_history(P, N, hist, rec, r, workdir, h < shard["fp_histories"], "%d-%d" % (shard["i"], h))
        for h in range(shard["daemon_histories"]):
            hist = [x for x in gen_history(r, 25)]
            for storage in ("memory", "sql:" + os.path.join(workdir, "d%d.sqlite" % h)):
                daemon_history(P, N, hist, rec, storage, workdir, "%d-%d" % (shard["i"], h))
        if shard["i"] < 2 or rec.tier != "quick":
            bulk_case(P, N, rec, r, workdir, r.choice([1001, 1250]) if shard["i"] % 2 == 0 else r.choice([300, 2100]), "%d" % shard["i"])
        if shard["crash"]:
            crash_points(P, N, gen_history(r, 30), rec, workdir, "%d" % shard["i"], shard["crash"])
    finally:
        shutil.rmtree(workdir, ignore_errors=True)


def replay(payload, rec):
    P = fixture.pyro()
    import Pyro5.nameserver as N
    N.sqlite3 = ShimSqlite()
    workdir = tempfile.mkdtemp(prefix="c14-", dir=os.path.join(core.VERIF, ".work"))
    try:
        if payload.get("bulk"):
            bulk_case(P, N, rec, gen.rng(rec.seed, "replay"), workdir, payload["bulk"], "replay")
        elif payload.get("daemon"):
            daemon_history(P, N, payload["history"], rec, payload["daemon"] if payload["daemon"] == "memory" else "sql:" + os.path.join(workdir, "r.sqlite"), workdir, "replay")
        elif "crash_at" in payload:
            crash_points(P, N, payload["history"], rec, workdir, "replay", 10 ** 6)
        else:
            run_history(P, N, payload["history"], rec, gen.rng(0, "replay"), workdir, payload.get("failpoints", False), "replay")
    finally:
        shutil.rmtree(workdir, ignore_errors=True)
