"""C15 - name server operations are atomic under concurrent clients.

2-3 controlled threads run small sets of operations on shared names against a real NameServer whose lock is the
scheduler's cooperative RLock; every source line of NameServer/MemoryStorage methods is a scheduling point. The history
(call/return stamped by the scheduler's step counter) is checked for linearizability against the map model; internal
errors (KeyError, RuntimeError ...) are violations by themselves."""
import os
import shutil
import tempfile
import time

from vlib import core, gen, fixture, sched, linz

PROPERTY = "C15"
LEVEL = "exploration"
RULE = ("op sets: 2-3 threads x 1-3 operations from {safe/unsafe register, remove by name, remove by prefix, remove by regex, set_metadata, lookup (with and "
        "without metadata), list (all / prefix / with metadata), count} over 1-2 shared names and a pre-registered state; for each op set: every schedule "
        "with at most B preemptions at source-line granularity (B=1 quick, 2 thorough), then PCT and random walks; MemoryStorage with all "
        "NameServer+MemoryStorage lines as scheduling points, SqlStorage with NameServer lines only. distinct = hash of (op set, (thread,line) sequence); "
        "non-trivial = the schedule contains at least one context switch inside an operation")
ASSUMPTIONS = ["granularity is the source line (CPython may also switch between bytecodes of a line)",
               "for SqlStorage each storage call is atomic for the scheduler (a thread is never parked inside an open sqlite transaction)"]
REQUIRED_REACH = ["socket_histories", "schedules_explored", "histories_linearizable", "concurrent_safe_registers", "concurrent_removes", "sql_schedules", "sql_stress_entries_read", "autoclean_histories", "snapshot_histories_daemon", "snapshot_histories_inprocess", "bulk_removal_histories"]
SHARD_TIMEOUT = {"quick": 480, "thorough": 3000}
NSNAME = "Pyro.NameServer"
URIS = ["PYRO:o1@h:1", "PYRO:o2@h:2", "PYRO:o3@h:3"]


class Model:
    """state: tuple of sorted (name, uri, frozenset(meta))"""

    @staticmethod
    def apply(state, op, args):
        d = {n: (u, m) for n, u, m in state}

        def pack(dd):
            return tuple(sorted((n, u, m) for n, (u, m) in dd.items()))
        if op == "reg":
            name, uri, safe, meta = args
            if safe and name in d:
                return state, ("exc", "NamingError")
            d[name] = (uri, frozenset(meta or ()))
            return pack(d), None
        if op == "remove":
            name = args[0]
            if name in d and name != NSNAME:
                del d[name]
                return pack(d), 1
            return state, 0
        if op in ("remove_prefix", "remove_regex"):
            import re
            p = args[0]
            if op == "remove_prefix":
                victims = [n for n in d if n.startswith(p) and n != NSNAME]
            else:
                victims = [n for n in d if re.match(p, n) and n != NSNAME]
            for n in victims:
                del d[n]
            return pack(d), len(victims)
        if op == "setmeta":
            name, meta = args
            if name not in d:
                return state, ("exc", "NamingError")
            d[name] = (d[name][0], frozenset(meta or ()))
            return pack(d), None
        if op == "lookup":
            name = args[0]
            return state, (d[name][0] if name in d else ("exc", "NamingError"))
        if op == "lookupm":
            name = args[0]
            return state, ((d[name][0], d[name][1]) if name in d else ("exc", "NamingError"))
        if op == "list":
            return state, tuple(sorted((n, u) for n, (u, m) in d.items()))
        if op == "listp":
            return state, tuple(sorted((n, u) for n, (u, m) in d.items() if n.startswith(args[0])))
        if op == "listm":
            return state, tuple(sorted((n, u, m) for n, (u, m) in d.items()))
        if op == "listpm":
            return state, tuple(sorted((n, u, m) for n, (u, m) in d.items() if n.startswith(args[0])))
        if op == "listrm":
            import re
            return state, tuple(sorted((n, u, m) for n, (u, m) in d.items() if re.match(args[0], n)))
        if op == "count":
            return state, len(d)
        raise ValueError(op)


def do_op(ns, op, args):
    """runs the real operation; returns the normalised result"""
    try:
        if op == "reg":
            name, uri, safe, meta = args
            return ns.register(name, uri, safe=safe, metadata=set(meta) if meta else None)
        if op == "remove":
            return ns.remove(args[0])
        if op == "remove_prefix":
            return ns.remove(prefix=args[0])
        if op == "remove_regex":
            return ns.remove(regex=args[0])
        if op == "setmeta":
            return ns.set_metadata(args[0], set(args[1]) if args[1] else None)
        if op == "lookup":
            return str(ns.lookup(args[0]))
        if op == "lookupm":
            u, m = ns.lookup(args[0], return_metadata=True)
            return (str(u), frozenset(m))
        if op == "list":
            return tuple(sorted(ns.list().items()))
        if op == "listp":
            return tuple(sorted(ns.list(prefix=args[0]).items()))
        if op == "listm":
            return tuple(sorted((n, u, frozenset(m or ())) for n, (u, m) in ns.list(return_metadata=True).items()))
        if op == "listpm":
            return tuple(sorted((n, u, frozenset(m or ())) for n, (u, m) in ns.list(prefix=args[0], return_metadata=True).items()))
        if op == "listrm":
            return tuple(sorted((n, u, frozenset(m or ())) for n, (u, m) in ns.list(regex=args[0], return_metadata=True).items()))
        if op == "count":
            return ns.count()
    except Exception as x:
        return ("exc", type(x).__name__)
    raise ValueError(op)


def gen_opset(r, nthreads):
    names = ["a.x", "a.y"] if r.random() < 0.5 else ["a.x"]
    initial = tuple(sorted((n, URIS[0], frozenset(["m0"])) for n in names if r.random() < 0.6))
    threads = []
    for t in range(nthreads):
        ops = []
        for _ in range(r.randrange(1, 4) if nthreads == 2 else r.randrange(1, 3)):
            k = r.random()
            name = r.choice(names)
            if k < 0.22:
                ops.append(("reg", (name, r.choice(URIS), True, ())))
            elif k < 0.34:
                ops.append(("reg", (name, r.choice(URIS), False, r.choice([(), ("m1",), ("m1", "m2")]))))
            elif k < 0.54:
                ops.append(("remove", (name,)))
            elif k < 0.62:
                ops.append(("remove_prefix", ("a.",)))
            elif k < 0.66:
                ops.append(("remove_regex", (r"a\..",)))
            elif k < 0.74:
                ops.append(("setmeta", (name, r.choice([(), ("s1",), ("s1", "s2")]))))
            elif k < 0.82:
                ops.append((r.choice(["lookup", "lookupm"]), (name,)))
            elif k < 0.94:
                k2 = r.choice(["list", "listp", "listm", "listpm", "listrm"])
                ops.append((k2, (r"a\..",) if k2 == "listrm" else ("a.",)))
            else:
                ops.append(("count", ()))
        threads.append(ops)
    return {"initial": initial, "threads": threads}


FOCUSED = [
    # concurrent safe registrations of one name: exactly one succeeds
    {"initial": (), "threads": [[("reg", ("a.x", URIS[0], True, ()))], [("reg", ("a.x", URIS[1], True, ()))]]},
    {"initial": (), "threads": [[("reg", ("a.x", URIS[0], True, ()))], [("reg", ("a.x", URIS[1], True, ()))], [("reg", ("a.x", URIS[2], True, ()))]]},
    # concurrent removals of one name: the counts sum to one, no internal error
    {"initial": (("a.x", URIS[0], frozenset()),), "threads": [[("remove", ("a.x",))], [("remove", ("a.x",))]]},
    {"initial": (("a.x", URIS[0], frozenset()),), "threads": [[("remove", ("a.x",))], [("remove", ("a.x",))], [("remove", ("a.x",))]]},
    {"initial": (("a.x", URIS[0], frozenset()), ("a.y", URIS[1], frozenset())), "threads": [[("remove_prefix", ("a.",))], [("remove", ("a.x",))]]},
    {"initial": (("a.x", URIS[0], frozenset()), ("a.y", URIS[1], frozenset())), "threads": [[("remove_prefix", ("a.",))], [("list", ("a.",))]]},
    {"initial": (("a.x", URIS[0], frozenset()), ("a.y", URIS[1], frozenset())), "threads": [[("remove_prefix", ("a.",))], [("remove_regex", (r"a\..",))]]},
    {"initial": (("a.x", URIS[0], frozenset(["m0"])),), "threads": [[("setmeta", ("a.x", ("s1",)))], [("remove", ("a.x",))]]},
    {"initial": (("a.x", URIS[0], frozenset(["m0"])),), "threads": [[("setmeta", ("a.x", ("s1",)))], [("reg", ("a.x", URIS[1], False, ()))]]},
    {"initial": (("a.x", URIS[0], frozenset(["m0"])),), "threads": [[("setmeta", ("a.x", ("s1",)))], [("remove", ("a.x",)), ("reg", ("a.x", URIS[2], True, ()))]]},
    {"initial": (("a.x", URIS[0], frozenset()),), "threads": [[("remove", ("a.x",))], [("reg", ("a.x", URIS[1], True, ()))], [("lookup", ("a.x",))]]},
    {"initial": (("a.x", URIS[0], frozenset()),), "threads": [[("remove", ("a.x",)), ("reg", ("a.x", URIS[1], True, ()))], [("listm", ("a.",)), ("count", ())]]},
    # readers that return several fields must not see a mix of two versions of an entry
    {"initial": (("a.x", URIS[0], frozenset(["m0"])),), "threads": [[("lookupm", ("a.x",))], [("reg", ("a.x", URIS[1], False, ("m1",)))]]},
    {"initial": (("a.x", URIS[0], frozenset(["m0"])),), "threads": [[("lookupm", ("a.x",)), ("lookupm", ("a.x",))], [("reg", ("a.x", URIS[1], False, ("m1",))), ("reg", ("a.x", URIS[2], False, ("m2",)))]]},
    {"initial": (("a.x", URIS[0], frozenset(["m0"])),), "threads": [[("lookupm", ("a.x",))], [("remove", ("a.x",)), ("reg", ("a.x", URIS[1], True, ("m1",)))]]},
    {"initial": (("a.x", URIS[0], frozenset(["m0"])), ("a.y", URIS[0], frozenset(["m0"]))), "threads": [[("listm", ("a.",))], [("reg", ("a.x", URIS[1], False, ("m1",))), ("reg", ("a.y", URIS[1], False, ("m1",)))]]},
    {"initial": (("a.x", URIS[0], frozenset(["m0"])), ("a.y", URIS[0], frozenset(["m0"]))), "threads": [[("count", ()), ("count", ())], [("remove_prefix", ("a.",))], [("reg", ("a.x", URIS[2], True, ()))]]},
    {"initial": (("a.x", URIS[0], frozenset(["m0"])),), "threads": [[("lookupm", ("a.x",))], [("setmeta", ("a.x", ("s1",)))], [("reg", ("a.x", URIS[1], False, ("m1",)))]]},
    {"initial": (("a.x", URIS[0], frozenset(["m0"])), ("a.y", URIS[0], frozenset(["m0"]))), "threads": [[("listpm", ("a.",))], [("reg", ("a.x", URIS[1], False, ("m1",))), ("reg", ("a.y", URIS[1], False, ("m1",)))]]},
    {"initial": (("a.x", URIS[0], frozenset(["m0"])), ("a.y", URIS[0], frozenset(["m0"]))), "threads": [[("listrm", (r"a\..",))], [("setmeta", ("a.x", ("s1",))), ("remove", ("a.y",))]]},
]


def autoclean_stress(P, rec, r, nhist):
    """(d) the name server's own housekeeping thread (NS_AUTOCLEAN) is one more party operating on the map: while it prunes registrations whose
    daemons cannot be reached, clients register, look up, re-tag and remove those very names. No client operation may fail with an internal
    error, and a listing never shows an entry that no write stored (unique versions, as in the sql stress)."""
    import threading
    from vlib import yieldinj
    N = P.nameserver
    dead = "PYRO:o%d@127.0.0.1:1"       # nothing listens on port 1: the cleaner's probe is refused at once
    names = ["a.x", "a.y", "a.z"]
    saved = (N.AutoCleaner.override_autoclean_min, N.AutoCleaner.loop_delay, N.AutoCleaner.max_unreachable_time, P.config.NS_AUTOCLEAN)
    N.AutoCleaner.override_autoclean_min, N.AutoCleaner.loop_delay, N.AutoCleaner.max_unreachable_time = True, 0.002, 0.0
    P.config.NS_AUTOCLEAN = 0.001
    try:
        for h in range(nhist):
            if rec.should_stop(6):
                break
            ns = N.NameServer(N.MemoryStorage())
            cleaner = N.AutoCleaner(ns)
            errs, bad, ops = [], [], [0]
            vcount = [0]
            vlock = threading.Lock()

            def client(sd):
                rr = gen.rng(sd, "ac")
                try:
                    for _ in range(80):
                        n = rr.choice(names)
                        k = rr.randrange(6)
                        with vlock:
                            vcount[0] += 1
                            v = vcount[0]
                            ops[0] += 1
                        try:
                            if k == 0:
                                ns.register(n, dead % v, safe=False, metadata={"v%d" % v})
                            elif k == 1:
                                ns.remove(n)
                            elif k == 2:
                                ns.remove(prefix="a.")
                            elif k == 3:
                                u, m = ns.lookup(n, return_metadata=True)
                                if set(m) != {"v" + str(u).split("@")[0][6:]}:
                                    bad.append("lookup returned %s -> (%s, %r)" % (n, u, sorted(m)))
                            elif k == 4:
                                ns.register(n, dead % v, safe=True, metadata={"v%d" % v})
                            else:
                                for nn, (u, m) in ns.list(prefix="a.", return_metadata=True).items():
                                    if set(m or ()) != {"v" + str(u).split("@")[0][6:]}:
                                        bad.append("list returned %s -> (%s, %r)" % (nn, u, sorted(m or ())))
                        except P.errors.NamingError:
                            pass
                except Exception as x:
                    errs.append("%s: %r" % (type(x).__name__, x))
            yieldinj.enable(("Pyro5/nameserver.py",), 0.2, r.getrandbits(30), max_sleep=0.001)
            try:
                cleaner.start()
                ts = [threading.Thread(target=client, args=(r.getrandbits(30),), daemon=True) for _ in range(3)]
                for t in ts:
                    t.start()
                for t in ts:
                    t.join(60)
            finally:
                cleaner.stop = True
                n_inj, _ = yieldinj.disable()
                cleaner.join(10)
            rec.count("injected_yields", n_inj)
            rec.case(("autoclean", rec.seed, h, ops[0]), nontrivial=True, sample={"autoclean_history_ops": ops[0]} if h == 0 else None)
            if any(t.is_alive() for t in ts) or cleaner.is_alive():
                rec.inconc("autoclean stress history did not complete")
                continue
            if errs:
                rec.violation("internal-error:autoclean", "a client operation failed with an internal error while the housekeeping thread was pruning: %s" % errs[0], None)
                continue
            if bad:
                rec.violation("entry-never-existed:autoclean", bad[0] + ": no write ever stored that uri with that metadata", None)
                continue
            rec.count("autoclean_histories")
    finally:
        N.AutoCleaner.override_autoclean_min, N.AutoCleaner.loop_delay, N.AutoCleaner.max_unreachable_time, P.config.NS_AUTOCLEAN = saved


def snapshot_stress(P, rec, r, nhist, workdir, via_daemon):
    """(e) every listing is a state that existed. ONE writer performs a known sequence of writes w1, w2, ... (set_metadata with the unique version
    k on tracked names at the front, in the middle and at the end of a large registry; register/remove of a toggling name), so the states the name
    server goes through are exactly the prefixes of that sequence. Readers take unfiltered, prefix and regex listings with metadata; a listing must
    equal the state after some prefix k, and k must lie between the number of writes COMPLETED before the listing was asked for and the number of
    writes STARTED when the reader finished looking at it (the reader holds on to the result for a moment before it looks: what it was handed
    must not change any more). Run in-process (memory and sqlite) and through a real name-server daemon (the reply is serialized after list() has
    returned, outside every lock)."""
    import threading
    N = P.nameserver
    tracked = ["aaa.front", "mmm.middle", "zzz.tail"]
    toggler = "mmm.toggle"
    for h in range(nhist):
        if rec.should_stop(6):
            break
        backend = ("memory", "sql")[h % 2]
        nbulk = r.choice([60, 400]) if not via_daemon else (r.choice([1500, 3000]) if backend == "memory" else 300)
        storage = N.MemoryStorage() if backend == "memory" else N.SqlStorage(os.path.join(workdir, "snap-%d-%d.sqlite" % (via_daemon, h)))
        d = t = None
        if via_daemon:
            P.config.SERVERTYPE, P.config.POLLTIMEOUT, P.config.COMMTIMEOUT, P.config.THREADPOOL_SIZE = "thread", 0.5, 0.0, 16
            d = N.NameServerDaemon(host="127.0.0.1", port=0, storage=storage if backend == "memory" else "sql:" + storage.dbfile)
            if backend == "sql":
                storage.close()
            ns_direct = d.nameserver
            t = threading.Thread(target=d.requestLoop, daemon=True)
            t.start()
            nsuri = d.uriFor(NSNAME)

            def handle():
                px = P.client.Proxy(nsuri)
                px._pyroTimeout = 30.0
                return px
        else:
            ns_direct = N.NameServer(storage)

            def handle():
                return ns_direct
        # the registry: tracked names sorted among bulk names (dict / sql order = insertion order)
        ns_direct.register(tracked[0], "PYRO:t@h:1", metadata={"v0"})
        for i in range(nbulk // 2):
            ns_direct.register("bulk.%05d" % i, "PYRO:b%d@h:1" % i, metadata={"bulk", "n%d" % i})
        ns_direct.register(tracked[1], "PYRO:t@h:1", metadata={"v0"})
        for i in range(nbulk // 2, nbulk):
            ns_direct.register("bulk.%05d" % i, "PYRO:b%d@h:1" % i, metadata={"bulk", "n%d" % i})
        ns_direct.register(tracked[2], "PYRO:t@h:1", metadata={"v0"})
        nwrites = 400 if not via_daemon else 4000
        # the write sequence is fixed in advance: write k (1-based) = plan[k-1]
        plan = []
        for k in range(1, nwrites + 1):
            j = k % 5
            plan.append(("meta", tracked[(0, 2, 1)[j]]) if j < 3 else (("reg", toggler) if j == 3 else ("rem", toggler)))
        started, completed = [0], [0]
        errs, bad, nlist = [], [], [0]
        stop = threading.Event()

        # states[k] = the tracked part of the map after write k
        states = [dict({n: 0 for n in tracked})]
        for k in range(1, nwrites + 1):
            st = dict(states[-1])
            kind, n = plan[k - 1]
            if kind == "rem":
                st.pop(n, None)
            else:
                st[n] = k
            states.append(st)

        def writer():
            w = handle()
            try:
                for k in range(1, nwrites + 1):
                    if stop.is_set():
                        break
                    kind, n = plan[k - 1]
                    started[0] = k
                    if kind == "meta":
                        w.set_metadata(n, {"v%d" % k})
                    elif kind == "reg":
                        w.register(n, "PYRO:t@h:1", safe=False, metadata={"v%d" % k})
                    else:
                        w.remove(n)
                    completed[0] = k
            except Exception as x:
                errs.append("writer: %s: %r" % (type(x).__name__, x))
            finally:
                stop.set()
                if via_daemon:
                    w._pyroRelease()

        def reader(sd):
            rr = gen.rng(sd, "snap")
            q = handle()
            try:
                while not stop.is_set() and not bad:
                    how = rr.choice(["all", "all", "regex-all", "regex", "prefix"])
                    c0 = completed[0]
                    scope = tracked + [toggler]
                    if how == "all":
                        res = q.list(return_metadata=True)
                    elif how == "regex-all":
                        res = q.list(regex=".", return_metadata=True)
                    elif how == "regex":
                        res = q.list(regex=r"(aaa|mmm|zzz)\.", return_metadata=True)
                    else:
                        res = q.list(prefix="mmm.", return_metadata=True)
                        scope = [tracked[1], toggler]
                    s1 = min(started[0], nwrites)
                    time.sleep(rr.choice([0, 0.0005, 0.002]))      # the caller holds on to what it was handed before looking at it
                    seen = {}
                    for n in scope:
                        if n in res:
                            m = sorted(res[n][1] or ())
                            seen[n] = int(m[0][1:]) if len(m) == 1 and m[0][:1] == "v" and m[0][1:].isdigit() else repr(m)
                    nlist[0] += 1

                    def matches(k):
                        return {n: v for n, v in states[k].items() if n in scope} == seen
                    if any(matches(k) for k in range(c0, s1 + 1)):
                        continue
                    older = [k for k in range(0, c0) if matches(k)]
                    newer = [k for k in range(s1 + 1, nwrites + 1) if matches(k)]
                    if older:
                        bad.append("stale: a %s listing shows %r, the state after write %d, although %d writes had completed before the listing was asked for" % (how, seen, older[-1], c0))
                    elif newer:
                        bad.append("changed-after-return: a %s listing shows %r, the state after write %d, but only %d writes had started when the listing returned (it had been asked for after write %d)" % (how, seen, newer[0], s1, c0))
                    else:
                        bad.append("torn: a %s listing shows %r: no prefix of the single writer's sequence of writes produces that state (writes completed before the call: %d, started when the result was read: %d)" % (how, seen, c0, s1))
            except Exception as x:
                errs.append("reader: %s: %r" % (type(x).__name__, x))
            finally:
                if via_daemon:
                    q._pyroRelease()
        wt = threading.Thread(target=writer, daemon=True)
        rs = [threading.Thread(target=reader, args=(r.getrandbits(30),), daemon=True) for _ in range(2)]
        t0 = time.time()
        for x in rs + [wt]:
            x.start()
        budget = 1.5 if not via_daemon else 4.0
        while wt.is_alive() and time.time() - t0 < budget and not bad and not errs:
            time.sleep(0.02)
        stop.set()
        wt.join(60)
        for x in rs:
            x.join(60)
        hung = wt.is_alive() or any(x.is_alive() for x in rs)
        if via_daemon:
            d.shutdown()
            t.join(10)
            d.close()
        else:
            ns_direct.storage.close()
        rec.case(("snapshot", via_daemon, backend, rec.seed, h), nontrivial=True, sample={"snapshot_listings": nlist[0], "writes": completed[0], "backend": backend, "via_daemon": via_daemon, "registry_size": nbulk + 3} if h < 2 else None)
        if hung:
            rec.inconc("snapshot stress history did not complete")
            continue
        pay = None
        if errs:
            rec.violation("internal-error:snapshot-stress", "%s back-end%s: an operation failed while one client wrote and two listed: %s" % (backend, " through a daemon" if via_daemon else "", errs[0]), pay)
            continue
        if bad:
            rec.violation("listing-never-existed:" + bad[0].split(":")[0], "%s back-end%s, registry of %d names: %s" % (backend, " through a daemon" if via_daemon else "", nbulk + 3, bad[0]), pay)
            continue
        if nlist[0] == 0 or completed[0] < 6:
            rec.inconc("snapshot stress: too little happened (%d listings, %d writes)" % (nlist[0], completed[0]))
            continue
        rec.count("snapshot_listings_checked", nlist[0])
        rec.count("snapshot_histories_daemon" if via_daemon else "snapshot_histories_inprocess")


def bulk_removal_stress(P, rec, r, nhist, workdir):
    """(f) a removal by prefix or regex is ONE operation however many names it matches: while one client removes a group of a few hundred names,
    a second one removes a member by name (or the whole group again) and a third keeps listing and counting. The removal counts add up to the
    size of the group; every listing / count shows the whole group, the group less the one member, or nothing."""
    import threading
    from vlib import yieldinj
    N = P.nameserver
    for h in range(nhist):
        if rec.should_stop(6):
            break
        backend = ("memory", "sql")[h % 2]
        K = r.choice([101, 130, 230, 257]) if backend == "memory" else r.choice([101, 130])
        storage = N.MemoryStorage() if backend == "memory" else N.SqlStorage(os.path.join(workdir, "bulk-%d.sqlite" % h))
        ns = N.NameServer(storage)
        ns.register("keep.me", "PYRO:k@h:1")
        for i in range(K):
            ns.register("grp.%04d" % i, "PYRO:g%d@h:1" % i, metadata={"g"})
        base = ns.count() - K
        second = r.choice(["name", "name", "prefix", "regex"])
        victim = "grp.%04d" % r.randrange(K // 2, K)
        counts, errs, seen = {}, [], []
        go = threading.Event()
        stop = threading.Event()

        def remover_a():
            go.wait(5)
            try:
                counts["a"] = ns.remove(prefix="grp.") if h % 4 < 2 else ns.remove(regex=r"grp\.\d+")
            except Exception as x:
                errs.append("bulk removal: %s: %r" % (type(x).__name__, x))

        def remover_b():
            go.wait(5)
            time.sleep(r.choice([0, 0.0002, 0.001]))
            try:
                counts["b"] = ns.remove(name=victim) if second == "name" else (ns.remove(prefix="grp.") if second == "prefix" else ns.remove(regex="grp"))
            except Exception as x:
                errs.append("second removal: %s: %r" % (type(x).__name__, x))

        def lister():
            go.wait(5)
            try:
                while not stop.is_set():
                    seen.append(("list", len(ns.list(prefix="grp."))))
                    seen.append(("count", ns.count() - base))
                    seen.append(("list-regex", len(ns.list(regex="grp"))))
            except Exception as x:
                errs.append("listing: %s: %r" % (type(x).__name__, x))
        ts = [threading.Thread(target=f, daemon=True) for f in (remover_a, remover_b, lister)]
        # (every line of NameServer.remove takes a moment: whatever it does outside its lock, others get their turn)
        yieldinj.enable(("Pyro5/nameserver.py",), 0.02, r.getrandbits(30), max_sleep=0.002, delay_funcs=(("Pyro5/nameserver.py", "remove", 0.0004),))
        try:
            for t in ts:
                t.start()
            go.set()
            ts[0].join(60)
            ts[1].join(60)
            time.sleep(0.01)
            stop.set()
            ts[2].join(30)
        finally:
            n_inj, _ = yieldinj.disable()
        rec.count("injected_yields", n_inj)
        left = len(ns.list(prefix="grp."))
        ns.storage.close()
        rec.case(("bulkremove", backend, K, second, rec.seed, h), nontrivial=True, sample={"bulk_removal": backend, "group": K, "second": second, "listings": len(seen)} if h < 2 else None)
        if any(t.is_alive() for t in ts):
            rec.inconc("bulk removal history did not complete")
            continue
        if errs:
            rec.violation("internal-error:bulk-removal", "%s back-end, group of %d names: %s" % (backend, K, errs[0]), None)
            continue
        total = counts.get("a", 0) + counts.get("b", 0)
        if total != K or left:
            rec.violation("concurrent-removals-miscounted:bulk", "%s back-end: a group of %d names was removed by prefix/regex (reported %r) while another client removed %s (reported %r): together they report %d removed entries, %d are left" % (
                backend, K, counts.get("a"), victim if second == "name" else "the group by " + second, counts.get("b"), total, left), None)
            continue
        allowed = {K, 0} | ({K - 1} if second == "name" else set())
        odd = [x for x in seen if x[1] not in allowed]
        if odd:
            rec.violation("listing-never-existed:half-done-bulk-removal", "%s back-end: while a group of %d names was being removed in ONE operation (and %s by another client), a %s showed %d of them: "
                          "no sequential order of the removals has such a state" % (backend, K, "one member by name" if second == "name" else "the group again", odd[0][0], odd[0][1]), None)
            continue
        rec.count("bulk_removal_histories")
        rec.count("bulk_removal_listings", len(seen))


def sql_stress(P, rec, r, nhist, workdir):
    """(c) free-running threads on a NameServer over SqlStorage (no sockets), sleeps injected at the lines of nameserver.py (storage code included: the
    controlled scheduler treats a storage call as atomic). Every written version of an entry is unique (uri number == metadata number), so every entry a
    reader is handed - by lookup, and by every kind of listing - identifies the write it came from: an entry whose uri and metadata belong to
    different writes, or to no write, never existed."""
    import threading
    from vlib import yieldinj
    N = P.nameserver
    names = ["a.x", "a.y", "a.z"]
    for h in range(nhist):
        if rec.should_stop(6):
            break
        dbfile = os.path.join(workdir, "stress-%d.sqlite" % h)
        ns = N.NameServer(N.SqlStorage(dbfile))
        vcount = [0]
        vlock = threading.Lock()

        def version():
            with vlock:
                vcount[0] += 1
                return vcount[0]

        def write(name):
            k = version()
            ns.register(name, "PYRO:o%d@h:1" % k, safe=False, metadata={"v%d" % k})
        for n in names:
            write(n)
        bad, errs, reads = [], [], [0]
        stop = threading.Event()
        seeds = [r.getrandbits(30) for _ in range(6)]

        def writer(sd):
            rr = gen.rng(sd, "w")
            try:
                for _ in range(40):
                    n = rr.choice(names)
                    if rr.random() < 0.2:
                        ns.remove(n)
                    write(n)
            except Exception as x:
                errs.append(repr(x))

        def check_entry(how, n, u, m):
            reads[0] += 1
            m = set(m or ())
            if m != {"v" + str(u).split("@")[0][6:]}:
                bad.append("%s returned %s -> (%s, %r): no write ever stored that uri with that metadata" % (how, n, u, sorted(m)))

        def reader(sd):
            rr = gen.rng(sd, "r")
            try:
                while not stop.is_set() and not bad:
                    k = rr.randrange(4)
                    if k == 0:
                        for n, (u, m) in ns.list(prefix="a.", return_metadata=True).items():
                            check_entry("list(prefix, return_metadata)", n, u, m)
                    elif k == 1:
                        for n, (u, m) in ns.list(regex=r"a\..", return_metadata=True).items():
                            check_entry("list(regex, return_metadata)", n, u, m)
                    elif k == 2:
                        for n, (u, m) in ns.list(return_metadata=True).items():
                            if n != NSNAME:
                                check_entry("list(return_metadata)", n, u, m)
                    else:
                        n = rr.choice(names)
                        try:
                            u, m = ns.lookup(n, return_metadata=True)
                        except P.errors.NamingError:
                            continue
                        check_entry("lookup(return_metadata)", n, u, m)
            except Exception as x:
                errs.append(repr(x))
        yieldinj.enable(("Pyro5/nameserver.py",), 0.25, r.getrandbits(30), max_sleep=0.002)
        try:
            ws = [threading.Thread(target=writer, args=(seeds[i],), daemon=True) for i in range(2)]
            rs = [threading.Thread(target=reader, args=(seeds[2 + i],), daemon=True) for i in range(3)]
            for t in ws + rs:
                t.start()
            for t in ws:
                t.join(60)
            stop.set()
            for t in rs:
                t.join(30)
        finally:
            n_inj, _ = yieldinj.disable()
        rec.count("injected_yields", n_inj)
        hung = any(t.is_alive() for t in ws + rs)
        ns.storage.close()
        rec.case(("sqlstress", rec.seed, h, reads[0]), nontrivial=True, sample={"sql_stress_entries_read": reads[0], "versions_written": vcount[0]} if h % 5 == 0 else None)
        if hung:
            rec.inconc("sql stress history did not complete")
            continue
        if errs:
            rec.violation("internal-error:sql-stress", "operation failed under concurrency on SqlStorage: %s" % errs[0], None)
            continue
        if bad:
            rec.violation("entry-never-existed:" + bad[0].split(" returned")[0].split("(")[0], bad[0], None)
            continue
        rec.count("sql_stress_entries_read", reads[0])
        rec.count("sql_stress_histories")


def controlled_run(P, opset, backend, choices, strategy, workdir):
    N = P.nameserver
    sc = sched.Scheduler(choices=choices, strategy=strategy, max_steps=5000)
    saved = N.threading
    N.threading = sc.shim_threading()
    dbfile = None
    try:
        if backend == "memory":
            ns = N.NameServer(N.MemoryStorage())
            codes = sched.code_objects_of(N.NameServer, N.MemoryStorage)
        else:
            fd, dbfile = tempfile.mkstemp(prefix="c15-", suffix=".sqlite", dir=workdir)
            os.close(fd)
            os.remove(dbfile)
            ns = N.NameServer(N.SqlStorage(dbfile))
            codes = sched.code_objects_of(N.NameServer)
    finally:
        N.threading = saved
    for n, u, m in opset["initial"]:
        ns.register(n, u, metadata=set(m) if m else None)
    history = []

    def body(ti):
        def run():
            for oi, (op, args) in enumerate(opset["threads"][ti]):
                h = {"id": (ti, oi), "op": op, "args": args, "call": len(sc.res.trace), "ret": None, "result": None}
                history.append(h)
                res = do_op(ns, op, args)
                h["result"] = res
                h["ret"] = len(sc.res.trace)
        return run
    res = sc.run([body(i) for i in range(len(opset["threads"]))], codes, watchdog=30.0)
    final = None
    if not (res.deadlock or res.timeout):
        final = do_op(ns, "listm", ("",))
    if dbfile and os.path.exists(dbfile):
        os.remove(dbfile)
    return sc, res, history, final


def judge(opset, backend, res, history, final, rec, pay):
    if res.timeout or res.steps_exceeded or res.errors:
        rec.inconc("controlled execution did not complete: timeout=%s steps=%s errors=%r" % (res.timeout, res.steps_exceeded, res.errors[:1]))
        return
    if res.deadlock:
        rec.violation("nameserver-deadlock", "all threads blocked: %r; ops=%r" % (res.blocked, opset["threads"]), pay)
        return
    for h in history:
        r = h["result"]
        if isinstance(r, tuple) and len(r) == 2 and r[0] == "exc" and r[1] != "NamingError":
            rec.violation("internal-error:" + mech_of(h["op"]), "%s%r failed with an internal %s under concurrency; ops=%r initial=%r" % (
                h["op"], h["args"], r[1], opset["threads"], opset["initial"]), pay)
            return
    ops = [dict(h) for h in history]
    last = max([h["ret"] for h in history if h["ret"] is not None] + [0])
    ops.append({"id": "final", "op": "listm", "args": ("",), "call": last + 1, "ret": last + 2, "result": final})
    ok, order = linz.check(ops, Model, opset["initial"], timeout=5.0)
    if ok is None:
        rec.inconc("linearizability checker timed out")
        return
    if not ok:
        involved = sorted({mech_of(h["op"]) for h in history})
        rec.violation("not-linearizable:" + "+".join(involved), "no sequential order of the completed operations explains: %s ; final listing %r ; initial %r" % (
            [(h["id"], h["op"], h["args"], h["call"], h["ret"], h["result"]) for h in history], final, opset["initial"]), pay)
        return
    rec.count("histories_linearizable")
    regs = [h for h in history if h["op"] == "reg" and h["args"][2]]
    if len(regs) >= 2 and len({h["args"][0] for h in regs}) == 1 and len({h["id"][0] for h in regs}) >= 2:
        rec.count("concurrent_safe_registers")
    rems = [h for h in history if h["op"] == "remove"]
    if len(rems) >= 2 and len({h["id"][0] for h in rems}) >= 2:
        rec.count("concurrent_removes")


def mech_of(op):
    return {"reg": "register", "remove": "remove", "remove_prefix": "remove-prefix", "remove_regex": "remove-regex", "setmeta": "set_metadata",
            "lookup": "lookup", "lookupm": "lookup", "list": "list", "listp": "list", "listm": "list", "listpm": "list", "listrm": "list", "count": "count"}[op]


def explore(P, opset, backend, bound, nrandom, npct, max_runs, rec, r, workdir):
    seen = set()
    key = repr(opset)

    def one(choices, strategy):
        sc, res, history, final = controlled_run(P, opset, backend, choices, strategy, workdir)
        h = core.h64(repr(res.trace))
        pay = {"opset": opset, "backend": backend, "choices": res.choices_made}
        rec.case(("s", backend, core.h64(key), h), nontrivial=len(res.points) > 0,
                 sample={"backend": backend, "initial": [list(map(str, x)) for x in opset["initial"]], "threads": opset["threads"], "choices": res.choices_made[:20]} if rec.evaluations % 900 == 5 else None)
        if h not in seen:
            seen.add(h)
            rec.count("schedules_explored")
            if backend == "sql":
                rec.count("sql_schedules")
        rec.count("scheduling_points", len(res.trace))
        judge(opset, backend, res, history, final, rec, pay)
        return res
    sched.dfs(one, bound, max_runs=max_runs, stop=lambda: rec.should_stop(8))
    for _ in range(npct):
        if rec.should_stop(8):
            return
        one(None, ("pct", r.getrandbits(32), 3, 60))
    for _ in range(nrandom):
        if rec.should_stop(8):
            return
        one(None, ("random", r.getrandbits(32)))


def socket_stress(P, rec, r, nhist, inject):
    """(b) free-running: real name-server daemon (thread pool), 4-8 client threads with a proxy each, few names, yield injection
    in nameserver.py; every history (<= 24 operations) is checked offline for linearizability"""
    import itertools
    import threading
    from vlib import yieldinj
    N = P.nameserver
    P.config.SERVERTYPE = "thread"
    P.config.POLLTIMEOUT = 0.5
    P.config.COMMTIMEOUT = 0.0
    P.config.THREADPOOL_SIZE = 40
    d = N.NameServerDaemon(host="127.0.0.1", port=0)
    t = threading.Thread(target=d.requestLoop, daemon=True)
    t.start()
    nsuri = d.uriFor(NSNAME)
    clock = itertools.count(1)
    clock_lock = threading.Lock()

    def now():
        with clock_lock:
            return next(clock)
    if inject:
        yieldinj.enable(("Pyro5/nameserver.py",), 0.15, r.getrandbits(30), max_sleep=0.002)
    try:
        for h in range(nhist):
            if rec.should_stop(6):
                break
            with P.client.Proxy(nsuri) as ns0:
                ns0.remove(prefix="a.")
                initial = []
                if r.random() < 0.6:
                    ns0.register("a.x", URIS[0], metadata={"m0"})
                    initial.append(("a.x", URIS[0], frozenset(["m0"])))
                if r.random() < 0.4:
                    ns0.register("a.y", URIS[0], metadata={"m0"})
                    initial.append(("a.y", URIS[0], frozenset(["m0"])))
            nthreads = r.randrange(4, 9)
            opset = gen_opset(r, nthreads)
            opset["threads"] = [ops[:3] for ops in opset["threads"]]
            opset["initial"] = tuple(sorted(initial))
            history = []
            hlock = threading.Lock()
            barrier = threading.Barrier(nthreads)
            errs = []

            def client(ti):
                try:
                    with P.client.Proxy(nsuri) as ns:
                        ns._pyroBind()
                        barrier.wait(10)
                        for oi, (op, args) in enumerate(opset["threads"][ti]):
                            hh = {"id": (ti, oi), "op": op, "args": args, "call": now(), "ret": None, "result": None}
                            with hlock:
                                history.append(hh)
                            res = do_op(ns, op, args)
                            if op in ("list", "listp", "listm", "listpm", "listrm"):
                                # only the shared names (the daemon's own entry is part of every listing)
                                res = tuple(x for x in res if x[0] != NSNAME) if isinstance(res, tuple) and (not res or isinstance(res[0], tuple)) else res
                            if op == "count" and isinstance(res, int):
                                res -= 1
                            hh["result"] = res
                            hh["ret"] = now()
                except Exception as x:
                    errs.append(x)
            ts = [threading.Thread(target=client, args=(i,), daemon=True) for i in range(nthreads)]
            for th in ts:
                th.start()
            for th in ts:
                th.join(60)
            if errs or any(th.is_alive() for th in ts):
                rec.inconc("socket-level history did not complete: %r" % (errs[:1],))
                continue
            with P.client.Proxy(nsuri) as ns0:
                final = tuple(x for x in do_op(ns0, "listm", ("",)) if x[0] != NSNAME)
            pay = {"opset": opset, "backend": "daemon", "choices": None, "history": [(hh["id"], hh["op"], hh["args"], hh["call"], hh["ret"], hh["result"]) for hh in history]}
            rec.case(("sock", core.h64(repr(pay["history"]))), nontrivial=True,
                     sample={"socket_history": [(str(hh["id"]), hh["op"], hh["call"], hh["ret"]) for hh in history[:8]], "threads": nthreads} if rec.evaluations % 40 == 1 else None)
            rec.count("socket_histories")

            class R:
                timeout = steps_exceeded = deadlock = False
                errors = []
                blocked = []
            judge(opset, "daemon", R, history, final, rec, pay)
    finally:
        if inject:
            n, lines = yieldinj.disable()
            rec.count("injected_yields", n)
        d.shutdown()
        t.join(5)


def plan(tier, seed):
    shards = []
    n = 12 if tier == "quick" else 32
    for i in range(2 if tier == "quick" else 8):
        shards.append({"i": 200 + i, "backend": "daemon", "histories": 25 if tier == "quick" else 300, "inject": i % 2 == 0})
    for i in range(1 if tier == "quick" else 4):
        shards.append({"i": 300 + i, "backend": "sqlstress", "histories": 6 if tier == "quick" else 80})
    for i in range(1 if tier == "quick" else 6):
        shards.append({"i": 400 + i, "backend": "snapshot", "histories": 6 if tier == "quick" else 40})
    for i in range(n):
        shards.append({"i": i, "nshards": n, "backend": "memory", "opsets": 5 if tier == "quick" else 40, "bound": 1 if tier == "quick" else 2,
                       "max_runs": 120 if tier == "quick" else 3000, "nrandom": 15 if tier == "quick" else 300, "npct": 10 if tier == "quick" else 150})
    for i in range(4 if tier == "quick" else 12):
        shards.append({"i": 100 + i, "nshards": 4 if tier == "quick" else 12, "backend": "sql", "opsets": 2 if tier == "quick" else 16, "bound": 1, "max_runs": 40 if tier == "quick" else 500,
                       "nrandom": 6 if tier == "quick" else 80, "npct": 4 if tier == "quick" else 40})
    return shards


def run_shard(shard, rec):
    P = fixture.pyro()
    import Pyro5.nameserver
    P.nameserver = Pyro5.nameserver
    r = gen.rng(rec.seed, "c15", shard["i"])
    if shard["backend"] == "daemon":
        socket_stress(P, rec, r, shard["histories"], shard["inject"])
        return
    workdir = tempfile.mkdtemp(prefix="c15-", dir=os.path.join(core.VERIF, ".work"))
    try:
        if shard["backend"] == "sqlstress":
            sql_stress(P, rec, r, shard["histories"], workdir)
            autoclean_stress(P, rec, r, max(3, shard["histories"] // 2))
            return
        if shard["backend"] == "snapshot":
            snapshot_stress(P, rec, r, shard["histories"], workdir, False)
            snapshot_stress(P, rec, r, max(2, shard["histories"] // 3), workdir, True)
            bulk_removal_stress(P, rec, r, shard["histories"], workdir)
            return
        if shard["backend"] == "memory":
            rec.count("sql_schedules")
        # every focused op set is explored in every run (dealt round-robin over the shards of a back-end), then random ones
        nsh = shard.get("nshards", 12)
        opsets = [f for j, f in enumerate(FOCUSED) if j % nsh == shard["i"] % nsh]
        for k in range(shard["opsets"]):
            opsets.append(gen_opset(r, r.choice([2, 2, 3])))
        for opset in opsets:
            if rec.should_stop(8):
                break
            explore(P, opset, shard["backend"], shard["bound"], shard["nrandom"], shard["npct"], shard["max_runs"], rec, r, workdir)
    finally:
        shutil.rmtree(workdir, ignore_errors=True)


def replay(payload, rec):
    P = fixture.pyro()
    import Pyro5.nameserver
    P.nameserver = Pyro5.nameserver
    workdir = tempfile.mkdtemp(prefix="c15-", dir=os.path.join(core.VERIF, ".work"))
    try:
        sc, res, history, final = controlled_run(P, payload["opset"], payload["backend"], payload["choices"], None, workdir)
        rec.case(("replay", repr(payload)[:100]))
        print("ops:", payload["opset"])
        print("history:", [(h["id"], h["op"], h["args"], h["call"], h["ret"], h["result"]) for h in history], "final:", final)
        judge(payload["opset"], payload["backend"], res, history, final, rec, payload)
    finally:
        shutil.rmtree(workdir, ignore_errors=True)
