"""C08 - nothing is invoked on a connection before an accepted handshake.

Raw first messages of every type (valid and malformed, any serializer id, any handshake payload shape), with 1-3 valid
INVOKEs pipelined in the same write and again after the reply; validators that accept, return unserialisable values or
raise any exception type. Monitors: execution log of the registered objects (including the DaemonObject subclass passed
as interface=), first reply parsed by the reference codec, EOF probe."""
import socket
import time
import threading

from vlib import core, gen, fixture, wire

PROPERTY = "C08"
LEVEL = "exploration"
RULE = ("cases = (first message: CONNECT with a handshake payload shape x validator directive x object id | another message type 0..7,255 | "
        "malformed header | unknown serializer id | undecodable payload) x (0-3 INVOKEs pipelined in the same write, to a marker method and "
        "to Pyro.Daemon) x (0-2 INVOKEs after the reply) x handshake serializer x server type. distinct = the case tuple; non-trivial = "
        "at least one INVOKE follows the first message")
ASSUMPTIONS = ["for an unknown serializer id or an exception whose __str__ raises the statement promises no reason: only 'nothing ran' and 'closed' are required",
               "pre-connected socket pairs are exempt and not exercised", "'is closed' = EOF/RST observed within a 10 s watchdog"]
REQUIRED_REACH = ["installed_validators_ok", "late_refusals_ok", "late_acceptances_ok", "sibling_refusals_ok", "baseexception_validators_ok", "collected_weak_ids_refused", "reused_tickets_refused", "refused_ok", "accepted_ok", "pipelined_invokes_sent", "validator_raised", "wrong_first_type", "unknown_object", "malformed_first"]
SHARD_TIMEOUT = {"quick": 480, "thorough": 2800}


class WeirdStr(Exception):
    def __str__(self):
        raise RuntimeError("__str__ fails")


class EmptyMsg(Exception):
    def __str__(self):
        return ""


RAISERS = {
    "ValueError:bad token": lambda: ValueError("bad token"), "PermissionError:": lambda: PermissionError(), "AssertionError:": lambda: AssertionError(),
    "KeyError:k": lambda: KeyError("k"), "SecurityError:": None, "SecurityError:denied": None, "CommunicationError:x": None, "ConnectionClosedError:gone": None,
    "TimeoutError:slow": None, "EmptyMsg:": lambda: EmptyMsg(), "WeirdStr:": lambda: WeirdStr(), "OSError:5": lambda: OSError(5, "io"), "Exception:0": lambda: Exception(0),
    "StopIteration:": lambda: StopIteration(), "ZeroDivisionError:": lambda: ZeroDivisionError(), "UnicodeError:ü": lambda: UnicodeError("ü\x00"),
    "SystemError:": lambda: SystemError(), "RecursionError:deep": lambda: RecursionError("deep"), "MemoryError:": lambda: MemoryError(),
}


def _incompressible_text(n):
    import base64
    import hashlib
    out, h = [], b"c08"
    while sum(len(x) for x in out) < n:
        h = hashlib.sha256(h).digest()
        out.append(base64.b64encode(h).decode())
    return "".join(out)[:n]


BIG_ANSWER = _incompressible_text(4000)     # (too large for the small MAX_MESSAGE_SIZE of those cases also when the daemon compresses its replies)


def make_env(P, servertype, variant=None):
    log = fixture.EventLog()

    class LoggingDaemonObject(P.server.DaemonObject):
        def get_metadata(self, objectId):
            log.add("get_metadata", objectId if isinstance(objectId, (str, int, type(None))) else repr(objectId))
            return super().get_metadata(objectId)

        def registered(self):
            log.add("exec", "Pyro.Daemon.registered")
            return super().registered()

        def ping(self):
            log.add("exec", "Pyro.Daemon.ping")

        def info(self):
            log.add("exec", "Pyro.Daemon.info")
            return "info"
    P.server.expose(LoggingDaemonObject)

    @P.server.expose
    class Marker(object):
        def mark(self, token):
            log.add("exec", "mark", token)
            return "marked:" + str(token)

    fx = fixture.Fixture(servertype=servertype, interface=LoggingDaemonObject, COMMTIMEOUT=0.0, variant=variant)
    fx.register(Marker(), "marker")

    used_tickets = set()
    fx.used_tickets = used_tickets

    def validator(conn, data):
        d = data if isinstance(data, dict) else {}
        log.add("validator", d.get("token"))
        mode = d.get("mode", "accept")
        if mode == "accept":
            return "welcome"
        if mode == "accept-data":
            return {"k": [1, 2, "é"]}
        if mode == "accept-unserialisable":
            return threading.Lock()
        if mode == "accept-big":
            return BIG_ANSWER
        if mode.startswith("ticket:"):
            # a validator whose decision depends on history, not only on the handshake bytes: one-time tickets
            if mode in used_tickets:
                raise PermissionError("ticket already used: " + mode)
            used_tickets.add(mode)
            return "ticket accepted"
        if mode.startswith("raise:"):
            key = mode[6:]
            mk = RAISERS.get(key)
            if mk is None:
                clsname, _, msg = key.partition(":")
                raise getattr(P.errors, clsname)(*([msg] if msg else []))
            raise mk()
        return "welcome"
    fx.daemon.hs_validator = validator

    # a second daemon of the very same Daemon subclass in this process, whose validator refuses everybody: each daemon decides for itself
    @P.server.expose
    class SiblingMarker(object):
        def mark(self, token):
            log.add("exec", "sibling-mark", token)
            return "sibling marked"

    def sibling_validator(conn, data):
        log.add("sibling-validator", repr(data)[:60])
        raise PermissionError("the sibling daemon admits nobody")
    fx.sibling = fixture.Fixture(servertype=servertype, daemon_cls=type(fx.daemon), COMMTIMEOUT=0.0)
    fx.sibling.register(SiblingMarker(), "marker")
    fx.sibling.daemon.hs_validator = sibling_validator
    return fx, log


def sibling_probe(fx, log, rec, r, n):
    """the main daemon has admitted connections by now; its sibling (same class, other validator) must still refuse, and run nothing"""
    P = fx.P
    ser = P.serializers.serializers[r.choice(fixture.SERIALIZERS)]
    pay = {"sibling_probe": True, "servertype": fx.servertype}
    rec.case(("sibling", n, fx.servertype), nontrivial=True)
    before = len(log.of("exec"))
    try:
        c = wire.RawClient(fx.sibling.location, timeout=5.0)
        c.send(wire.encode(wire.CONNECT, 0, 0, ser.serializer_id, ser.dumps({"handshake": {"mode": "accept", "token": "sib%d" % n}, "object": "marker"}))
               + invoke_bytes(P, ser, "marker", "mark", ("sib%d" % n,), 1))
        try:
            m = c.recv_msg()
        except (EOFError, OSError):
            m = None
        time.sleep(0.05)
        c.close()
    except OSError as x:
        rec.inconc("sibling probe could not connect: %r" % (x,))
        return
    ran = [e for e in log.of("exec")[before:] if e[2] == "sibling-mark"]
    if (m is not None and m.type == wire.CONNECTOK) or ran:
        rec.violation("handshake-accepted-wrongly:sibling-daemon", "a daemon whose own validator refuses everybody answered %s and ran %r: another daemon's validator decided" % (
            describe_reply(P, m) if m is not None else "nothing", ran), pay)
        return
    if not log.of("sibling-validator"):
        rec.violation("validator-not-consulted:sibling-daemon", "the sibling daemon refused without consulting its own validator (reply %s)" % (describe_reply(P, m) if m is not None else "none"), pay)
        return
    rec.count("sibling_refusals_ok")


def invoke_bytes(P, ser, objid, method, args, seq):
    data = ser.dumpsCall(objid, method, args, {})
    return wire.encode(wire.INVOKE, 0, seq, ser.serializer_id, data)


def gen_case(r, n):
    token = "t%d" % n
    c = {"token": token, "ser": r.choice(fixture.SERIALIZERS), "pipelined": r.choice([0, 1, 1, 2, 3]), "after": r.choice([0, 1, 2]),
         "targets": [r.choice(["mark", "mark", "registered", "info", "get_metadata"]) for _ in range(5)]}
    k = r.random()
    if k < 0.16:
        c["first"] = "connect"
        c["mode"] = r.choice(["accept", "accept", "accept-data"])
        c["objid"] = r.choice(["marker", "Pyro.Daemon"])
    elif k < 0.2:
        c["first"] = "connect"
        c["mode"] = "accept-unserialisable"
        c["objid"] = "marker"
    elif k < 0.22:
        # the validator accepts, but the answer cannot be sent: it is larger than the configured MAX_MESSAGE_SIZE (the peer's messages all fit)
        c["first"] = "connect"
        c["mode"] = "accept-big"
        c["objid"] = "marker"
        c["maxsize"] = r.choice([1500, 2500])
    elif k < 0.3:
        c["first"] = "connect"
        c["mode"] = "ticket:%d" % r.randrange(12)
        c["objid"] = "marker"
        c["token"] = "tkt"          # the handshake payload is byte-identical whenever the same ticket is presented again
    elif k < 0.45:
        c["first"] = "connect"
        c["mode"] = "raise:" + r.choice(sorted(RAISERS))
        c["objid"] = r.choice(["marker", "marker", "nosuch", "Pyro.Daemon"])
    elif k < 0.58:
        c["first"] = "connect"
        c["mode"] = "accept"
        c["objid"] = r.choice(["nosuch", "", "Marker", "marker ", 5, None, ["marker"], {"a": 1}, 1.5, True])
    elif k < 0.68:
        c["first"] = "connect-shape"
        c["shape"] = r.choice(["list", "str", "none", "no-handshake-key", "no-object-key", "empty-dict", "int", "nested-class-dict"])
    elif k < 0.84:
        c["first"] = "type"
        c["msgtype"] = r.choice([0, 2, 2, 3, 4, 4, 4, 5, 6, 6, 7, 255])
        c["tflags"] = r.choice([0, 0, 0, wire.F_ONEWAY, wire.F_ONEWAY, wire.F_BATCH, wire.F_EXC, wire.F_ONEWAY | wire.F_BATCH, wire.F_KEEPSER, 0x8000])
        c["empty"] = r.random() < 0.3
    elif k < 0.92:
        c["first"] = "malformed"
        c["how"] = r.choice(["magic", "version", "tag", "truncated-header", "truncated-body", "oversize", "garbage", "annlen", "datalen-short", "empty"])
    else:
        c["first"] = "serializer"
        c["how"] = r.choice(["id0", "id5", "id42", "id255", "undecodable", "wrong-ser-for-payload", "compressed-flag-on-raw"])
    if c["first"] == "connect" and r.random() < 0.5:
        # entries beside "handshake" and "object": the statement gives them no meaning, so whatever they say, an unknown object or a
        # refusing validator must still end in a connect-failure with nothing run (option-like names a future client might send)
        c["extra"] = {r.choice(EXTRA_KEYS): r.choice([False, None, 0, True, "", [], 1, "no"]) for _ in range(r.randrange(1, 4))}
    return c


EXTRA_KEYS = ["meta", "metadata", "known", "reconnect", "resume", "session", "validate", "skip", "trusted", "auth", "force", "ping", "stream",
              "oneway", "flags", "serializer", "handshake_done", "connected", "id", "objectid", "Object", "name", "uri", "weak", "check"]


def first_bytes(P, c, r):
    ser = P.serializers.serializers[c["ser"]]
    hs = {"mode": c.get("mode", "accept"), "token": c["token"]}
    good = ser.dumps({"handshake": hs, "object": "marker"})
    f = c["first"]
    if f == "connect":
        objid = c["objid"]
        extra = c.get("extra") or {}
        try:
            data = ser.dumps(dict(extra, handshake=hs, object=objid))
        except Exception:
            data = ser.dumps(dict(extra, handshake=hs, object="nosuch"))
            c["objid"] = "nosuch"
        return wire.encode(wire.CONNECT, 0, 0, ser.serializer_id, data)
    if f == "connect-shape":
        shape = {"list": [hs, "marker"], "str": "marker", "none": None, "no-handshake-key": {"object": "marker"}, "no-object-key": {"handshake": hs},
                 "empty-dict": {}, "int": 5, "nested-class-dict": {"handshake": hs, "object": {"__class__": "Pyro5.core.URI", "state": ["PYRO", "marker", None, "h", 1]}}}[c["shape"]]
        return wire.encode(wire.CONNECT, 0, 0, ser.serializer_id, ser.dumps(shape))
    if f == "type":
        t = c["msgtype"]
        if t in (4, 6):
            payload = ser.dumpsCall("marker", "mark", (c["token"] + "-first",), {}) if t == 4 else b"ping"
        else:
            payload = good
        if c.get("empty"):
            payload = b""
        return wire.encode(t, c.get("tflags", 0), 0, ser.serializer_id, payload)
    if f == "malformed":
        base = wire.encode(wire.CONNECT, 0, 0, ser.serializer_id, good)
        how = c["how"]
        if how == "magic":
            return base[:38] + b"\x4d\xc6" + base[40:]
        if how == "version":
            return base[:4] + b"\x01\xf5" + base[6:]
        if how == "tag":
            return b"PYRX" + base[4:]
        if how == "truncated-header":
            return base[:r.randrange(1, 40)]
        if how == "truncated-body":
            return base[:r.randrange(40, len(base))]
        if how == "oversize":
            return wire.encode(wire.CONNECT, 0, 0, ser.serializer_id, good, data_len=0xFFFFFFFF)
        if how == "garbage":
            return bytes(r.randrange(256) for _ in range(r.randrange(1, 120)))
        if how == "annlen":
            return wire.encode(wire.CONNECT, 0, 0, ser.serializer_id, good, ann_len=3, data_len=len(good) - 3)
        if how == "datalen-short":
            return wire.encode(wire.CONNECT, 0, 0, ser.serializer_id, good, data_len=len(good) - 1)
        return b""
    how = c["how"]
    if how.startswith("id"):
        return wire.encode(wire.CONNECT, 0, 0, int(how[2:]), good)
    if how == "undecodable":
        return wire.encode(wire.CONNECT, 0, 0, ser.serializer_id, b"\xff\xfe\x00garbage{{{")
    if how == "wrong-ser-for-payload":
        other = P.serializers.serializers[[s for s in fixture.SERIALIZERS if s != c["ser"]][0]]
        return wire.encode(wire.CONNECT, 0, 0, other.serializer_id, good)
    return wire.encode(wire.CONNECT, wire.F_COMPRESSED, 0, ser.serializer_id, good)


def expect_accept(c):
    if c["first"] == "connect" and c.get("mode", "").startswith("ticket:"):
        return c.get("ticket_fresh", False)
    return c["first"] == "connect" and c.get("mode") in ("accept", "accept-data") and c.get("objid") in ("marker", "Pyro.Daemon")


def may_accept(c):
    # a json-encoded handshake is also a valid python literal / may parse under another serializer: then it simply is a valid handshake
    return c["first"] == "serializer" and c.get("how") == "wrong-ser-for-payload"


def run_case(fx, log, c, rec, r):
    P = fx.P
    ser = P.serializers.serializers[c["ser"]]
    log.clear()
    if c.get("mode", "").startswith("ticket:"):
        c = dict(c, ticket_fresh=c["mode"] not in fx.used_tickets)
    nontrivial = (c["pipelined"] + c["after"]) > 0
    rec.case(tuple(sorted((k, repr(v)) for k, v in c.items() if k != "token")) + (fx.servertype,), nontrivial=nontrivial,
             sample=dict(c, servertype=fx.servertype) if rec.evaluations % 250 == 3 else None)
    pay = dict(c, servertype=fx.servertype)
    if c["first"] == "malformed" and c["how"] in ("truncated-header", "truncated-body", "empty"):
        c = dict(c, pipelined=0, after=0)      # bytes that follow a cut-short message would simply complete it; the peer half-closes instead
    buf = first_bytes(P, c, r)
    seq = 1
    sent_marks = []
    for i in range(c["pipelined"]):
        tgt = c["targets"][i]
        if tgt == "mark":
            buf += invoke_bytes(P, ser, "marker", "mark", (c["token"] + "-p%d" % i,), seq)
            sent_marks.append(("mark", c["token"] + "-p%d" % i))
        elif tgt == "get_metadata":
            buf += invoke_bytes(P, ser, "Pyro.Daemon", "get_metadata", ("marker",), seq)
            sent_marks.append(("get_metadata",))
        else:
            buf += invoke_bytes(P, ser, "Pyro.Daemon", tgt, (), seq)
            sent_marks.append(("Pyro.Daemon." + tgt,))
        seq += 1
        rec.count("pipelined_invokes_sent")
    try:
        # a first message that is shorter than a header leaves the server waiting for more bytes (legitimately): don't wait long for a reply
        cl = wire.RawClient(fx.location, timeout=10.0 if len(buf) >= 40 else 1.0)
    except OSError as x:
        rec.inconc("cannot connect: %r" % (x,))
        return
    first = None
    saved_max = P.config.MAX_MESSAGE_SIZE
    if c.get("maxsize"):
        P.config.MAX_MESSAGE_SIZE = c["maxsize"]
        rec.count("cases_with_small_max_message_size")
    try:
        try:
            if buf:
                cl.send(buf)
            if c["first"] == "malformed" and c["how"] in ("truncated-header", "truncated-body", "empty"):
                cl.sock.shutdown(socket.SHUT_WR)
            first = cl.recv_msg()
        except EOFError:
            first = "EOF"
        except (ConnectionResetError, BrokenPipeError):
            first = "EOF"
        except socket.timeout:
            first = "TIMEOUT"
        except wire.WireError as x:
            rec.violation("malformed-reply", "first reply is not a well-formed message: %s" % x, pay)
            return
        if first == "TIMEOUT":
            # the server still waits for the rest of the first message: anything sent now would simply complete it.
            # The peer gives up instead (half-close); the connection must then be closed without anything having run.
            c = dict(c, after=0)
            try:
                cl.sock.shutdown(socket.SHUT_WR)
            except OSError:
                pass
        cl.sock.settimeout(10.0)
        accepted = isinstance(first, wire.Msg) and first.type == wire.CONNECTOK
        replies_after = []
        if accepted:
            # harness sanity + the accepted path: pipelined invokes are answered in order
            for i in range(c["pipelined"]):
                try:
                    replies_after.append(cl.recv_msg())
                except (EOFError, OSError, socket.timeout) as x:
                    rec.violation("accepted-connection-drops-pipelined-call", "handshake accepted but pipelined call %d got %r" % (i, x), pay)
                    return
        for i in range(c["after"]):
            tgt = c["targets"][3 + (i % 2)]
            try:
                if tgt == "mark":
                    cl.send(invoke_bytes(P, ser, "marker", "mark", (c["token"] + "-a%d" % i,), seq))
                else:
                    cl.send(invoke_bytes(P, ser, "Pyro.Daemon", "registered", (), seq))
                seq += 1
                rec.count("pipelined_invokes_sent")
                if accepted:
                    replies_after.append(cl.recv_msg())
            except (OSError, EOFError, socket.timeout):
                break
        if not accepted:
            closed = cl.expect_eof(10.0)
        else:
            closed = None
    finally:
        cl.close()
        if c.get("maxsize"):
            time.sleep(0.05)
            P.config.MAX_MESSAGE_SIZE = saved_max
    events = log.snapshot()
    execs = [e for e in events if e[1] == "exec"]
    metas = [e for e in events if e[1] == "get_metadata"]
    vals = [e for e in events if e[1] == "validator"]
    must_accept = expect_accept(c)
    if accepted:
        if not must_accept and not may_accept(c):
            rec.violation(classify_accept(c), "first message %s was answered with CONNECTOK" % describe(c), pay)
            return
        # get_metadata (handshake) only after the validator returned
        if (not vals and not may_accept(c)) or (metas and vals and metas[0][0] < vals[0][0]):
            rec.violation("metadata-before-validator", "handshake get_metadata ran before/without the validator: %r" % (events[:6],), pay)
            return
        rec.count("accepted_ok")
        return
    # ---- not accepted: nothing may have run for this connection, ever
    if execs:
        rec.violation("executed-without-handshake", "first message %s; no CONNECTOK was sent, yet the daemon executed %r" % (describe(c), [e[2:] for e in execs]), pay)
        return
    if c["first"] == "connect" and c.get("mode", "").startswith(("raise:", "ticket:")) and metas:
        rec.violation("metadata-before-validator", "the validator raised but get_metadata ran: %r" % (events,), pay)
        return
    if c["first"] != "connect" and metas and c["first"] != "connect-shape" and c["first"] != "serializer":
        rec.violation("executed-without-handshake", "first message %s: get_metadata ran %r" % (describe(c), metas), pay)
        return
    if must_accept:
        rec.violation("valid-handshake-refused", "valid handshake %s got %s" % (describe(c), describe_reply(P, first)), pay)
        return
    if closed is False:
        rec.violation("reply-after-failed-handshake", "first message %s was refused/ignored, but the peer sent more data afterwards" % describe(c), pay)
        return
    if closed is None:
        rec.violation("connection-not-closed", "first message %s: connection still open 10 s after the failed handshake" % describe(c), pay)
        return
    # the three named cases: connect-failure carrying the reason
    named = None
    if c["first"] == "type":
        named = "wrong_first_type"
    elif c["first"] == "connect" and c.get("mode", "").startswith("raise:WeirdStr"):
        named = None        # str(exception) itself raises: no reason can be promised, only 'nothing ran' and 'closed'
    elif c["first"] == "connect" and c.get("mode", "").startswith("raise:"):
        named = "validator_raised"
    elif c["first"] == "connect" and c.get("mode", "").startswith("ticket:"):
        named = "validator_raised_ticket"
    elif c["first"] == "connect" and c.get("mode") == "accept" and isinstance(c.get("objid"), str):
        named = "unknown_object"
    if named:
        if not (isinstance(first, wire.Msg) and first.type == wire.CONNECTFAIL):
            if named == "validator_raised" and c["mode"].startswith("raise:ConnectionClosedError") and first == "EOF":
                rec.violation("validator-raising-connectionclosederror-gets-no-connectfail",
                              "first message %s: the validator raised ConnectionClosedError; the connection was closed without a CONNECTFAIL" % describe(c), pay)
                return
            rec.violation("no-connectfail-reply", "first message %s: expected a CONNECTFAIL carrying the reason, got %s" % (describe(c), describe_reply(P, first)), pay)
            return
        reason = decode_reason(P, first)
        want = None
        if named == "validator_raised":
            key = c["mode"][6:]
            if key.startswith("WeirdStr"):
                want = None
            else:
                try:
                    mk = RAISERS.get(key)
                    want = str(mk()) if mk else key.partition(":")[2]
                except Exception:
                    want = None
        elif named == "validator_raised_ticket":
            want = "ticket already used"
        elif named == "unknown_object":
            want = "unknown object"
        elif named == "wrong_first_type":
            want = "invalid msg type"
        if want is not None and (not isinstance(reason, str) or want not in reason):
            rec.violation("connectfail-without-reason", "first message %s: CONNECTFAIL reason %r does not carry %r" % (describe(c), reason, want), pay)
            return
        rec.count("validator_raised" if named == "validator_raised_ticket" else named)
        if named == "validator_raised_ticket":
            rec.count("reused_tickets_refused")
    elif c["first"] == "malformed":
        rec.count("malformed_first")
    rec.count("refused_ok")


def classify_accept(c):
    return "handshake-accepted-wrongly:" + ("validator-raised" if c.get("mode", "").startswith(("raise:", "ticket:")) else c["first"])


def describe(c):
    return "{%s}" % ", ".join("%s=%r" % (k, c[k]) for k in ("first", "mode", "objid", "extra", "shape", "msgtype", "tflags", "empty", "how", "ser") if k in c)


def describe_reply(P, m):
    if isinstance(m, wire.Msg):
        return "message type %d: %r" % (m.type, decode_reason(P, m))
    return repr(m)


def decode_reason(P, m):
    try:
        return P.serializers.serializers_by_id[m.ser].loads(m.data)
    except Exception as x:
        return "<undecodable: %r>" % (x,)


class NotAnOrdinaryException(BaseException):
    pass


def baseexception_phase(P, servertype, rec, r):
    """validators that raise something outside the Exception hierarchy (SystemExit, GeneratorExit, an application's own BaseException).
    By Python's convention those are not errors to be answered but signals to be propagated, so neither a reason nor an orderly close is
    demanded of the daemon here (on the unchanged tree the serving worker thread / the multiplex loop ends); what the statement still
    demands is its core: nothing is invoked for that connection and it is never told CONNECTOK. One throw-away daemon per case."""
    for exc in (SystemExit, NotAnOrdinaryException, GeneratorExit):
        for pipelined in (True, False):
            fx, log = make_env(P, servertype)
            try:
                def validator(conn, data, exc=exc):
                    log.add("validator", "raises " + exc.__name__)
                    raise exc("refused by raising " + exc.__name__)
                fx.daemon.hs_validator = validator
                ser = P.serializers.serializers[r.choice(fixture.SERIALIZERS)]
                pay = {"baseexception": exc.__name__, "pipelined": pipelined, "servertype": servertype}
                rec.case(("baseexc", exc.__name__, pipelined, servertype), nontrivial=True)
                c = wire.RawClient(fx.location, timeout=1.0)
                connect = wire.encode(wire.CONNECT, 0, 0, ser.serializer_id, ser.dumps({"handshake": {"mode": "accept"}, "object": "marker"}))
                inv = invoke_bytes(P, ser, "marker", "mark", ("base-" + exc.__name__,), 1)
                first = None
                try:
                    if pipelined:
                        c.send(connect + inv)
                    else:
                        c.send(connect)
                    try:
                        first = c.recv_msg()
                    except Exception:
                        first = None
                    if not pipelined:
                        try:
                            c.send(inv)
                        except OSError:
                            pass
                    time.sleep(0.25)
                finally:
                    c.close()
                ran = [e for e in log.of("exec") if e[2] == "mark"]
                if ran or (first is not None and first.type == wire.CONNECTOK):
                    rec.violation("executed-without-handshake", "the validator raised %s, yet the connection %s and %d call(s) ran: %r" % (
                        exc.__name__, "was told CONNECTOK" if first is not None and first.type == wire.CONNECTOK else "got no CONNECTOK", len(ran), ran), pay)
                else:
                    rec.count("baseexception_validators_ok")
            finally:
                fixture.take_faults()         # the worker thread / loop that propagated the signal: expected, not a fault of this check
                try:
                    fx.sibling.stop()
                    fx.stop()
                except Exception:
                    pass


def installed_validator_phase(P, servertype, rec, r):
    """The validator does not have to come from a subclass written before the daemon exists: applications assign `validateHandshake` on
    the daemon instance (a closure over their session store), and they replace it while the daemon is serving (maintenance mode on / off).
    Whatever validator is installed when a connection arrives decides about that connection."""
    for how in ("assigned-on-instance", "swapped-to-refusing-while-serving", "swapped-to-accepting-while-serving"):
        fx, log = make_env(P, servertype)
        try:
            def refusing(conn, data):
                log.add("validator", "installed one refuses")
                raise PermissionError("maintenance mode")

            def accepting(conn, data):
                log.add("validator", "installed one accepts")
                return "welcome back"
            ser = P.serializers.serializers[r.choice(fixture.SERIALIZERS)]

            def attempt(tag):
                c = wire.RawClient(fx.location, timeout=2.0)
                try:
                    c.send(wire.encode(wire.CONNECT, 0, 0, ser.serializer_id, ser.dumps({"handshake": {"mode": "accept"}, "object": "marker"})) +
                           invoke_bytes(P, ser, "marker", "mark", (tag,), 1))
                    try:
                        first = c.recv_msg()
                    except Exception:
                        first = None
                    time.sleep(0.15)
                finally:
                    c.close()
                ran = [e for e in log.of("exec") if e[2] == "mark" and e[3] == tag]
                return first, ran
            stages = {"assigned-on-instance": [(refusing, False)],
                      "swapped-to-refusing-while-serving": [(None, True), (refusing, False), (accepting, True)],
                      "swapped-to-accepting-while-serving": [(refusing, False), (accepting, True), (refusing, False)]}[how]
            for i, (val, want_accept) in enumerate(stages):
                if val is not None:
                    fx.daemon.validateHandshake = val
                tag = "%s-%d" % (how, i)
                pay = {"installed_validator": how, "stage": i, "servertype": servertype}
                rec.case(("installed", how, i, servertype), nontrivial=True)
                first, ran = attempt(tag)
                ok = first is not None and first.type == wire.CONNECTOK
                if not want_accept and (ok or ran):
                    rec.violation("executed-without-handshake", "the validator installed on the daemon instance (%s, stage %d) refuses, yet the connection %s and %d pipelined call(s) ran" % (
                        how, i, "was told CONNECTOK" if ok else "got no CONNECTOK", len(ran)), pay)
                    return
                if want_accept and not (ok and ran):
                    rec.violation("accepted-handshake-not-served", "the validator installed on the daemon instance (%s, stage %d) accepts, yet the connection %s and %d pipelined call(s) ran" % (
                        how, i, "was told CONNECTOK" if ok else "got no CONNECTOK", len(ran)), pay)
                    return
                rec.count("installed_validators_ok")
        finally:
            try:
                fx.sibling.stop()
                fx.stop()
            except Exception:
                pass


def weak_object_phase(fx, log, rec, r, n):
    """an id that WAS known (a weakly registered object, connected to while it lived) and is unknown now (the object was collected):
    a connect message naming it is refused like any unknown id, and nothing pipelined behind it runs"""
    import gc
    P = fx.P

    @P.server.expose
    class Ephemeral(object):
        def hello(self):
            return "hi"
    obj = Ephemeral()
    oid = "ephemeral%d" % n
    # the ways an id becomes unknown again: the weakly registered object is collected, or the application withdraws the object (weak or strong
    # registration) by object or by id
    how = ("weak-collected", "weak-unregister-object", "weak-unregister-id", "strong-unregister-object", "strong-unregister-id")[(n // 50 + n) % 5]
    fx.daemon.register(obj, oid, weak=how.startswith("weak"))
    pay = {"weak_phase": True, "servertype": fx.servertype, "n": n}
    rec.case(("weak", how, fx.servertype), nontrivial=True)
    with fx.proxy(oid) as p:
        p._pyroHandshake = {"mode": "accept", "token": "weak-warmup"}
        if p.hello() != "hi":
            rec.inconc("warm-up call on the weakly registered object failed")
            return
    if how == "weak-collected":
        del obj
        gc.collect()
        if not fx.wait_until(lambda: oid not in fx.daemon.objectsById, 5.0):
            rec.inconc("the weakly registered object was not collected / unregistered within the watchdog")
            return
    elif how.endswith("unregister-object"):
        fx.daemon.unregister(obj)
    else:
        fx.daemon.unregister(oid)
    rec.count("withdrawn:" + how)
    ser = P.serializers.serializers[r.choice(fixture.SERIALIZERS)]
    before = len(log.of("exec"))
    c = wire.RawClient(fx.location, timeout=5.0)
    try:
        c.send(wire.encode(wire.CONNECT, 0, 0, ser.serializer_id, ser.dumps({"handshake": {"mode": "accept", "token": "weak%d" % n}, "object": oid}))
               + invoke_bytes(P, ser, "marker", "mark", ("weak%d" % n,), 1))
        try:
            m = c.recv_msg()
        except (EOFError, OSError):
            m = None
        time.sleep(0.05)
    finally:
        c.close()
    ran = [e for e in log.of("exec")[before:] if e[2] == "mark"]
    if ran or m is None or m.type != wire.CONNECTFAIL:
        rec.violation("handshake-accepted-wrongly:collected-weak-object" if how == "weak-collected" else "handshake-accepted-wrongly:withdrawn-object", "CONNECT for id %r, which is unknown again (%s), was answered with %s and %d pipelined call(s) ran" % (
            oid, how, describe_reply(P, m) if m is not None else "nothing", len(ran)), pay)
        return
    rec.count("collected_weak_ids_refused")


def slow_validator_phase(P, servertype, rec, r):
    """a daemon with a communication timeout, and a validator that takes longer than that timeout to make up its mind (a lookup in a slow
    directory, say): its verdict counts all the same - a late refusal is a refusal (connect-failure with the reason, nothing runs), a late
    acceptance is an acceptance"""
    log = fixture.EventLog()

    @P.server.expose
    class Marker(object):
        def mark(self, token):
            log.add("exec", "mark", token)
            return "marked:" + str(token)
    fx = fixture.Fixture(servertype=servertype, COMMTIMEOUT=0.25)
    fx.register(Marker(), "marker")

    def validator(conn, data):
        d = data if isinstance(data, dict) else {}
        time.sleep(0.65)
        if d.get("mode") == "slow-raise":
            raise PermissionError("refused after a long look: " + str(d.get("token")))
        if d.get("mode") == "slow-exit":
            raise SystemExit("the validator gives up")
        return "welcome, eventually"
    fx.daemon.hs_validator = validator
    try:
        for n, mode in enumerate(("slow-raise", "slow-accept", "slow-raise")):
            ser = P.serializers.serializers[r.choice(fixture.SERIALIZERS)]
            tok = "slow%d-%s" % (n, servertype)
            pay = {"slow_validator": True, "servertype": servertype, "mode": mode}
            rec.case(("slow-validator", mode, servertype, n), nontrivial=True)
            c = wire.RawClient(fx.location, timeout=8.0)
            try:
                c.send(wire.encode(wire.CONNECT, 0, 0, ser.serializer_id, ser.dumps({"handshake": {"mode": mode, "token": tok}, "object": "marker"})) + invoke_bytes(P, ser, "marker", "mark", (tok,), 1))
                try:
                    m = c.recv_msg()
                except (EOFError, OSError):
                    m = None
                time.sleep(0.1)
            finally:
                c.close()
            ran = [e for e in log.of("exec") if e[3] == tok]
            if mode == "slow-raise":
                if ran or m is None or m.type != wire.CONNECTFAIL or "refused after a long look" not in str(decode_reason(P, m)):
                    rec.violation("handshake-accepted-wrongly:validator-raised", "COMMTIMEOUT 0.25 s, a validator that raises PermissionError after 0.65 s: the peer got %s and %d pipelined call(s) ran" % (
                        describe_reply(P, m) if m is not None else "nothing", len(ran)), pay)
                    return
                rec.count("late_refusals_ok")
            else:
                if m is None or m.type != wire.CONNECTOK or len(ran) != 1:
                    rec.violation("valid-handshake-refused", "COMMTIMEOUT 0.25 s, a validator that accepts after 0.65 s: the peer got %s and %d pipelined call(s) ran" % (describe_reply(P, m) if m is not None else "nothing", len(ran)), pay)
                    return
                rec.count("late_acceptances_ok")
    finally:
        fx.stop()


def plan(tier, seed):
    per = 400 if tier == "quick" else 3000
    n = 4 if tier == "quick" else 8
    return [{"i": i, "servertype": "thread" if i % 2 == 0 else "multiplex", "n": per} for i in range(n * 2)]


def run_shard(shard, rec):
    P = fixture.pyro()
    r = gen.rng(rec.seed, "c08", shard["i"])
    # (the configuration variants the property does not depend on - compression, wire logging, detailed tracebacks, hooks on the instance -
    # rotate over the shards, so that every variant is driven by every seed)
    fx, log = make_env(P, shard["servertype"], variant=(shard["i"] * 3 + rec.seed) % (2 * len(fixture.VARIANTS)))
    rec.count("fixture_variant:" + fx.variant)
    try:
        for n in range(shard["n"]):
            if rec.should_stop(12):
                break
            c = gen_case(r, shard["i"] * 100000 + n)
            run_case(fx, log, c, rec, r)
            if n % 25 == 24:
                sibling_probe(fx, log, rec, r, n)
            if n % 50 == 30:
                weak_object_phase(fx, log, rec, r, n)
            if not fx.loop_alive():
                rec.violation("daemon-loop-died", "request loop stopped after case %s: %r" % (describe(c), fx.loop_exc), dict(c, servertype=fx.servertype))
                break
        for kind, text in fixture.take_faults():
            if kind == "thread-exception":
                rec.violation("server-thread-fault", text, None)
    finally:
        fx.sibling.stop()
        fx.stop()
    if shard["i"] < 2:
        baseexception_phase(P, shard["servertype"], rec, r)
        installed_validator_phase(P, shard["servertype"], rec, r)
        slow_validator_phase(P, shard["servertype"], rec, r)


def replay(payload, rec):
    P = fixture.pyro()
    st = payload.pop("servertype", "thread")
    fx, log = make_env(P, st)
    try:
        if payload.get("slow_validator"):
            slow_validator_phase(P, st, rec, gen.rng(0, "replay"))
            return
        if payload.get("installed_validator"):
            installed_validator_phase(P, st, rec, gen.rng(0, "replay"))
            return
        if payload.get("weak_phase"):
            weak_object_phase(fx, log, rec, gen.rng(0, "replay"), payload.get("n", 0))
        elif payload.get("baseexception"):
            baseexception_phase(P, st, rec, gen.rng(0, "replay"))
        elif payload.get("sibling_probe"):
            with fx.proxy("marker") as p:
                p._pyroHandshake = {"mode": "accept", "token": "warmup"}
                p.mark("warmup")          # the main daemon admits a connection first
            sibling_probe(fx, log, rec, gen.rng(0, "replay"), 1)
        else:
            run_case(fx, log, payload, rec, gen.rng(0, "replay"))
    finally:
        fx.sibling.stop()
        fx.stop()
