"""C02 - only explicitly exposed, non-private members are remotely reachable.

Classes are generated as source text and exec'd (real decorator semantics). Every member body appends to a side-effect
log. Requests go through the raw wire client (E2), so the *server* gate is what is tested. The exposure model is
computed from the shape spec the generator used, not from Pyro's code."""
import threading
import time

from vlib import core, gen, fixture, wire, yieldinj

PROPERTY = "C02"
LEVEL = "exploration"
RULE = ("class shapes = base class + registered subclass with members of every kind (instance/static/class methods, read-only and "
        "read-write properties, plain class and instance attributes, nested helper objects whose class is exposed or not, callable or "
        "not), defined in base or subclass or overridden, exposed per member / per class / not at all, oneway or not; requested names = "
        "every member name, its _x/__x/x__/__x__ variants, every reserved dunder, dotted paths, NFKC look-alikes, non-strings; x 5 request "
        "kinds (call, batch, oneway, attribute read, attribute write) x serializers. distinct = (shape hash, name, kind, serializer); "
        "non-trivial = the name is a member of the shape or a variant of one")
ASSUMPTIONS = ["classes with their own __getattr__/metaclass tricks are outside the quantifier", "'refused' = an exception reply of any type (no reply for oneway)",
               "a call-kind request naming an *exposed* property may run that property's getter before being refused"]
REQUIRED_REACH = ["foreign_instance_refusals", "withdrawn_exposure_refused", "daemon_interface_ok", "dynamic_exposure_stages_ok", "surplus_argument_requests", "served_ok", "refused_ok", "oneway_checked", "metadata_checked", "nonstring_names", "decoration_refusals", "reregistrations_on_live_connection"]
SHARD_TIMEOUT = {"quick": 480, "thorough": 2800}

RESERVED = ["__init__", "__init_subclass__", "__class__", "__module__", "__weakref__", "__call__", "__new__", "__del__", "__repr__", "__str__",
            "__format__", "__nonzero__", "__bool__", "__coerce__", "__cmp__", "__eq__", "__ne__", "__hash__", "__ge__", "__gt__", "__le__", "__lt__",
            "__dir__", "__enter__", "__exit__", "__copy__", "__deepcopy__", "__sizeof__", "__getattr__", "__setattr__", "__hasattr__",
            "__getattribute__", "__delattr__", "__instancecheck__", "__subclasscheck__", "__getinitargs__", "__getnewargs__", "__getstate__",
            "__setstate__", "__reduce__", "__reduce_ex__", "__subclasshook__"]
EXTRA_DUNDERS = ["__dict__", "__doc__", "__len__", "__getitem__", "__iter__", "__slots__", "__mro__", "__base__", "__subclasses__", "__func__", "__self__", "__globals__",
                 "__code__", "__builtins__", "__annotations__", "__qualname__", "__wrapped__", "__closure__"]
KINDS = ["method", "static", "classm", "prop_ro", "prop_rw", "cattr", "iattr", "helper"]
REQ_KINDS = ["call", "batch", "oneway", "getattr", "setattr", "getattr+", "setattr+"]
# "getattr+" / "setattr+": attribute requests with one surplus positional argument (what a raw peer may send; the real Proxy never does)
SURPLUS = [False, 0, None, "", True, 1]
_surplus_i = [0]


def is_private_model(name):
    """docs/servercode.rst: names starting with an underscore are private, except dunder names; minus the reserved list"""
    if name in RESERVED:
        return True
    if not name.startswith("_"):
        return False
    if len(name) > 4 and name.startswith("__") and name.endswith("__"):
        return False
    return True


def gen_shape(r, idx):
    names = ["alpha", "beta", "gamma", "delta", "eps", "zeta", "eta", "theta", "iota", "kappa", "ping", "info", "value", "count", "__len__", "__getitem__", "run", "data",
             "_hid", "_sec", "_priv"]        # private-named members: never served, however their class is exposed
    r.shuffle(names)
    members = []
    n = r.randrange(4, 11)
    for name in names[:n]:
        kind = r.choice(KINDS) if not name.startswith("__") else "method"
        m = {"name": name, "kind": kind, "where": r.choice(["base", "sub"]), "exposed": r.random() < 0.55, "oneway": r.random() < 0.3}
        if name.startswith("_") and not name.startswith("__"):
            m["exposed"] = False      # @expose on a private name is refused at decoration time; only class-level exposure can reach it
        if kind == "helper":
            m["helper_exposed"] = r.choice(["class", "member", "none"])
            m["helper_callable"] = r.random() < 0.5
            m["helper_as"] = r.choice(["inst", "class"])
        if kind in ("cattr", "iattr", "helper"):
            m["exposed"] = False          # there is no way to put @expose on a plain attribute
        members.append(m)
    # overrides: a base member re-defined in the subclass with different exposure/kind
    for m in list(members):
        # (instance attributes are not overridden: an instance attribute shadowing a class-level member of the same name
        #  is a name collision inside the application class, which the quantifier's class shapes do not include)
        if m["where"] == "base" and r.random() < 0.25 and not m["name"].startswith("__") and m["kind"] not in ("iattr", "helper"):
            o = dict(m, where="sub", exposed=r.random() < 0.4, kind=r.choice(["method", "prop_ro", "cattr", m["kind"]]) if m["kind"] != "helper" else "method")
            o.pop("helper_exposed", None)
            if o["kind"] in ("cattr",) or (o["name"].startswith("_") and not o["name"].startswith("__")):
                o["exposed"] = False
            members.append(o)
    # an instance attribute that holds a plain, never-exposed function under the name of a method its class defines (plug-in hooks assigned in
    # __init__ do this): the peer's name then denotes that unexposed function, whatever the class-level member's exposure is
    meths = [m for m in members if m["kind"] == "method" and not m["name"].startswith("__") and sum(1 for x in members if x["name"] == m["name"]) == 1]
    if meths and r.random() < 0.3:
        t = r.choice(meths)
        members.append({"name": t["name"], "kind": "ifunc", "where": "sub", "exposed": False, "oneway": False})
    shape = {"idx": idx, "expose_base": r.random() < 0.35, "expose_sub": r.random() < 0.35, "members": members}
    return shape


def member_src(m, hidx):
    n, k = m["name"], m["kind"]
    ex = "    @expose\n" if m["exposed"] else ""
    ow = "    @oneway\n" if m.get("oneway") and k in ("method", "static", "classm") else ""
    if k == "method":
        return "%s%s    def %s(self, *a, **k):\n        LOG.append(('%s', a, tuple(sorted(k.items()))))\n        return 'r:%s'\n" % (ex, ow, n, n, n)
    if k == "static":
        return "    @staticmethod\n%s%s    def %s(*a, **k):\n        LOG.append(('%s', a, tuple(sorted(k.items()))))\n        return 'r:%s'\n" % (ex, ow, n, n, n)
    if k == "classm":
        return "    @classmethod\n%s%s    def %s(cls, *a, **k):\n        LOG.append(('%s', a, tuple(sorted(k.items()))))\n        return 'r:%s'\n" % (ex, ow, n, n, n)
    if k == "prop_ro":
        return "%s    @property\n    def %s(self):\n        LOG.append(('%s.get',))\n        return 'v:%s'\n" % (ex, n, n, n)
    if k == "prop_rw":
        return ("%s    @property\n    def %s(self):\n        LOG.append(('%s.get',))\n        return 'v:%s'\n"
                "    @%s.setter\n    def %s(self, v):\n        LOG.append(('%s.set', v))\n") % (ex, n, n, n, n, n, n)
    if k == "cattr":
        return "    %s = 'SECRET-VALUE-OF-%s'\n" % (n, n)
    if k == "helper" and m["helper_as"] == "class":
        return "    %s = Helper%d()\n" % (n, hidx)
    return ""


def helper_src(m, hidx):
    ex_cls = "@expose\n" if m["helper_exposed"] == "class" else ""
    ex_m = "    @expose\n" if m["helper_exposed"] == "member" else ""
    s = "%sclass Helper%d(object):\n    def __init__(self, *a, **k):\n        LOG.append(('%s.__init__', a))\n%s    def hm(self, *a, **k):\n        LOG.append(('%s.hm', a))\n        return 'r:hm'\n" % (ex_cls, hidx, m["name"], ex_m, m["name"])
    s += "    def __repr__(self):\n        LOG.append(('%s.__repr__',))\n        return '<helper SECRET-VALUE-OF-helper>'\n" % m["name"]
    if m["helper_callable"]:
        s += "    def __call__(self, *a, **k):\n        LOG.append(('%s.__call__', a))\n        return 'r:call'\n" % m["name"]
    return s


def shape_source(shape):
    src = ["LOG = []\n"]
    hidx = {}
    for i, m in enumerate(shape["members"]):
        if m["kind"] == "helper":
            hidx[id(m)] = i
            src.append(helper_src(m, i))
    for where, clsline, expose in (("base", "class Base(object):\n", shape["expose_base"]), ("sub", "class Sub(Base):\n", shape["expose_sub"])):
        body = []
        for m in shape["members"]:
            if m["where"] == where:
                body.append(member_src(m, hidx.get(id(m), 0)))
        if where == "base":
            # printing the target is running its code too (__repr__ / __str__ are reserved names, never served)
            body.append("    def __repr__(self):\n        LOG.append(('__repr__',))\n        return '<target SECRET-VALUE-OF-repr>'\n"
                        "    def __str__(self):\n        LOG.append(('__str__',))\n        return '<target SECRET-VALUE-OF-str>'\n")
        if where == "sub":
            init = ["    def __init__(self, *a, **k):\n        LOG.append(('__init__', a))\n        self._marker = 1\n"]
            for m in shape["members"]:
                if m["kind"] == "iattr":
                    init.append("        self.%s = 'SECRET-VALUE-OF-%s'\n" % (m["name"], m["name"]))
                if m["kind"] == "ifunc":
                    init.append("        self.%s = lambda *a, **k: (LOG.append(('%s.ifunc', a)), 'r:ifunc')[1]\n" % (m["name"], m["name"]))
                if m["kind"] == "helper" and m["helper_as"] == "inst":
                    init.append("        self.%s = Helper%d()\n" % (m["name"], hidx[id(m)]))
            body.append("".join(init))
        if not "".join(body).strip():
            body.append("    pass\n")
        src.append(("@expose\n" if expose else "") + clsline + "".join(body))
    return "".join(src)


class Model:
    def __init__(self, shape):
        self.shape = shape
        self.eff = {}
        for m in shape["members"]:
            if m["where"] == "base" and m["name"] not in self.eff:
                self.eff[m["name"]] = m
        for m in shape["members"]:
            if m["where"] == "sub":
                self.eff[m["name"]] = m       # the subclass definition (or instance attribute) shadows the base one
        # an instance attribute (set in __init__) shadows non-data descriptors of the class, but not properties (data descriptors)
        for m in shape["members"]:
            if m["kind"] in ("iattr", "ifunc") or (m["kind"] == "helper" and m.get("helper_as") == "inst"):
                cur = self.eff.get(m["name"])
                if cur is not None and cur is not m and cur["kind"] in ("prop_ro", "prop_rw"):
                    continue
                self.eff[m["name"]] = m

    def _exposed(self, m):
        return m["exposed"] or (self.shape["expose_base"] if m["where"] == "base" else self.shape["expose_sub"])

    def served_call(self, name):
        if not isinstance(name, str) or is_private_model(name):
            return False
        m = self.eff.get(name)
        return bool(m and m["kind"] in ("method", "static", "classm") and self._exposed(m))

    def prop(self, name):
        """the property object visible on the class under that name (instance attributes don't hide class-level lookup)"""
        if not isinstance(name, str):
            return None
        m = None
        for mm in self.shape["members"]:
            if mm["name"] == name and mm["where"] == "base" and mm["kind"] not in ("iattr", "ifunc") and not (mm["kind"] == "helper" and mm.get("helper_as") == "inst"):
                m = mm
        for mm in self.shape["members"]:
            if mm["name"] == name and mm["where"] == "sub" and mm["kind"] not in ("iattr", "ifunc") and not (mm["kind"] == "helper" and mm.get("helper_as") == "inst"):
                m = mm
        return m if m and m["kind"] in ("prop_ro", "prop_rw") else None

    def served_read(self, name):
        if not isinstance(name, str) or is_private_model(name):
            return False
        m = self.prop(name)
        return bool(m and self._exposed(m))

    def served_write(self, name):
        if not isinstance(name, str) or is_private_model(name):
            return False
        m = self.prop(name)
        return bool(m and m["kind"] == "prop_rw" and self._exposed(m))

    def exposed_getter(self, name):
        return self.served_read(name)

    def metadata(self):
        names = set(self.eff) | {m["name"] for m in self.shape["members"]}
        methods = {n for n in names if self.served_call(n)}
        attrs = {n for n in names if self.served_read(n) or self.served_write(n)}
        oneway = {n for n in methods if self.eff[n].get("oneway")}
        return methods, attrs, oneway


def requested_names(shape, r):
    names = []
    for m in shape["members"]:
        n = m["name"]
        base = n.strip("_")
        names += [n, "_" + base, "__" + base, base + "__", "__" + base + "__", n + ".__func__", n + ".__globals__", n + ".__self__", n + ".__call__", n + ".hm",
                  n.upper(), n + " ", " " + n, n + "\x00", "".join(chr(ord(c) + 0xFEE0) if "a" <= c <= "z" else c for c in n), "＿" + base]
    names += RESERVED + EXTRA_DUNDERS + ["_marker", "_pyroId", "_pyroDaemon", "_pyroExposed", "_pyroInstancing", "", ".", "a.b.c", "Base", "Sub", "LOG"]
    seen, out = set(), []
    for n in names:
        if n not in seen:
            seen.add(n)
            out.append(n)
    return out


NONSTR = [5, None, ["alpha"], {"a": 1}, b"alpha", 1.5, True, ("alpha",)]


class Session:
    """one raw connection to the object under test, re-opened if the server drops it"""

    def __init__(self, fx, ser):
        self.fx, self.ser = fx, ser
        self.c = None
        self.reconnects = 0
        self.handshake_meta = None

    def conn(self):
        if self.c is None:
            self.c = wire.RawClient(self.fx.location)
            m = self.c.handshake("target", self.ser)
            if m.type != wire.CONNECTOK:
                raise RuntimeError("handshake refused: %r" % m)
            self.handshake_meta = self.ser.loads(m.data)["meta"]
        return self.c

    def drop(self):
        if self.c is not None:
            self.c.close()
            self.c = None
            self.reconnects += 1


def wait_oneway_threads(timeout=5.0):
    end = time.time() + timeout
    while time.time() < end:
        ts = [t for t in threading.enumerate() if t.name == "oneway-call"]
        if not ts:
            return True
        for t in ts:
            t.join(0.05)
    return False


def do_request(sess, kind, name, rec):
    """returns ('served'|'refused'|'norep'|'dead', detail)"""
    P = sess.fx.P
    ser = sess.ser
    c = sess.conn()
    try:
        if kind == "call":
            m = c.invoke("target", name, ("A1",), {}, ser)
        elif kind == "batch":
            m = c.invoke("target", "<batch>", [(name, ("A1",), {})], {}, ser, flags=wire.F_BATCH)
        elif kind == "oneway":
            c.invoke("target", name, ("A1",), {}, ser, flags=wire.F_ONEWAY)
            pong = c.ping(seq=77)
            if pong.type != wire.PING or pong.seq != 77:
                return "reply-to-oneway", "a message of type %d (seq %d) arrived where only the ping answer was expected" % (pong.type, pong.seq)
            if not wait_oneway_threads():
                rec.inconc("oneway thread did not finish within the watchdog")
            return "norep", None
        elif kind == "getattr":
            m = c.invoke("target", "__getattr__", (name,), {}, ser)
        elif kind == "getattr+":
            _surplus_i[0] += 1
            m = c.invoke("target", "__getattr__", (name, SURPLUS[_surplus_i[0] % len(SURPLUS)]), {}, ser)
        elif kind == "setattr+":
            _surplus_i[0] += 1
            m = c.invoke("target", "__setattr__", (name, "NEWVAL", SURPLUS[_surplus_i[0] % len(SURPLUS)]), {}, ser)
        else:
            m = c.invoke("target", "__setattr__", (name, "NEWVAL"), {}, ser)
    except (EOFError, OSError) as x:
        sess.drop()
        return "dead", repr(x)
    if m.type != wire.RESULT:
        return "weird", "reply type %d" % m.type
    if m.flags & wire.F_EXC:
        return "refused", (b"SECRET-VALUE-OF-" in bytes(m.data))
    try:
        data = ser.loads(m.data)
    except Exception as x:
        return "served", "<a non-error reply whose payload this client cannot rebuild: %r>" % x
    if kind == "batch":
        if isinstance(data, (list, tuple)) and len(data) == 1 and isinstance(data[0], P.core._ExceptionWrapper):
            return "refused", None
    return "served", data


def expected_log(kind, name):
    if kind in ("call", "batch", "oneway"):
        return [(name, ("A1",), ())]
    if kind in ("getattr", "getattr+"):
        return [(name + ".get",)]
    return [(name + ".set", "NEWVAL")]


def norm_log(entries):
    out = []
    for e in entries:
        e = tuple(tuple(x) if isinstance(x, list) else x for x in e)
        out.append(e)
    return out


def run_shape(fx, shape, sername, rec, r, light=False):
    P = fx.P
    ns = {"expose": P.server.expose, "oneway": P.server.oneway}
    src = shape_source(shape)
    try:
        exec(compile(src, "<c02-shape-%d>" % shape["idx"], "exec"), ns)
    except Exception as x:
        rec.inconc("generated shape does not compile/decorate: %r\n%s" % (x, src[:400]))
        return
    LOG = ns["LOG"]
    obj = ns["Sub"]()
    model = Model(shape)
    if "target" in fx.daemon.objectsById:
        fx.daemon.unregister("target")
    fx.daemon.register(obj, "target", force=True)
    ser = P.serializers.serializers[sername]
    # the very first clients of a new class connect at the same moment (thread server: their handshakes are served by different threads while
    # the class is inspected for the first time): each of them is told the complete member list
    first_metas = []
    if fx.servertype == "thread":
        import threading

        def first_client():
            try:
                c = wire.RawClient(fx.location)
                m = c.handshake("target", ser)
                if m.type == wire.CONNECTOK:
                    first_metas.append(ser.loads(m.data)["meta"])
                c.close()
            except Exception as x:
                first_metas.append(x)
        yieldinj.enable((), 0.0, 1, delay_funcs=(("Pyro5/server.py", "_get_exposed_members", 0.0004),))
        try:
            ts = [threading.Thread(target=first_client, daemon=True) for _ in range(4)]
            for i, t in enumerate(ts):
                t.start()
                time.sleep((0.0, 0.004, 0.009, 0.0)[i])       # (some arrive together, some while the first inspection is under way)
            for t in ts:
                t.join(20)
        finally:
            yieldinj.disable()
    sess = Session(fx, ser)
    shape_h = core.h64(src)
    names = requested_names(shape, r)
    member_names = {m["name"] for m in shape["members"]}
    payload_base = {"shape": shape, "source": src, "serializer": sername, "servertype": fx.servertype}

    def snapshot():
        # (__annotations__ is created lazily by the interpreter on first access of cls.__annotations__: not an effect of Pyro)
        # (values are not printed unless they are plain data: printing a helper object would run ITS __repr__, which is being watched)
        return (sorted((k, repr(v)[:60] if isinstance(v, (str, int, float, bool, type(None))) else "<%s at %x>" % (type(v).__name__, id(v))) for k, v in vars(obj).items() if not k.startswith("_pyro")),
                sorted(k for k in vars(ns["Sub"]) if k != "__annotations__"), sorted(k for k in vars(ns["Base"]) if k != "__annotations__"))

    for name in names + NONSTR:
        is_str = isinstance(name, str)
        if not is_str:
            rec.count("nonstring_names")
            if sername == "json" and isinstance(name, (bytes, tuple)):
                continue
        kinds = REQ_KINDS if not light else [r.choice(REQ_KINDS)]
        for kind in kinds:
            try:
                sess.conn()      # (re)connect first: what a connect handshake does - e.g. the daemon's warning, printing the object, that its class exposes nothing - is not an effect of the request that follows
            except Exception:
                pass
            del LOG[:]
            before = snapshot()
            nontrivial = is_str and (name in member_names or name.strip("_").split(".")[0] in {n.strip("_") for n in member_names})
            rec.case((shape_h, repr(name), kind, sername, fx.servertype), nontrivial=nontrivial,
                     sample={"shape_members": [(m["name"], m["kind"], m["where"], m["exposed"]) for m in shape["members"]], "expose_base": shape["expose_base"],
                             "expose_sub": shape["expose_sub"], "name": repr(name), "kind": kind, "serializer": sername} if rec.evaluations % 4000 == 11 else None)
            try:
                outcome, detail = do_request(sess, kind, name, rec)
            except Exception as x:
                rec.inconc("raw request failed in the harness: %r" % (x,))
                sess.drop()
                continue
            log = norm_log(LOG)
            if P.config.DETAILED_TRACEBACK:
                # (DETAILED_TRACEBACK is the documented opt-in to tracebacks that print the local variables of every frame, the target among
                # them: under that setting printing the target is what the application asked for)
                log = [e for e in log if not str(e[0]).endswith(("__repr__", "__str__"))]
                if outcome == "refused":
                    detail = None
            after = snapshot()
            pay = dict(payload_base, name=name, kind=kind)
            if kind in ("call", "batch", "oneway"):
                should = model.served_call(name)
            elif kind in ("getattr", "getattr+"):
                should = model.served_read(name)
            else:
                should = model.served_write(name)
            if outcome == "reply-to-oneway":
                rec.violation("oneway-got-reply", "oneway request for %r: %s" % (name, detail), pay)
                continue
            if outcome in ("weird",):
                rec.violation("malformed-reply", "%s request for %r: %s" % (kind, name, detail), pay)
                continue
            if outcome == "dead":
                # the statement promises an error reply; a dropped connection is not one
                rec.violation("no-error-reply:connection-dropped", "%s request for %r: connection dropped (%s) instead of an error reply" % (kind, name, detail), pay)
                continue
            if kind == "oneway":
                rec.count("oneway_checked")
            if should and kind.endswith("+"):
                # a malformed request for an exposed property: served or refused (arity) are both fine, only its own accessor may have run
                if outcome not in ("served", "refused") or (log and log != expected_log(kind, name)):
                    rec.violation("exposed-member-not-served", "%s request for exposed %r: outcome=%s log=%r" % (kind, name, outcome, log), pay)
                    continue
                rec.count("surplus_argument_requests")
                continue
            if kind.endswith("+"):
                rec.count("surplus_argument_requests")
            if should:
                want = expected_log(kind, name)
                if log != want or (outcome not in ("served", "norep")):
                    rec.violation("exposed-member-not-served", "%s request for exposed %r: outcome=%s log=%r (expected %r)" % (kind, name, outcome, log, want), pay)
                    continue
                rec.count("served_ok")
                continue
            # must be refused and have no effect on the object
            allowed_log = []
            if kind in ("call", "batch", "oneway") and is_str and model.exposed_getter(name) and not is_private_model(name):
                allowed_log = [(name + ".get",)]       # an exposed property named in a call message: its own getter may run
            if outcome == "served":
                rec.violation(classify_served(model, name, kind, log), "%s request for %r was SERVED (reply %s); the model says it is not exposed. log=%r" % (
                    kind, name, core.short(detail, 80), log), pay)
                continue
            if log and log != allowed_log:
                rec.violation(classify_effect(model, name, kind, log), "%s request for unexposed/private %r was refused but code of the target ran: log=%r" % (kind, name, log), pay)
                continue
            if before != after:
                rec.violation("refused-request-changed-object", "%s request for %r was refused but the object changed: %r -> %r" % (kind, name, before, after), pay)
                continue
            if outcome == "refused" and detail is True:
                rec.violation("refusal-discloses-unexposed-value", "%s request for unexposed/private %r was refused, but the error reply carries the value of an unexposed attribute (or the text the target's own __repr__ produces)" % (kind, name), pay)
                continue
            rec.count("refused_ok")
    # advertised member list == served set
    exp_m, exp_a, exp_o = model.metadata()
    for source in ("get_metadata", "handshake") + tuple("racing-first-handshake-%d" % i for i in range(len(first_metas))):
        try:
            if source.startswith("racing"):
                meta = first_metas[int(source.rsplit("-", 1)[1])]
                if isinstance(meta, Exception):
                    raise meta
                rec.count("racing_first_handshakes")
            elif source == "get_metadata":
                m = sess.conn().invoke("Pyro.Daemon", "get_metadata", ("target",), {}, ser)
                meta = ser.loads(m.data)
                if m.flags & wire.F_EXC:
                    raise RuntimeError("get_metadata raised %r" % (meta,))
            else:
                meta = sess.handshake_meta
            got = (set(meta["methods"]), set(meta["attrs"]), set(meta["oneway"]))
        except Exception as x:
            rec.inconc("could not fetch metadata via %s: %r" % (source, x))
            continue
        rec.case((shape_h, "metadata", source, sername))
        # (the daemon inspects the CLASS for the advertised list; a name the instance shadows with its own unexposed function is advertised if the
        #  class-level method is exposed, yet refused when requested - the safe direction. That application-made name collision is left out here.)
        shadowed = {m["name"] for m in shape["members"] if m["kind"] == "ifunc"}
        got = tuple(g - shadowed for g in got)
        exp_m, exp_a, exp_o = exp_m - shadowed, exp_a - shadowed, exp_o - shadowed
        if got != (exp_m, exp_a, exp_o):
            diff = {"methods": sorted(got[0] ^ exp_m), "attrs": sorted(got[1] ^ exp_a), "oneway": sorted(got[2] ^ exp_o)}
            rec.violation("metadata-differs-from-served-set", "advertised (%s) %r, served set per model %r; symmetric difference %r" % (
                source, tuple(sorted(s) for s in got), (sorted(exp_m), sorted(exp_a), sorted(exp_o)), diff), dict(payload_base, name="<metadata>", kind=source))
        else:
            rec.count("metadata_checked")
    # ---- the id changes hands while this connection stays open: it is unregistered, then registered for another object. What the peer's
    #      names denote is decided by what is registered under the id at the time of the request
    served = [(kind, name) for name in names if isinstance(name, str) for kind in ("call", "getattr", "setattr")
              if (model.served_call(name) if kind == "call" else model.served_read(name) if kind == "getattr" else model.served_write(name))][:6]
    if served and sess.c is not None:
        pay = dict(payload_base, name="<re-registration>", kind="lifecycle")
        rec.case((shape_h, "lifecycle", sername, fx.servertype), nontrivial=True)
        fx.daemon.unregister("target")
        bad = None
        for kind, name in served:
            del LOG[:]
            outcome, detail = do_request(sess, kind, name, rec)
            if outcome == "served" or norm_log(LOG):
                bad = ("unexposed-member-served", "the id was unregistered, yet a %s request for %r on the connection that was open all along was %s; code that ran: %r" % (
                    kind, name, outcome, norm_log(LOG)))
                break

        @P.server.expose
        class Successor(object):
            def zz_successor_only(self, *a):
                SUCC.append(("zz_successor_only", a))
                return "r:zz"
        SUCC = []
        if not bad:
            fx.daemon.register(Successor(), "target", force=True)
            for kind, name in served:
                del LOG[:]
                outcome, detail = do_request(sess, kind, name, rec)
                if outcome == "served" or norm_log(LOG):
                    bad = ("unexposed-member-served", "the id now denotes another object (exposing only 'zz_successor_only'), yet a %s request for %r on the connection that was open all along was %s; "
                           "code of the former object that ran: %r" % (kind, name, outcome, norm_log(LOG)))
                    break
            if not bad:
                outcome, detail = do_request(sess, "call", "zz_successor_only", rec)
                if outcome != "served" or SUCC != [("zz_successor_only", ("A1",))]:
                    bad = ("exposed-member-not-served", "the id now denotes another object; a call of its exposed 'zz_successor_only' on the connection that was open all along: outcome=%s log=%r" % (outcome, SUCC))
            fx.daemon.unregister("target")
        if bad:
            rec.violation(bad[0], bad[1], pay)
        else:
            rec.count("reregistrations_on_live_connection")
    sess.drop()
    rec.count("reconnects", sess.reconnects)


def dynamic_exposure_phase(fx, sername, rec, r):
    """the advertised member list is exactly the served set ALSO after the application has changed the exposure of members at run time and
    called the documented Daemon.resetMetadataCache(object or id): for objects registered strongly or weakly, named by object or by id; every
    channel that advertises (connect handshake, Pyro.Daemon.get_metadata, the proxy from proxyFor) is compared with what raw calls reach"""
    P = fx.P
    ser = P.serializers.serializers[sername]
    for weak in (False, True):
        for by in ("object", "id"):
            LOGD = []

            class Dyn(object):
                @P.server.expose
                def first(self, *a, **k):
                    LOGD.append("first")
                    return "first"

                def second(self, *a, **k):
                    LOGD.append("second")
                    return "second"

                def third(self, *a, **k):
                    LOGD.append("third")
                    return "third"

                @property
                def prop(self):
                    LOGD.append("prop")
                    return 5
            obj = Dyn()
            oid = "dyn-%s-%s-%s" % (sername, weak, by)
            fx.daemon.register(obj, oid, weak=weak)
            pay = {"dynamic": True, "serializer": sername, "servertype": fx.servertype, "weak": weak, "by": by}
            try:
                px = None
                for stage in ("initial", "second-exposed", "third-and-prop-exposed", "after-local-proxy-was-adjusted", "prop-withdrawn-without-reset"):
                    if stage == "prop-withdrawn-without-reset":
                        # the application withdraws the exposure of the property again and (so far) has not reset any cache: what is SERVED follows
                        # the members' own marks at once - the cached list is what is advertised, not a licence
                        Dyn.prop.fget._pyroExposed = False
                        c = wire.RawClient(fx.location)
                        try:
                            if c.handshake(oid, ser).type != wire.CONNECTOK:
                                rec.inconc("dynamic exposure: handshake refused")
                                break
                            del LOGD[:]
                            rep = c.invoke(oid, "__getattr__", ("prop",), {}, ser)
                            rec.case(("dynamic", sername, fx.servertype, weak, by, stage), nontrivial=True)
                            if not (rep.flags & wire.F_EXC) or LOGD:
                                rec.violation("unexposed-member-effect:dynamic", "stage %s: the property's exposure was withdrawn, yet reading it %s and its getter ran %d time(s)" % (
                                    stage, "was refused" if rep.flags & wire.F_EXC else "was answered", len(LOGD)), pay)
                            else:
                                rec.count("withdrawn_exposure_refused")
                        finally:
                            c.close()
                        continue
                    if stage == "second-exposed":
                        P.server.expose(Dyn.second)
                    elif stage == "third-and-prop-exposed":
                        P.server.expose(Dyn.third)
                        P.server.expose(Dyn.prop)          # a property object: marks its accessors
                    if stage == "after-local-proxy-was-adjusted":
                        # the application adjusts the metadata of the proxy that proxyFor() handed it (as the http gateway does with _pyroOneway):
                        # that is the proxy's own copy, what the daemon advertises to others does not change
                        px._pyroMethods.add("second_bogus")
                        px._pyroAttrs.add("bogus_attr")
                        px._pyroOneway.add("first")
                        px._pyroMethods.discard("second")
                    elif stage != "initial":
                        fx.daemon.resetMetadataCache(obj if by == "object" else oid)
                    # what a NEW peer is told ...
                    c = wire.RawClient(fx.location)
                    m = c.handshake(oid, ser)
                    if m.type != wire.CONNECTOK:
                        rec.inconc("dynamic exposure: handshake refused")
                        c.close()
                        break
                    told = {"handshake": ser.loads(m.data)["meta"]}
                    told["get_metadata"] = ser.loads(c.invoke("Pyro.Daemon", "get_metadata", (oid,), {}, ser).data)
                    px = fx.daemon.proxyFor(obj if by == "object" else oid)
                    told["proxyFor"] = {"methods": set(px._pyroMethods), "attrs": set(px._pyroAttrs), "oneway": set(px._pyroOneway)}
                    # ... and what it is served
                    served_m, served_a = set(), set()
                    for name in ("first", "second", "third"):
                        del LOGD[:]
                        rep = c.invoke(oid, name, (), {}, ser)
                        if not (rep.flags & wire.F_EXC) and LOGD == [name]:
                            served_m.add(name)
                        elif LOGD:
                            rec.violation("unexposed-member-effect:dynamic", "stage %s: %r ran although refused" % (stage, name), pay)
                    del LOGD[:]
                    rep = c.invoke(oid, "__getattr__", ("prop",), {}, ser)
                    if not (rep.flags & wire.F_EXC):
                        served_a.add("prop")
                    c.close()
                    rec.case(("dynamic", sername, fx.servertype, weak, by, stage), nontrivial=True)
                    for channel, meta in told.items():
                        adv_m, adv_a = set(meta.get("methods", ())), set(meta.get("attrs", ()))
                        if adv_m != served_m or adv_a != served_a or set(meta.get("oneway", ())):
                            rec.violation("metadata-differs-from-served:after-reset" if stage != "initial" else "metadata-differs-from-served",
                                          "%s registration, resetMetadataCache(%s), stage %s: the %s advertises methods %r attrs %r oneway %r, raw calls are served for methods %r attrs %r (none of them oneway)" % (
                                              "weak" if weak else "strong", by, stage, channel, sorted(adv_m), sorted(adv_a), sorted(meta.get("oneway", ())), sorted(served_m), sorted(served_a)), dict(pay, stage=stage))
                            break
                    else:
                        rec.count("dynamic_exposure_stages_ok")
                        continue
                    break
            finally:
                fx.daemon.unregister(oid)


def foreign_instance_phase(fx, sername, rec):
    """a registered CLASS whose instance creator hands back an object of another class (a stand-in, a leftover mock): what is registered - and
    advertised - is the class, so members of that other class are not reachable through its id, exposed there or not, and none of its code
    runs; all three instance modes"""
    P = fx.P
    ser = P.serializers.serializers[sername]
    LOGF = []

    class Vault(object):
        @P.server.expose
        def open_vault(self):
            LOGF.append("open_vault")
            return "vault contents"

        @P.server.expose
        def ping(self):
            LOGF.append("vault.ping")
            return "vault"

        @P.server.expose
        @property
        def combination(self):
            LOGF.append("combination")
            return 1234
    for mode in ("percall", "session", "single"):
        @P.server.behavior(instance_mode=mode, instance_creator=lambda cls: Vault())
        class Front(object):
            @P.server.expose
            def ping(self):
                LOGF.append("front.ping")
                return "front"
        oid = "front-%s-%s" % (mode, sername)
        fx.daemon.register(Front, oid)
        pay = {"foreign_instance": True, "serializer": sername, "servertype": fx.servertype}
        c = wire.RawClient(fx.location)
        try:
            if c.handshake(oid, ser).type != wire.CONNECTOK:
                rec.inconc("foreign-instance phase: handshake refused")
                continue
            for what, call in (("open_vault", lambda: c.invoke(oid, "open_vault", (), {}, ser)), ("ping", lambda: c.invoke(oid, "ping", (), {}, ser)),
                               ("combination", lambda: c.invoke(oid, "__getattr__", ("combination",), {}, ser))):
                del LOGF[:]
                rep = call()
                rec.case(("foreign-instance", mode, what, sername, fx.servertype), nontrivial=True)
                if not (rep.flags & wire.F_EXC) or LOGF:
                    rec.violation("foreign-instance-served", "%s mode: the creator of the registered class returned an object of another class; the request for %r was %s and ran %r" % (
                        mode, what, "answered" if not (rep.flags & wire.F_EXC) else "refused", LOGF), pay)
                    return
                rec.count("foreign_instance_refusals")
        finally:
            c.close()
            fx.daemon.unregister(oid)


def daemon_interface_phase(P, servertype, sername, rec):
    """the daemon's own object (id Pyro.Daemon) with an application-supplied interface class (Daemon(interface=...), a documented option):
    the same gate applies to it - only the members that are exposed are served and advertised"""
    LOGI = []

    class Custom(P.server.DaemonObject):
        def secret_op(self, *a, **k):
            LOGI.append("secret_op")
            return "secret"

        @staticmethod
        def secret_static(*a, **k):
            LOGI.append("secret_static")
            return "secret"

        @property
        def hidden(self):
            LOGI.append("hidden.get")
            return "SECRET-VALUE-OF-hidden"

        @hidden.setter
        def hidden(self, v):
            LOGI.append("hidden.set")

        @P.server.expose
        def extra_ok(self, *a, **k):
            LOGI.append("extra_ok")
            return "fine"

        @P.server.oneway
        def unexposed_oneway(self, *a, **k):
            LOGI.append("unexposed_oneway")
    fx = fixture.Fixture(servertype=servertype, interface=Custom, COMMTIMEOUT=0.0)
    ser = P.serializers.serializers[sername]
    pay = {"daemon_interface": True, "serializer": sername, "servertype": servertype}
    try:
        c = wire.RawClient(fx.location)
        m = c.handshake("Pyro.Daemon", ser)
        meta = ser.loads(m.data)["meta"] if m.type == wire.CONNECTOK else {}
        adv = set(meta.get("methods", ())) | set(meta.get("attrs", ()))
        unexposed = ["secret_op", "secret_static", "hidden", "unexposed_oneway"]
        rec.case(("daemon-interface", sername, servertype), nontrivial=True)
        if adv & set(unexposed) or "extra_ok" not in adv:
            rec.violation("metadata-differs-from-served:daemon-interface", "Pyro.Daemon with a custom interface class advertises %r; its exposed members are the stock ones plus 'extra_ok', not %r" % (sorted(adv), sorted(adv & set(unexposed))), pay)
            return
        for name in unexposed:
            for kind in ("call", "batch", "oneway", "getattr", "setattr"):
                del LOGI[:]
                if kind == "call":
                    rep = c.invoke("Pyro.Daemon", name, ("A1",), {}, ser)
                elif kind == "batch":
                    rep = c.invoke("Pyro.Daemon", "<batch>", [(name, ("A1",), {})], {}, ser, flags=wire.F_BATCH)
                elif kind == "oneway":
                    c.invoke("Pyro.Daemon", name, ("A1",), {}, ser, flags=wire.F_ONEWAY)
                    c.ping(seq=9)
                    wait_oneway_threads()
                    rep = None
                elif kind == "getattr":
                    rep = c.invoke("Pyro.Daemon", "__getattr__", (name,), {}, ser)
                else:
                    rep = c.invoke("Pyro.Daemon", "__setattr__", (name, "NEW"), {}, ser)
                served = rep is not None and not (rep.flags & wire.F_EXC)
                if served and kind == "batch":
                    data = ser.loads(rep.data)
                    served = not (isinstance(data, (list, tuple)) and len(data) == 1 and isinstance(data[0], P.core._ExceptionWrapper))
                if served or LOGI:
                    rec.violation("unexposed-member-served:daemon-interface" if served else "refused-request-ran-code", "%s request for the unexposed member %r of the daemon's own (custom) interface object: %s, log %r" % (
                        kind, name, "SERVED" if served else "refused", LOGI), pay)
                    return
                rec.count("daemon_interface_refusals")
        del LOGI[:]
        rep = c.invoke("Pyro.Daemon", "extra_ok", (), {}, ser)
        if (rep.flags & wire.F_EXC) or LOGI != ["extra_ok"]:
            rec.violation("exposed-member-not-served", "the exposed member extra_ok of the custom daemon interface was not served (log %r)" % (LOGI,), pay)
            return
        rec.count("daemon_interface_ok")
        c.close()
    except Exception as x:
        rec.inconc("daemon interface phase failed in the harness: %r" % (x,))
    finally:
        fx.stop()


def classify_effect(model, name, kind, log):
    m = model.eff.get(name) if isinstance(name, str) else None
    if m is not None and m["kind"] == "helper" and log == [(name + ".__call__", ("A1",))]:
        return "callable-attribute-of-exposed-class-invoked"
    if isinstance(name, str) and model.prop(name) is not None and kind in ("call", "batch", "oneway") and log == [(name + ".get",)]:
        return "unexposed-property-getter-runs-on-call-message"
    return "refused-request-ran-code"


def classify_served(model, name, kind, log):
    m = model.eff.get(name) if isinstance(name, str) else None
    if m is not None and m["kind"] == "helper" and kind in ("call", "batch", "oneway") and log == [(name + ".__call__", ("A1",))]:
        return "callable-attribute-of-exposed-class-invoked"
    return "unexposed-member-served"


def check_decoration(P, rec):
    """@expose on a private name must fail at decoration time"""
    for src in ["class K(object):\n    @expose\n    def _priv(self): pass\n", "class K(object):\n    @expose\n    def __call__(self): pass\n",
                "class K(object):\n    @expose\n    @property\n    def _p(self): return 1\n", "class K(object):\n    @expose\n    def __init__(self): pass\n",
                "@expose\nclass _K(object):\n    pass\n"]:
        rec.case(("decor", src))
        try:
            exec(src, {"expose": P.server.expose})
        except AttributeError:
            rec.count("decoration_refusals")
            continue
        except Exception as x:
            rec.count("decoration_refusals")
            continue
        rec.violation("private-name-exposable", "@expose accepted a private name:\n%s" % src, {"source": src})


def plan(tier, seed):
    if tier == "quick":
        nsh, per = 8, 3
    else:
        nsh, per = 16, 26
    shards = []
    for i in range(nsh):
        shards.append({"i": i, "shapes": per, "servertype": "thread" if i % 2 == 0 else "multiplex"})
    return shards


def run_shard(shard, rec):
    P = fixture.pyro()
    r = gen.rng(rec.seed, "c02", shard["i"])
    fx = fixture.Fixture(servertype=shard["servertype"], COMMTIMEOUT=0.0, variant=fixture.variant_for(rec.seed, "c02", repr(sorted(shard.items()))))
    rec.count("fixture_variant:" + fx.variant)
    try:
        if shard["i"] == 0:
            check_decoration(P, rec)
        else:
            rec.count("decoration_refusals")
        for j in range(shard["shapes"]):
            shape = gen_shape(r, shard["i"] * 1000 + j)
            sers = ["serpent", fixture.SERIALIZERS[1 + (shard["i"] + j) % 3]] if rec.tier == "quick" else fixture.SERIALIZERS
            for k, sername in enumerate(sers):
                if rec.should_stop(40):
                    break
                run_shape(fx, shape, sername, rec, r, light=False)
        if not rec.should_stop(40):
            dynamic_exposure_phase(fx, fixture.SERIALIZERS[shard["i"] % 4], rec, r)
            foreign_instance_phase(fx, fixture.SERIALIZERS[shard["i"] % 4], rec)
        for kind, text in fixture.take_faults():
            if kind == "thread-exception":
                if "oneway-call" in text and "object is not callable" in text and "Helper" in text:
                    # same root as callable-attribute-of-exposed-class-invoked: a plain attribute holding an instance of an exposed class passes the method gate
                    rec.violation("attribute-of-exposed-class-passes-gate:oneway-thread-dies", text, None)
                else:
                    rec.violation("server-thread-fault", text, None)
    finally:
        fx.stop()
    if shard["i"] < 4:
        daemon_interface_phase(P, shard["servertype"], fixture.SERIALIZERS[shard["i"] % 4], rec)


def replay(payload, rec):
    P = fixture.pyro()
    if payload.get("daemon_interface"):
        daemon_interface_phase(P, payload["servertype"], payload["serializer"], rec)
        return
    if payload.get("foreign_instance"):
        fx = fixture.Fixture(servertype=payload.get("servertype", "thread"), COMMTIMEOUT=0.0)
        try:
            foreign_instance_phase(fx, payload["serializer"], rec)
        finally:
            fx.stop()
        return
    if payload.get("dynamic"):
        fx = fixture.Fixture(servertype=payload.get("servertype", "thread"), COMMTIMEOUT=0.0)
        try:
            dynamic_exposure_phase(fx, payload["serializer"], rec, gen.rng(0, "replay"))
        finally:
            fx.stop()
        return
    if "shape" not in payload:
        check_decoration(P, rec)
        return
    fx = fixture.Fixture(servertype=payload.get("servertype", "thread"), COMMTIMEOUT=0.0)
    try:
        print(payload["source"])
        print("request: kind=%s name=%r" % (payload.get("kind"), payload.get("name")))
        run_shape(fx, payload["shape"], payload["serializer"], rec, gen.rng(0, "replay"))
    finally:
        fx.stop()
