"""C19 - URIs have one canonical text form that parses back to the same URI.

Differential oracle on the real functions only: acceptance is whatever URI(s) accepts."""
import copy
import os
import tempfile

from vlib import core, gen

PROPERTY = "C19"
LEVEL = "exploration"
RULE = ("strings generated from the URI grammar and its near misses (3 protocols in any letter case, object names with @ and punctuation, "
        "hostnames / IPv4 / bracketed IPv6 (zone ids, trailing junk) / empty host, ports in every form int() accepts, missing and default "
        "ports, unix socket paths, PYROMETA tag lists incl. empty and duplicate tags) plus random text; shards run under different "
        "PYTHONHASHSEEDs. distinct = distinct strings; non-trivial = strings URI() accepts")
ASSUMPTIONS = ["hash() raising TypeError for a PYROMETA uri (set-valued object) is recorded, not flagged: no hash is not an unequal hash",
               "json/msgpack carry the PYROMETA tag set as a list (C01's mapping); compared as a set"]
REQUIRED_REACH = ["ns_case_twin_reregistrations", "variant_pairs", "accepted", "rejected", "ser_roundtrips", "proxy_roundtrips", "ns_roundtrips", "unequal_location_pairs", "bound_proxies_checked"]
SHARD_TIMEOUT = {"quick": 480, "thorough": 2400}

PROTOS = ["PYRO", "pyro", "PyRo", "PYRONAME", "pyroname", "PyroName", "PYROMETA", "pyrometa", "PyroMeta", "PYROX", "PYR", "PYRONAMES", "pYRO"]
OBJECTS = ["obj", "Pyro.NameServer", "Pyro.Daemon", "obj_1.x-y", "a@b", "@", "a@", "@a", "o!#$%^&*()", "ö", "\U0001F600", "a:b", "a,b", ",", "a,,b", ",a",
           "a,", " a", "x" * 60, "0", "[", "./u:x", "PYRO:x", "a/b?c=d", "a b", "tab\tx", "", "a,a", "b,a", "a,b,c,d,e,f,g,h", "é,e,E", ",,",
           # percent sequences are ordinary characters of a name (no escaping layer exists): they stay what they are
           "a%40b", "job%2540queue", "big%2541pple", "two%20words", "%", "%25", "100%", "a%zzb", "%40", "t%2Cu,v", "x%3A1"]
HOSTS = ["localhost", "127.0.0.1", "0.0.0.0", "host.example.com", "h", "0", "[::1]", "[fe80::1%3]", "[::]", "[1:2:3:4:5:6:7:8]", "[::1]junk", "[[::1]]",
         "[::1", "::1", "[zz::1]", "[::ffff:1.2.3.4]", "", " ", " h", "h ", "a@b", "<<connected-socket>>", "HOST", "ho st", "h\tx", "ö.example", "./U:x", "./u", "[]", "[%]", "[:]"]
PORTS = ["1", "0", "00", "+0", "-0", "55", "+55", "-1", "09090", "9090", "65535", "65536", "99999999", "4_000", " 77", "77 ", " 77 ", "５５", "٣", "1e3", "0x10",
         "", "abc", "1.0", "--1", "1_", "_1", "\t5", "5\n", "²"]
SOCKS = ["./u:/tmp/sock", "./u:sock", "./u:a b", "./u:", "./u:a:b", "./u:@x", "./u:ö", "./u:./u:x", "./u: ", "./u:\tq"]


def make_string(r):
    k = r.random()
    proto = r.choice(PROTOS)
    obj = r.choice(OBJECTS)
    if k < 0.08:
        return proto + ":" + obj
    if k < 0.2:
        return proto + ":" + obj + "@" + r.choice(SOCKS)
    if k < 0.3:
        return proto + ":" + obj + "@" + r.choice(HOSTS)
    if k < 0.9:
        s = proto + ":" + obj + "@" + r.choice(HOSTS) + ":" + r.choice(PORTS)
        if r.random() < 0.05:
            s += r.choice(["\n", " ", ":1", "@x:2", "x"])
        return s
    # mutate a valid one
    s = proto + ":" + obj + "@" + r.choice(HOSTS[:10]) + ":" + r.choice(PORTS[:12])
    if not s:
        return s
    i = r.randrange(len(s))
    c = r.choice(["", ":", "@", " ", "[", "]", ",", "\n", "%", chr(r.randrange(32, 1000))])
    return s[:i] + c + s[i + r.randrange(0, 2):]


def fields(u):
    return (u.protocol, u.object, u.sockname, u.host, u.port)


def norm(u):
    """fields with the PYROMETA tag collection compared as a set (list after json/msgpack)"""
    o = u.object
    if isinstance(o, (set, frozenset, list, tuple)):
        o = ("tags", frozenset(o))
    return (u.protocol, o, u.sockname, u.host, u.port)


class Env:
    def __init__(self):
        core.assert_repo()
        from Pyro5 import core as pcore, client, serializers, nameserver, errors
        self.URI, self.Proxy, self.sers, self.ns, self.errors = pcore.URI, client.Proxy, serializers.serializers, nameserver, errors
        self.mem = nameserver.NameServer(nameserver.MemoryStorage())
        self.dbdir = tempfile.mkdtemp(prefix="c19-", dir=os.path.join(core.VERIF, ".work"))
        self.sql = nameserver.NameServer(nameserver.SqlStorage(os.path.join(self.dbdir, "ns.sqlite")))
        self.nsn = 0

    def cleanup(self):
        import shutil
        shutil.rmtree(self.dbdir, ignore_errors=True)


def check_string(env, s, rec, deep, with_sql):
    URI = env.URI
    try:
        u = URI(s)
    except Exception as x:
        rec.case(("s", s), nontrivial=False)
        rec.count("rejected")
        if not isinstance(x, env.errors.PyroError):
            rec.count("rejected_with_non_pyro_exception")
        return None
    try:
        t = str(u)
    except Exception as x:
        rec.case(("s", s), nontrivial=True)
        rec.count("accepted")
        rec.violation("text-form-raises:" + classify(u), "URI(%r) accepted -> fields %r, but taking its text form raises %r" % (s, fields(u), x), ("s", s))
        return None
    rec.case(("s", s), nontrivial=True, sample={"input": s, "text": t, "fields": core.jsonable(fields(u))} if rec.evaluations % 977 == 5 else None)
    rec.count("accepted")
    try:
        u2 = URI(t)
    except Exception as x:
        rec.violation("text-form-rejected:" + classify(u), "URI(%r) accepted -> fields %r; its text form %r is rejected: %r" % (s, fields(u), t, x), ("s", s))
        return u
    if fields(u2) != fields(u) or not (u2 == u) or (u2 != u):
        rec.violation("text-form-parses-unequal:" + classify(u), "URI(%r) -> %r but URI(str(u))=URI(%r) -> %r" % (s, fields(u), t, fields(u2)), ("s", s))
        return u
    t2 = str(u2)
    if t2 != t:
        rec.violation("text-not-fixed-point:" + ("pyrometa-tag-order" if u.protocol == "PYROMETA" and sorted(t2) == sorted(t) and classify(u) == "other" else classify(u)),
                      "str(URI(%r))=%r but str(URI(that))=%r" % (s, t, t2), ("s", s))
        return u
    try:
        h1, h2 = hash(u), hash(u2)
        if h1 != h2:
            rec.violation("equal-but-hash-differs", "URI(%r): equal uris hash %d vs %d" % (s, h1, h2), ("s", s))
            return u
        rec.count("hash_equal")
    except TypeError:
        rec.count("hash_raises_typeerror_pyrometa")
    if copy.copy(u) != u or URI(u) != u:
        rec.violation("copy-unequal", "copy of URI(%r) unequal" % s, ("s", s))
        return u
    # a uri whose fields are assigned (what the daemon's NAT rewriting and user code do) prints its NEW fields, also when it has been printed before
    for fld, val in (("object", {"tag.one", "t2"} if u.protocol == "PYROMETA" else "renamed.obj"), ("port", 4711), ("host", "other.host.example")):
        if fld != "object" and (u.protocol not in ("PYRO", "PYRONAME", "PYROMETA") or u.host is None or u.sockname):
            continue
        m = copy.copy(u)
        str(m), repr(m)
        setattr(m, fld, val)
        try:
            m2 = URI(str(m))
            ok = fields(m2) == fields(m) and m2 == m
        except Exception as x:
            m2, ok = x, False
        if not ok:
            rec.violation("text-form-ignores-assigned-field", "URI(%r) with .%s = %r assigned has fields %r but its text form %r parses as %r" % (
                s, fld, val, fields(m), str(m), fields(m2) if not isinstance(m2, Exception) else m2), ("s", s))
            return u
        rec.count("assigned_field_text_checked")
    if not deep:
        return u
    # serializers
    for name, ser in env.sers.items():
        try:
            back = ser.loads(ser.dumps(u))
        except Exception as x:
            rec.violation("serializer-roundtrip-raises", "%s round trip of URI(%r) raised %r" % (name, s, x), ("s", s))
            return u
        if type(back) is not URI or norm(back) != norm(u):
            rec.violation("serializer-roundtrip-differs", "%s: URI(%r) %r came back as %r" % (name, s, fields(u), fields(back) if type(back) is URI else back), ("s", s))
            return u
        rec.count("ser_roundtrips")
    # proxy state path (str -> URI)
    try:
        p = env.Proxy(u)
    except Exception as x:
        rec.violation("proxy-rejects-uri", "Proxy(URI(%r)) raised %r" % (s, x), ("s", s))
        return u
    for name, ser in env.sers.items():
        try:
            pb = ser.loads(ser.dumps(p))
            pu = pb._pyroUri
        except Exception as x:
            rec.violation("proxy-state-roundtrip-raises", "%s round trip of Proxy(URI(%r)) raised %r" % (name, s, x), ("s", s))
            return u
        if norm(pu) != norm(u):
            rec.violation("proxy-state-roundtrip-differs", "%s: proxy for %r arrived designating %r" % (name, fields(u), fields(pu)), ("s", s))
            return u
        rec.count("proxy_roundtrips")
    try:
        pc = copy.copy(p)
        if norm(pc._pyroUri) != norm(u):
            rec.violation("proxy-state-roundtrip-differs", "copy of proxy for %r designates %r" % (fields(u), fields(pc._pyroUri)), ("s", s))
            return u
    except Exception as x:
        rec.violation("proxy-state-roundtrip-raises", "copy of Proxy(URI(%r)) raised %r" % (s, x), ("s", s))
        return u
    # name server register/lookup (stores text, re-parses on lookup)
    for label, ns in (("memory", env.mem),) + ((("sqlite", env.sql),) if with_sql else ()):
        env.nsn += 1
        name = "n%d" % (env.nsn % 50)
        try:
            ns.register(name, u)
            got = ns.lookup(name)
        except Exception as x:
            rec.violation("nameserver-roundtrip-raises", "%s name server register/lookup of URI(%r) raised %r" % (label, s, x), ("s", s))
            return u
        if norm(got) != norm(u):
            rec.violation("nameserver-roundtrip-differs", "%s name server returned %r for %r" % (label, fields(got), fields(u)), ("s", s))
            return u
        rec.count("ns_roundtrips")
        # the name is registered again, for a uri that differs from the first one in the letter case of its object id only (ids are case
        # sensitive: another object): the name server answers with what was registered last
        if u.protocol in ("PYRO", "PYRONAME") and isinstance(u.object, str) and u.object.swapcase() != u.object:
            u2 = copy.copy(u)
            u2.object = u.object.swapcase()
            try:
                same_text = env.URI(str(u2)) == u2 and u2 != u
            except Exception:
                same_text = False
            if same_text:
                try:
                    ns.register(name, u2)
                    got2 = ns.lookup(name)
                except Exception as x:
                    rec.violation("nameserver-roundtrip-raises", "%s name server re-register/lookup of URI(%r) raised %r" % (label, str(u2), x), ("s", s))
                    return u
                if norm(got2) != norm(u2):
                    rec.violation("nameserver-roundtrip-differs:reregistered-case-twin", "%s name server: %r was registered as %r and then as %r; lookup gives %r" % (
                        label, name, str(u), str(u2), fields(got2)), ("s", s))
                    return u
                rec.count("ns_case_twin_reregistrations")
        # the other way to register: the accepted STRING itself (what nsc and scripts pass), not a URI object
        try:
            ns.register(name + ".s", s)
            got = ns.lookup(name + ".s")
            listed = ns.list(prefix=name + ".s").get(name + ".s")
        except Exception as x:
            rec.violation("nameserver-roundtrip-raises", "%s name server register/lookup of the string %r raised %r" % (label, s, x), ("s", s))
            return u
        if norm(got) != norm(u) or norm(env.URI(listed)) != norm(u):
            rec.violation("nameserver-roundtrip-differs:registered-as-string", "%s name server: the string %r (= %r) was registered; lookup gives %r, list gives %r" % (label, s, fields(u), fields(got), listed), ("s", s))
            return u
        rec.count("ns_string_roundtrips")
    return u


def classify(u):
    """which known weakness of the text form (if any) this accepted uri exercises. The predicates of open findings are
    narrow (they name the feature of the uri that triggers them); strings that only have a *fixed* defect's feature
    (e.g. an empty host) fall through to their own class and are reported."""
    if u.protocol == "PYROMETA":
        tags = list(u.object)
        if "" in tags:
            return "pyrometa-empty-tag"
        if any("@" in t for t in tags):
            return "pyrometa-at-in-tag"
    if u.host == "./u":
        return "host-named-dot-slash-u"
    if u.host == "" and u.sockname is None:
        return "empty-host"
    return "other"


def check_pair(env, a, b, rec, sa, sb):
    """unequal locations never compare equal; equal uris hash equal"""
    la = (a.sockname, a.host, a.port)
    lb = (b.sockname, b.host, b.port)
    if la != lb:
        rec.count("unequal_location_pairs")
        if a == b or not (a != b):
            rec.violation("distinct-locations-compare-equal", "URI(%r) == URI(%r) although locations %r != %r" % (sa, sb, la, lb), ("pair", sa, sb))
    elif a == b:
        try:
            if hash(a) != hash(b):
                rec.violation("equal-but-hash-differs", "URI(%r) == URI(%r) but hashes differ" % (sa, sb), ("pair", sa, sb))
        except TypeError:
            pass


def variants(s, r):
    """strings related to s: same uri spelled differently, or differing in exactly one component"""
    out = []
    head, at, loc = s.rpartition("@")
    if at:
        out += [head + "@" + loc.upper(), head + "@" + loc.lower(), head + "@" + loc.swapcase(), head.swapcase() + "@" + loc]
        host, colon, port = loc.rpartition(":")
        if colon:
            out += [head + "@" + host + ":" + p for p in ("+" + port, "0" + port, " " + port, port + "1", "1" + port)]
            out += [head + "@" + host.upper() + ":" + port, head + "@" + host + "x:" + port]
    proto, colon, rest = s.partition(":")
    if colon:
        out += [proto.lower() + ":" + rest, proto.upper() + ":" + rest, proto.swapcase() + ":" + rest]
    return out


def bound_proxy_phase(env, rec, r):
    """'... or a proxy holding it': a proxy made from a name-server uri, used as a dict key, then bound (its uri is replaced by the resolved
    one); afterwards it designates the same object as every proxy made from the resolved uri, and whatever compares equal hashes equal"""
    import threading
    from Pyro5 import server, nameserver, config
    config.SERVERTYPE = "thread"
    config.POLLTIMEOUT = 0.5
    config.COMMTIMEOUT = 0.0
    nsd = nameserver.NameServerDaemon(host="127.0.0.1", port=0)
    d = server.Daemon(host="127.0.0.1", port=0)

    @server.expose
    class Thing(object):
        def ping(self):
            return "pong"
    threads = [threading.Thread(target=x.requestLoop, daemon=True) for x in (nsd, d)]
    for t in threads:
        t.start()
    try:
        for k in range(6):
            name = r.choice(["example.thing", "a,b", "Thing%41", "ö.x", "t:1"]) + str(k)
            uri = d.register(Thing(), "thing%d" % k)
            nsd.nameserver.register(name, uri, metadata={"m%d" % k})
            text = "PYRONAME:%s@%s" % (name, nsd.locationStr)
            rec.case(("bound-proxy", text), nontrivial=True)
            p = env.Proxy(text)
            seen = {p: "before binding"}
            p._pyroBind()
            if p.ping() != "pong":
                rec.violation("bound-proxy-wrong-object", "proxy for %r does not reach its object" % text, None)
                return
            peers = [("Proxy(resolved uri)", env.Proxy(p._pyroUri)), ("Proxy(text of resolved uri)", env.Proxy(str(p._pyroUri)))]
            for sname, ser in env.sers.items():
                peers.append((sname + " round trip", ser.loads(ser.dumps(p))))
            for label, q in peers:
                if norm(q._pyroUri) != norm(uri):
                    rec.violation("proxy-designates-other-object", "%s of the proxy bound from %r holds %s, the name denotes %s" % (label, text, q._pyroUri, uri), None)
                    return
                if q == p and hash(q) != hash(p):
                    rec.violation("equal-but-hash-differs", "a proxy made from %r, hashed, then bound: it equals %s (both hold %s) but their hashes differ" % (text, label, q._pyroUri), None)
                    return
            del seen
            for _, q in peers:
                q._pyroRelease()
            p._pyroRelease()
            # ... and a proxy that is merely connected (a method was called on it, it was not bound): it still holds the name it was made
            # from, and so does every copy of it that travels
            p2 = env.Proxy(text)
            if p2.ping() != "pong":
                rec.violation("bound-proxy-wrong-object", "proxy for %r does not reach its object" % text, None)
                return
            import copy as _copy
            travelled = [(sname + " round trip", ser.loads(ser.dumps(p2))) for sname, ser in env.sers.items()] + [("copy.copy", _copy.copy(p2))]
            for label, q in travelled:
                if norm(q._pyroUri) != norm(env.URI(text)) or not (q == p2) or hash(q) != hash(p2):
                    rec.violation("proxy-designates-other-object", "a connected proxy made from %r: its %s holds %s (equal to the original: %s)" % (text, label, q._pyroUri, q == p2), None)
                    return
                q._pyroRelease()
            p2._pyroRelease()
            rec.count("bound_proxies_checked")
    finally:
        nsd.shutdown()
        d.shutdown()
        for t in threads:
            t.join(5)
        nsd.close()
        d.close()


def plan(tier, seed):
    n = 8 if tier == "quick" else 16
    per = 20000 if tier == "quick" else 120000
    return [{"i": i, "n": per, "hashseed": (seed * 31 + i * 7919 + 1) % 4294967295} for i in range(n)] + ([{"kind": "e10"}] if tier == "thorough" else [])


def run_shard(shard, rec):
    if shard.get("kind") == "e10":
        from vlib import e10
        e10.run_e10("C19", rec)
        return
    env = Env()
    try:
        r = gen.rng(rec.seed, "c19", shard["i"])
        if shard["i"] % 4 == 0:
            bound_proxy_phase(env, rec, r)
        prev = None
        for j in range(shard["n"]):
            s = make_string(r)
            u = check_string(env, s, rec, deep=(j % 3 == 0), with_sql=(j % 30 == 0))
            if u is not None:
                if prev is not None:
                    check_pair(env, u, prev[0], rec, s, prev[1])
                prev = (u, s)
                if j % 4 == 0:
                    for vs in variants(s, r):
                        try:
                            v = env.URI(vs)
                        except Exception:
                            continue
                        rec.count("variant_pairs")
                        check_pair(env, u, v, rec, s, vs)
        # random text fuzz on the parser (mostly rejected; whatever is accepted must satisfy the same laws)
        from hypothesis import strategies as st

        def one(s):
            check_string(env, s, rec, deep=False, with_sql=False)
        gen.draw_many(st.builds(lambda a, b, c: a + ":" + b + c, st.sampled_from(PROTOS[:9]), st.text(max_size=8),
                                st.one_of(st.just(""), st.text(max_size=10).map(lambda x: "@" + x))), shard["n"] // 4, rec.seed * 1000 + shard["i"], one)
    finally:
        env.cleanup()


def replay(payload, rec):
    env = Env()
    try:
        if payload[0] == "s":
            check_string(env, payload[1], rec, deep=True, with_sql=True)
        else:
            a, b = env.URI(payload[1]), env.URI(payload[2])
            rec.case(payload)
            check_pair(env, a, b, rec, payload[1], payload[2])
    finally:
        env.cleanup()
