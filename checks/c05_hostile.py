"""C05 - no client input can stop the daemon or disturb other clients.

Hostile raw clients (structure-aware mutations of valid CONNECT/INVOKE messages, truncations, garbage, wrong-shape payloads,
deep nests, calls to unknown objects/members, methods raising awkward exceptions) attack a live daemon before, during and
after the handshake, while witness clients (well-behaved Proxies held open all along) call echo(token) continuously.
Oracle: witnesses always get their own token and are never dropped; the request loop and all server threads stay alive;
a fresh handshake + call works afterwards; worker/selector accounting returns to the witnesses' connections."""
import socket
import struct
import threading
import time
import zlib

from vlib import core, gen, fixture, wire, yieldinj

PROPERTY = "C05"
LEVEL = "exploration"
RULE = ("hostile connections: one hostile item (a mutated message or garbage) sent before / during / after a valid handshake, then FIN or RST after a short "
        "stall; items = every header field at boundary values, every length field inconsistent with the bytes that follow, every prefix truncation of a "
        "valid CONNECT and INVOKE, annotation-chunk corruption, payloads of the wrong shape, COMPRESSED flag on non-zlib data, nests 150/1100 deep, random "
        "bytes, calls to unknown objects/members and to methods raising unserialisable / str-less / local / huge exceptions; x {thread, thread with a "
        "3-worker pool (refusal path), multiplex} x COMMTIMEOUT {0, 0.6s}; interleaved with 2 witness clients. distinct = hash of (phase, bytes sent, ending, "
        "config); non-trivial = the server had to parse at least a header")
ASSUMPTIONS = ["a peer that stalls forever mid-message on the single-threaded multiplex server without a timeout is documented behaviour; hostile clients always close (after <=50 ms)",
               "'still accepts / keeps receiving' = within a 10 s watchdog after the last hostile socket is closed",
               "BaseException-only exceptions (SystemExit ...) raised by methods are outside the statement ('Exception subclasses')"]
REQUIRED_REACH = ["served_during_pipeline_flood", "refused_lingerers_ok", "oneway_calls_served_behind_a_pile", "slow_oneway_leavers_ok", "discovery_responder_ok", "served_while_handshakes_stalled", "abandoned_streams_swept", "injected_yields", "hostile_connections", "witness_calls_ok", "post_attack_handshake_ok", "accounting_restored", "refused_by_full_pool", "error_replies_seen", "stream_guess_phases_ok"]
SHARD_TIMEOUT = {"quick": 480, "thorough": 3000}


class Unser(Exception):
    pass


class BadStr(Exception):
    def __str__(self):
        raise RuntimeError("no str for you")


class BadRepr(Exception):
    def __repr__(self):
        raise RuntimeError("no repr")

    def __str__(self):
        raise RuntimeError("no str")


NAPS = {}        # key -> (entered Event, release Event)
MARKS = {}       # key -> Event set when the oneway call of a well-behaved client has been carried out


def make_service(P):
    @P.server.expose
    class Svc(object):
        def echo(self, token):
            # a trace id sent with the request travels back with the reply (what tracing middleware does): each reply carries its own call's
            ctx = P.callcontext.current_context
            trid = (ctx.annotations or {}).get("TRID")
            if trid is not None:
                ctx.response_annotations["TRID"] = bytes(trid)
            return token

        def mark(self, key):
            MARKS[key].set()
            return key

        def nap(self, key):
            # an ordinary method that takes its time (until released, 8 s at most); a hostile client may flip the ONEWAY flag on its request
            entered, release = NAPS[key]
            entered.set()
            release.wait(8)
            return key

        def fail_key(self, token):
            raise KeyError(token)          # an ordinary failure of a well-behaved client's own call: the "correct reply" is this very exception

        def raise_builtin_unser(self):
            e = KeyError(threading.Lock())     # the same builtin classes the well-behaved clients see, with content no serializer can take
            e.handle = object()
            raise e

        def raise_value_unser(self):
            raise ValueError(object())

        def raise_unser(self):
            e = Unser("x")
            e.lock = threading.Lock()
            e.sock = socket.socket()
            raise e

        def raise_badstr(self):
            raise BadStr("hidden")

        def raise_badrepr(self):
            raise BadRepr("hidden")

        def raise_local(self):
            class LocalError(Exception):
                pass
            raise LocalError("local", object())

        def raise_huge(self):
            raise ValueError("h" * 2000000)

        def raise_nested(self):
            try:
                raise KeyError("inner")
            except KeyError as k:
                raise RuntimeError("outer", {"k": [1, 2, (3, 4)]}) from k

        def raise_recursion(self):
            def f():
                return f()
            return f()

        def return_unser(self):
            return threading.Lock()

        def return_generator_bad(self):
            def g():
                yield 1
                raise Unser("gen")
            return g()

        def numbers(self, tag, n):
            return ([tag, i] for i in range(n))       # a well-behaved client's own item stream

        # item streams a hostile client opens and then abandons (every kind of iterator a method may legally return)
        def stream_list(self):
            return iter([1, 2, 3])

        def stream_map(self):
            return map(str, [1, 2, 3])

        def stream_gen(self):
            return (i for i in range(5))

        def stream_custom(self):
            class It(object):
                def __iter__(self):
                    return self

                def __next__(self):
                    return 1
            return It()
    return Svc()


U32 = [0, 1, 2, 39, 40, 41, 255, 256, 65535, 65536, 2 ** 31 - 1, 2 ** 31, 2 ** 32 - 2, 2 ** 32 - 1]


def valid_connect(P, ser, objid="svc"):
    return wire.encode(wire.CONNECT, 0, 0, ser.serializer_id, ser.dumps({"handshake": "hello", "object": objid}))


def valid_invoke(P, ser, method="echo", args=("tok",), objid="svc", seq=1, flags=0, anns=()):
    return wire.encode(wire.INVOKE, flags, seq, ser.serializer_id, ser.dumpsCall(objid, method, args, {}), anns)


def deep(n):
    v = []
    for _ in range(n):
        v = [v]
    return v


def hostile_items(P, r, ser, base_kind):
    """generator of (label, bytes) hostile items derived from a valid CONNECT or INVOKE"""
    base = valid_connect(P, ser) if base_kind == "connect" else valid_invoke(P, ser)
    h = wire.parse_header(base)
    body = base[40:]
    mx = P.config.MAX_MESSAGE_SIZE

    def hdr(**kw):
        f = dict(msgtype=base[6], flags=h.raw_flags, seq=h.seq, ser=base[7], data=body, anns=(), version=wire.VERSION, magic=wire.MAGIC, data_len=None, ann_len=None, tag=b"PYRO", reserved=0)
        f.update(kw)
        return wire.encode(f["msgtype"], f["flags"], f["seq"], f["ser"], f["data"], f["anns"], version=f["version"], magic=f["magic"], data_len=f["data_len"],
                           ann_len=f["ann_len"], tag=f["tag"], reserved=f["reserved"])
    items = []
    for v in (wire.VERSION - 1, wire.VERSION + 1, 0, 65535):
        items.append(("version=%d" % v, hdr(version=v)))
    for v in (wire.MAGIC - 1, wire.MAGIC + 1, 0, 65535):
        items.append(("magic=%d" % v, hdr(magic=v)))
    for t in (0, 2, 3, 5, 6, 7, 255, 1 if base_kind == "invoke" else 4):
        items.append(("msgtype=%d" % t, hdr(msgtype=t)))
    for s in (0, 5, 42, 255, 1, 2, 3, 4):
        items.append(("serializer=%d" % s, hdr(ser=s)))
    for b in range(16):
        items.append(("flag-bit-%d" % b, hdr(flags=1 << b)))
    items.append(("flags-all", hdr(flags=0xFFFF)))
    for s in (0, 65535):
        items.append(("seq=%d" % s, hdr(seq=s)))
    for v in U32 + [mx - 1, mx, mx + 1, len(body) - 1, len(body) + 1]:
        if v != len(body) and 0 <= v < 2 ** 32:
            items.append(("data_len=%d" % v, hdr(data_len=v)))
    for v in U32 + [mx + 1, len(body), len(body) + 1]:
        if 0 < v < 2 ** 32:
            items.append(("ann_len=%d" % v, hdr(ann_len=v)))
            items.append(("ann_len=%d,data_len-adjusted" % v, hdr(ann_len=v, data_len=max(0, len(body) - v))))
    for k in range(0, len(base)):
        items.append(("truncate@%d" % k, base[:k]))
    items.append(("tag", hdr(tag=b"PYRX")))
    items.append(("reserved", hdr(reserved=0xFFFF)))
    ann = [(b"ABCD", b"12345")]
    good_ann = wire.encode(base[6], 0, 1, base[7], body, ann)
    items.append(("annotation-ok", good_ann))
    if base_kind == "invoke":
        # well-framed requests with a trace id of the hostile client's choosing (small, and as large as the message limit lets it be)
        items.append(("trace-id", wire.encode(base[6], 0, 1, base[7], body, [(b"TRID", b"HOSTILE-TRACE-ID")])))
        items.append(("trace-id-large", wire.encode(base[6], 0, 1, base[7], body, [(b"TRID", b"H" * 60000)])))
    items.append(("annotation-len-overrun", good_ann[:44] + wire.u32(9999) + good_ann[48:]))
    items.append(("annotation-len-underrun", good_ann[:44] + wire.u32(1) + good_ann[48:]))
    items.append(("annotation-nonascii-id", good_ann[:40] + b"\xff\xfe\xfd\xfc" + good_ann[44:]))
    items.append(("annotation-huge-count", wire.encode(base[6], 0, 1, base[7], b"", [(b"A%03d" % i, b"") for i in range(400)])))
    items.append(("compressed-flag-on-raw", hdr(flags=wire.F_COMPRESSED)))
    items.append(("compressed-bomb-ish", hdr(flags=wire.F_COMPRESSED, data=zlib.compress(b"\0" * 3000000))))
    items.append(("compressed-truncated", hdr(flags=wire.F_COMPRESSED, data=zlib.compress(body * 20)[:-5])))
    items.append(("keepserialized-no-blobinfo", hdr(flags=wire.F_KEEPSER)))
    items.append(("corr-flag-zero-id", hdr(flags=wire.F_CORR)))
    shapes = [None, 5, "str", [], ["svc"], ["svc", "echo"], ["svc", "echo", ["tok"]], ["svc", "echo", ["tok"], {}, "extra"], [5, "echo", [], {}], ["svc", 5, [], {}],
              ["svc", None, [], {}], ["svc", ["echo"], [], {}], ["svc", "echo", "notalist", {}], ["svc", "echo", [], []], ["svc", "echo", [], {"1": 2}], ["svc", "echo", [], None],
              ["svc", "echo", None, None], ["nosuch", "echo", ["t"], {}], ["svc", "nosuch", [], {}], ["svc", "_private", [], {}], ["svc", "__init__", [], {}],
              ["Pyro.Daemon", "get_metadata", ["nosuch"], {}], ["Pyro.Daemon", "get_next_stream_item", ["nosuch"], {}], ["Pyro.Daemon", "close_stream", [5], {}],
              ["svc", "echo", [{"__class__": "a__b"}], {}], ["svc", "echo", [{"__class__": "os.system"}], {}], ["svc", "echo", [deep(150)], {}],
              ["svc", "raise_unser", [], {}], ["svc", "raise_badstr", [], {}], ["svc", "raise_badrepr", [], {}], ["svc", "raise_local", [], {}], ["svc", "raise_huge", [], {}],
              ["svc", "raise_nested", [], {}], ["svc", "raise_recursion", [], {}], ["svc", "return_unser", [], {}], ["svc", "return_generator_bad", [], {}], ["svc", "raise_builtin_unser", [], {}], ["svc", "raise_value_unser", [], {}],
              ["svc", "stream_list", [], {}], ["svc", "stream_map", [], {}], ["svc", "stream_gen", [], {}], ["svc", "stream_custom", [], {}],
              ["svc", "echo", ["x"] * 3, {}], ["svc", "echo", [], {"token": 1, "other": 2}], ["svc", "<batch>", [["echo", ["t"], {}], ["nosuch", [], {}]], {}],
              ["svc", "__getattr__", ["nosuch"], {}], ["svc", "__setattr__", ["echo"], {}], ["svc", "__getattr__", [], {}]]
    import json
    import marshal
    import msgpack
    import serpent
    for sh in shapes:
        try:
            if ser.serializer_id == 3:
                payload = json.dumps(dict(zip(["object", "method", "params", "kwargs"], sh)) if isinstance(sh, list) and len(sh) == 4 else sh).encode()
            elif ser.serializer_id == 1:
                payload = serpent.dumps(tuple(sh) if isinstance(sh, list) else sh)
            elif ser.serializer_id == 2:
                payload = marshal.dumps(tuple(sh) if isinstance(sh, list) else sh)
            else:
                payload = msgpack.packb(sh)
        except Exception:
            continue
        items.append(("payload-shape:%s" % core.short(sh, 60), wire.encode(wire.INVOKE, 0, 3, ser.serializer_id, payload)))
        if isinstance(sh, list) and len(sh) >= 2 and sh[1] == "<batch>":
            items.append(("batch:%s" % core.short(sh, 40), wire.encode(wire.INVOKE, wire.F_BATCH, 3, ser.serializer_id, payload)))
    # a complete payload followed by more: a second complete call (of another method, with a recognisable token), half a call, junk
    second = valid_invoke(P, ser, "echo", ("INJECTED-BY-HOSTILE-CLIENT",))[40:]
    for mt, first in ((wire.INVOKE, valid_invoke(P, ser)[40:]), (wire.CONNECT, valid_connect(P, ser)[40:])):
        for what, tail in (("second-call", second), ("two-more-calls", second + second), ("half-a-call", second[:len(second) // 2]), ("junk", b"\x00\xff\x01"), ("nul", b"\x00")):
            items.append(("payload+trailing-%s:%d" % (what, mt), wire.encode(mt, 0, 3, ser.serializer_id, first + tail)))
    items.append(("nest-1100", wire.encode(wire.INVOKE, 0, 3, ser.serializer_id, (b"[" * 1100 + b"]" * 1100) if ser.serializer_id in (1, 3) else b"\x91" * 1100 + b"\xc0")))
    items.append(("oneway-to-raiser", valid_invoke(P, ser, "raise_unser", (), flags=wire.F_ONEWAY)))
    items.append(("ping", wire.encode(wire.PING, 0, 7, 42, b"ping")))
    items.append(("ping-huge", wire.encode(wire.PING, 0, 7, 42, b"p" * 100000)))
    for _ in range(12):
        items.append(("garbage", bytes(r.randrange(256) for _ in range(r.choice([1, 5, 6, 39, 40, 41, 200])))))
        b = bytearray(base)
        for _ in range(r.choice([1, 2, 5])):
            b[r.randrange(len(b))] = r.randrange(256)
        items.append(("byteflips", bytes(b)))
    return items


class Witness(threading.Thread):
    def __init__(self, fx, wid, sername):
        super().__init__(daemon=True, name="witness-%d" % wid)
        self.fx, self.wid, self.sername = fx, wid, sername
        self.stop = threading.Event()
        self.calls = 0
        self.problems = []
        self.idle_timeouts = 0
        self.slow_calls = 0
        self.watchdog = 90.0
        self.connected = threading.Event()

    def run(self):
        P = self.fx.P
        try:
            # (the client-side timeout is a watchdog, generous on purpose: the statement puts no bound on latency, and on a loaded machine
            # a correct reply can take many seconds; a reply that takes longer than 20 s is counted, one that never comes is the verdict)
            p = self.fx.proxy("svc", serializer=self.sername, timeout=self.watchdog)
            p._pyroBind()
            self.connected.set()
            conn = p._pyroConnection
            my_addr = conn.sock.getsockname()
            n = 0
            last_reply = time.monotonic()
            while not self.stop.is_set():
                n += 1
                tok = "w%d-%d" % (self.wid, n)
                if n % 9 == 4:
                    tok += "-" + "L" * 150000         # now and then a well-behaved client's request and reply are large (well within MAX_MESSAGE_SIZE)
                t_send = time.monotonic()
                want_exc = n % 5 == 0
                trid = ("w%d-%d" % (self.wid, n)).encode()
                P.callcontext.current_context.annotations = {"TRID": trid}
                try:
                    if want_exc:
                        try:
                            p.fail_key(tok)
                            got = "<returned normally>"
                        except KeyError as kx:
                            got = tok if kx.args == (tok,) and type(kx) is KeyError else "KeyError%r" % (kx.args,)
                        except P.errors.CommunicationError:
                            raise
                        except Exception as ox:
                            got = "%s: %s" % (type(ox).__name__, str(ox)[:120])
                    else:
                        got = p.echo(tok)
                except P.errors.CommunicationError as x:
                    ct = P.config.COMMTIMEOUT
                    timed_out_by_server = my_addr in getattr(self.fx, "server_timeouts", ())
                    if ct and (timed_out_by_server or (t_send - last_reply) > 0.25 * ct or (time.monotonic() - t_send) > 0.5 * ct):
                        # (... or the failing call itself took a good part of COMMTIMEOUT: client and daemon share this process, and on a loaded
                        # machine the sending thread can be starved in the middle of a large request while the server's receive timeout runs)
                        # this witness itself was idle for a good part of the server's COMMTIMEOUT (descheduled on a loaded machine; the server's
                        # own clock started even earlier): the server may legitimately have timed the idle connection out. Not a verdict.
                        # It is no longer a client that "was connected all along": it reconnects like any new client, which a full pool may
                        # refuse for a while ("no free workers" is a correct answer then)
                        self.idle_timeouts += 1
                        end = time.monotonic() + 20
                        while True:
                            try:
                                p._pyroRelease()
                                p._pyroBind()
                                break
                            except P.errors.CommunicationError as x2:
                                if "no free workers" not in str(x2) or time.monotonic() > end:
                                    raise
                                time.sleep(0.05)
                        conn = p._pyroConnection
                        my_addr = conn.sock.getsockname()
                        last_reply = time.monotonic()
                        continue
                    raise
                last_reply = time.monotonic()
                if last_reply - t_send > 20.0:
                    self.slow_calls += 1
                # the annotations of the reply: the daemon's own (its long-lived dict) and, for echo, this call's trace id - nobody else's
                ra = {k: bytes(v) for k, v in dict(P.callcontext.current_context.response_annotations or {}).items()}
                want_ra = {"NODE": b"c05-node"} if want_exc else {"NODE": b"c05-node", "TRID": trid}
                if got == tok and ra != want_ra:
                    self.problems.append("witness %d call %d: the reply carries annotations %s, its own are %s" % (self.wid, n, core.short(ra, 200), want_ra))
                    break
                if got != tok:
                    self.problems.append("witness %d %s %s, got %s" % (self.wid, "expected its call to raise KeyError" if want_exc else "sent", core.short(tok, 60), core.short(got, 200)))
                    break
                if p._pyroConnection is not conn:
                    self.problems.append("witness %d: connection was replaced" % self.wid)
                    break
                self.calls += 1
                time.sleep(0.002)
            p._pyroRelease()
        except Exception as x:
            self.connected.set()
            where = ""
            try:
                # direct evidence for the witness's report: what the daemon's threads are doing at this moment (no reply within the watchdog)
                import sys
                import traceback
                frames = sys._current_frames()
                parts = []
                for th in threading.enumerate():
                    if th.name.startswith(("daemon-loop", "Pyro-Worker", "Thread-")) and th.ident in frames and th is not threading.current_thread():
                        fr = traceback.extract_stack(frames[th.ident])[-3:]
                        parts.append("%s: %s" % (th.name, " < ".join("%s:%d %s" % (f.filename.rsplit("/", 1)[-1], f.lineno, f.name) for f in reversed(fr))))
                where = " ; server threads: " + " | ".join(parts[:6])
            except Exception:
                pass
            self.problems.append("witness %d failed after %d calls (this call sent %.1f s ago): %r%s" % (self.wid, self.calls, time.monotonic() - locals().get("t_send", time.monotonic()), x, where))


def attack_one(fx, P, ser, phase, label, data, ending, stall, rec, cfgkey):
    """one hostile connection; returns what the hostile client observed (for counters only)"""
    rec.case((phase, core.h64(data), ending, cfgkey), nontrivial=len(data) >= 40,
             sample={"phase": phase, "item": label, "bytes": len(data), "ending": ending} if rec.evaluations % 700 == 5 else None)
    rec.count("hostile_connections")
    try:
        # (against a TLS daemon every fifth hostile client does not bother with TLS at all: its bytes hit the TLS handshake)
        plain = fx.ssl and core.h64(data) % 5 == 0
        if plain:
            rec.count("plaintext_clients_of_tls_daemon")
        c = wire.RawClient(fx.location, timeout=3.0, use_ssl=False if plain else None)
    except OSError:
        rec.count("connect_failed")
        return
    try:
        if phase == "before":
            c.send(data)
        elif phase == "during":
            hs = valid_connect(P, ser)
            c.send(hs[:len(hs) // 2])
            c.send(data)
        else:
            try:
                m = c.handshake("svc", ser)
            except (EOFError, OSError, socket.timeout, wire.WireError):
                rec.count("refused_by_full_pool")
                return
            if m.type == wire.CONNECTFAIL:
                rec.count("refused_by_full_pool")
                return
            c.send(data)
        if stall:
            time.sleep(stall)
        if ending == "read-then-fin":
            c.sock.settimeout(0.3)
            try:
                m = c.recv_msg()
                if m.type == wire.CONNECTFAIL and b"no free workers" in bytes(m.data):
                    rec.count("refused_by_full_pool")
                if m.flags & wire.F_EXC or m.type == wire.CONNECTFAIL:
                    rec.count("error_replies_seen")
            except Exception:
                pass
    except OSError:
        pass
    finally:
        c.close(rst=(ending == "rst"))


def stream_guess_phase(fx, P, rec, cfgkey, pay):
    """a hostile client tries to get at a well-behaved client's item stream by guessing its id: it opens a stream of its own just before and
    just after the victim's, and asks for every id 'near' its own two (numeric neighbours; and, wherever its two ids differ in one field
    only, every value of that field in between). None of its guesses may be answered with an item, and the victim receives its whole stream."""
    import uuid
    ser = P.serializers.serializers["serpent"]
    rec.case(("stream-guess", cfgkey), nontrivial=True)
    hc = wire.RawClient(fx.location, timeout=10.0)
    vp = fx.proxy("svc", serializer="serpent", timeout=20.0)
    it = None
    saved_lifetime = P.config.ITER_STREAM_LIFETIME
    P.config.ITER_STREAM_LIFETIME = 0.0          # (the victim's stream must not simply expire while the guesser is busy)
    try:
        if hc.handshake("svc", ser).type != wire.CONNECTOK:
            rec.inconc("stream-guess phase: hostile client could not connect")
            return

        def open_own(tag):
            m = hc.invoke("svc", "numbers", (tag, 3), {}, ser)
            sid = bytes(dict(m.anns).get("STRM", b"")).decode()
            return uuid.UUID(sid) if sid else None
        vp._pyroBind()
        a = open_own("hostileA")
        it = vp.numbers("victim", 12)
        b = open_own("hostileB")
        got = [list(next(it)) for _ in range(3)]
        if a is None or b is None:
            rec.inconc("stream-guess phase: no stream id in the reply annotations")
            return
        guesses = []
        for base in (a, b):
            guesses += [uuid.UUID(int=(base.int + d) % (1 << 128)) for d in range(-40, 41) if d]
        fa, fb = list(a.fields), list(b.fields)
        for k in range(6):
            if all(fa[j] == fb[j] for j in range(6) if j != k) and 0 < abs(fa[k] - fb[k]) <= 60000:
                lo, hi = sorted((fa[k], fb[k]))
                for v in range(lo + 1, hi):
                    f = list(fa)
                    f[k] = v
                    guesses.append(uuid.UUID(fields=tuple(f)))
        stolen = []
        for g in guesses:
            m = hc.invoke("Pyro.Daemon", "get_next_stream_item", (str(g),), {}, ser)
            if not (m.flags & wire.F_EXC):
                item = ser.loads(m.data)
                if isinstance(item, (list, tuple)) and item and item[0] == "victim":
                    stolen.append((str(g), list(item)))
        rec.count("stream_ids_guessed", len(guesses))
        rest_error = None
        try:
            for x in it:
                got.append(list(x))
        except Exception as x:
            rest_error = x
        want = [["victim", i] for i in range(12)]
        if rest_error is not None and not stolen:
            rec.inconc("stream-guess phase: the victim's stream ended with %r (stream lifetime %.1f s; %d guesses were made)" % (rest_error, P.config.ITER_STREAM_LIFETIME, len(guesses)))
            return
        if stolen:
            rec.violation("foreign-stream-item-delivered-to-guesser", "a client that opened streams %s and %s and asked for %d ids near them was handed item(s) of another client's stream: %r; "
                          "that client received %r" % (a, b, len(guesses), stolen[:3], [g[1] for g in got]), pay)
        elif got != want:
            rec.violation("witness-disturbed", "stream-guess phase: the well-behaved client's stream delivered %r" % ([g[1] for g in got],), pay)
        else:
            rec.count("stream_guess_phases_ok")
    except Exception as x:
        rec.inconc("stream-guess phase failed in the harness: %r" % (x,))
    finally:
        try:
            if it is not None:
                it.close()
        except Exception:
            pass
        vp._pyroRelease()
        hc.close()
        P.config.ITER_STREAM_LIFETIME = saved_lifetime


def stalled_phase(fx, P, rec, cfgkey, pay):
    """thread-pool server: clients that stall in the middle of their handshake and do NOT go away (nothing sent / a prefix of the header / the
    header and half of the body) each occupy a worker of their own - and nothing else: new well-behaved clients arriving meanwhile complete
    their handshake and are served. (Not asked of the single-threaded multiplex server, where a peer stalling mid-message without a timeout
    is the documented design.)"""
    import socket as _s
    ser = P.serializers.serializers["marshal"]
    full = valid_connect(P, ser)
    stalled = []
    try:
        for prefix in (b"", full[:10], full[:40 + (len(full) - 40) // 2]):
            c = _s.socket(_s.AF_UNIX if isinstance(fx.location, str) else _s.AF_INET, _s.SOCK_STREAM)
            c.settimeout(5.0)
            c.connect(fx.location)
            if prefix:
                c.sendall(prefix)
            stalled.append(c)
        time.sleep(0.05)
        ok, err = 0, None
        t0 = time.time()
        while ok < 3 and time.time() - t0 < 12:
            try:
                with fx.proxy("svc", timeout=4.0) as p:
                    tok = "while-stalled-%d" % ok
                    if p.echo(tok) == tok:
                        ok += 1
            except Exception as x:
                err = x
        rec.case(("stalled-handshakes", cfgkey), nontrivial=True)
        if ok < 3:
            if not fx.loop_alive():
                rec.violation("request-loop-died", "request loop dead while clients stalled in their handshake: %r" % (fx.loop_exc,), pay)
            else:
                rec.violation("new-clients-blocked-by-stalled-tls-handshake" if fx.ssl else "new-clients-blocked-by-stalled-handshake", "with 3 clients stalled in the middle of their handshake (nothing sent / 10 header bytes / half a body) and still connected, only %d of 3 "
                              "new clients were served within 12 s (last error %r); busy workers %r of %r (cfg %s)" % (ok, err, fx.busy_count(), P.config.THREADPOOL_SIZE, cfgkey), pay)
                if fx.ssl:
                    return True      # (recorded; the rest of this configuration's verdict material is still judged once the stalled clients are gone)
            return False
        rec.count("served_while_handshakes_stalled", ok)
        return True
    finally:
        for c in stalled:
            try:
                c.close()
            except Exception:
                pass


def slow_oneway_phase(fx, P, rec, cfgkey, pay):
    """a client asks for a slow method as a ONEWAY call (the flag is the peer's to set), and goes away - garbage first, then a reset - while the
    method is still running: that connection's worker / selector slot is given back at once, and others are served, while the method runs on"""
    ser = P.serializers.serializers["marshal"]
    base = fx.live_connection_count()
    keys = []
    try:
        for k in range(3):
            key = "nap-%s-%d" % (cfgkey, k)
            NAPS[key] = (threading.Event(), threading.Event())
            keys.append(key)
            c = wire.RawClient(fx.location, timeout=5.0)
            m = c.handshake("svc", ser)
            if m.type != wire.CONNECTOK:
                c.close()
                rec.inconc("slow oneway phase: handshake refused")
                return True
            c.invoke("svc", "nap", (key,), {}, ser, flags=wire.F_ONEWAY)
            if not NAPS[key][0].wait(5):
                c.close()
                rec.inconc("slow oneway phase: the method did not start")
                return True
            c.send(b"\x00garbage after the oneway request\xff" * 3)
            c.close(rst=(k == 1))
        rec.case(("slow-oneway", cfgkey), nontrivial=True)
        freed = fx.wait_until(lambda: fx.live_connection_count() <= base, 3.0)
        still_running = [k for k in keys if not NAPS[k][1].is_set()]
        ok = False
        err = None
        try:
            with fx.proxy("svc", timeout=3.0) as p:
                ok = p.echo("during-naps") == "during-naps"
        except Exception as x:
            err = x
        if not fx.loop_alive():
            rec.violation("request-loop-died", "request loop dead after clients left their running oneway calls behind: %r" % (fx.loop_exc,), pay)
            return False
        if not freed or not ok:
            rec.violation("slot-held-by-running-oneway-call", "3 clients started a slow method as a oneway call and disconnected while it was running (%d still running): "
                          "%s slot(s) still occupied 3 s later (before: %s); a new client's call %s (cfg %s)" % (
                              len(still_running), fx.live_connection_count(), base, "succeeded" if ok else "failed with %r" % (err,), cfgkey), pay)
            return False
        rec.count("slow_oneway_leavers_ok")
        # one more client stays connected and piles up oneway requests for the slow method (more than any pool size in use here): the oneway
        # calls of a well-behaved client are carried out all the same
        hk = "nap-%s-pile" % cfgkey
        NAPS[hk] = (threading.Event(), threading.Event())
        keys.append(hk)
        hc = wire.RawClient(fx.location, timeout=5.0)
        try:
            if hc.handshake("svc", ser).type == wire.CONNECTOK:
                for _ in range(P.config.THREADPOOL_SIZE + 25):
                    hc.invoke("svc", "nap", (hk,), {}, ser, flags=wire.F_ONEWAY)
                NAPS[hk][0].wait(5)
                hc.ping(seq=5)          # (everything sent before has been taken in)
                mk = "mark-%s" % cfgkey
                MARKS[mk] = threading.Event()
                with fx.proxy("svc", timeout=5.0) as p:
                    r1 = p._pyroInvoke("mark", (mk,), {}, flags=P.protocol.FLAGS_ONEWAY)
                    done = MARKS[mk].wait(4.0)
                    echoed = p.echo("behind-the-pile")
                MARKS.pop(mk, None)
                if r1 is not None or not done or echoed != "behind-the-pile":
                    rec.violation("oneway-call-of-other-client-not-carried-out", "while one client had %d oneway requests for a slow method waiting, a well-behaved client's own oneway call was %s within 4 s "
                                  "(its next ordinary call returned %r) (cfg %s)" % (P.config.THREADPOOL_SIZE + 25, "carried out" if done else "NOT carried out", echoed, cfgkey), pay)
                    return False
                rec.count("oneway_calls_served_behind_a_pile")
        finally:
            NAPS[hk][1].set()
            hc.close()
        return True
    finally:
        for k in keys:
            NAPS[k][1].set()
        time.sleep(0.05)
        for k in keys:
            NAPS.pop(k, None)


def pipeline_flood_phase(fx, P, rec, cfgkey, pay):
    """a client that pipelines: it keeps several complete, well-framed, cheap requests queued on its connection at all times (it reads the
    replies, so nothing ever blocks on it) and does not stop until a well-behaved client that was connected all along has been served.
    Decided by order, not by a clock: on a daemon that treats its connections fairly the witness is served while the flood goes on; the
    60 s watchdog only ends a run in which it never is."""
    ser = P.serializers.serializers["marshal"]
    rec.case(("pipeline-flood", cfgkey), nontrivial=True)
    wp = fx.proxy("svc", serializer="marshal", timeout=60.0)
    hc = None
    stop = threading.Event()
    sent = [0]
    try:
        wp._pyroBind()
        hc = wire.RawClient(fx.location, timeout=20.0)
        if hc.handshake("svc", ser).type != wire.CONNECTOK:
            rec.count("pipeline_flood_refused")
            return True
        batch = b"".join(wire.encode(wire.PING, 0, (i % 60000) + 1, ser.serializer_id, b"ping") for i in range(50)) + \
            b"".join(wire.encode(wire.INVOKE, 0, 7, ser.serializer_id, ser.dumpsCall("svc", "echo", ("p",), {})) for _ in range(50))

        def flood():
            # (sender: the connection's backlog at the server is never empty while this runs)
            try:
                while not stop.is_set():
                    hc.send(batch)
            except Exception:
                pass

        def drain():
            # (reader: every answer is read, nothing ever blocks on this client)
            try:
                while True:
                    hc.recv_msg()
                    sent[0] += 1
            except Exception:
                pass
        th = threading.Thread(target=flood, daemon=True)
        th2 = threading.Thread(target=drain, daemon=True)
        th.start()
        th2.start()
        end = time.monotonic() + 10
        while sent[0] < 300 and time.monotonic() < end and th.is_alive():
            time.sleep(0.005)
        try:
            ok = wp.echo("served-during-the-flood") == "served-during-the-flood"
            err = None
        except Exception as x:
            ok, err = False, x
        stop.set()
        th.join(30)
        try:
            hc.close()
        except Exception:
            pass
        th2.join(30)
        if not ok:
            rec.violation("witness-disturbed", "a client kept a hundred well-framed cheap requests queued on its connection (%d answered so far); a client connected all along was not served "
                          "while that went on: %r (cfg %s)" % (sent[0], err, cfgkey), dict(pay, pipeline_flood=True))
            return False
        rec.count("served_during_pipeline_flood")
        return True
    finally:
        stop.set()
        for c in (hc,):
            try:
                if c is not None:
                    c.close()
            except Exception:
                pass
        try:
            wp._pyroRelease()
        except Exception:
            pass


def refused_lingerers_phase(fx, P, rec, cfgkey, pay):
    """clients whose connect attempt is REFUSED (garbage, another protocol version, an unknown object) and who then simply stay connected,
    reading nothing, closing nothing: the refusal ends the daemon's business with them - their slots are given back at once and everybody
    else is served (both server types: a refused connection is none of the single-threaded server's clients)"""
    import socket as _s
    ser = P.serializers.serializers["marshal"]
    good = valid_connect(P, ser)
    firsts = [b"\x00\x01 this is no pyro message at all \xff" * 2, good[:4] + b"\x7f\x7f" + good[6:], valid_connect(P, ser, objid="no-such-object-here"),
              wire.encode(wire.INVOKE, 0, 1, ser.serializer_id, ser.dumpsCall("svc", "echo", ("x",), {}))]
    base = fx.live_connection_count()
    held = []
    try:
        for first in firsts:
            c = _s.socket(_s.AF_UNIX if isinstance(fx.location, str) else _s.AF_INET, _s.SOCK_STREAM)
            c.settimeout(5.0)
            c.connect(fx.location)
            c.sendall(first)
            held.append(c)
        rec.case(("refused-lingerers", cfgkey), nontrivial=True)
        ok, err = 0, None
        t0 = time.time()
        while ok < 3 and time.time() - t0 < 12:
            try:
                with fx.proxy("svc", timeout=4.0) as p:
                    tok = "beside-refused-%d" % ok
                    if p.echo(tok) == tok:
                        ok += 1
            except Exception as x:
                err = x
        freed = fx.wait_until(lambda: fx.live_connection_count() <= base, 4.0)
        if not fx.loop_alive():
            rec.violation("request-loop-died", "request loop dead while refused clients stayed connected: %r" % (fx.loop_exc,), pay)
            return False
        if ok < 3 or not freed:
            rec.violation("refused-clients-keep-slots", "4 clients whose connect attempt was refused (garbage / other protocol version / unknown object / INVOKE first) stayed connected without reading or closing: "
                          "%d of 3 new clients were served within 12 s (last error %r); %s slot(s) occupied, %s before (cfg %s)" % (ok, err, fx.live_connection_count(), base, cfgkey), pay)
            return False
        rec.count("refused_lingerers_ok")
        return True
    finally:
        for c in held:
            try:
                c.close()
            except Exception:
                pass


def run_config(P, cfg, rec, r, n_items):
    fx = fixture.Fixture(servertype=cfg["servertype"], unix=cfg.get("unix", False), ssl=cfg.get("ssl", False), start_loop=not cfg.get("bc"), COMMTIMEOUT=cfg["commtimeout"], THREADPOOL_SIZE=cfg["pool"], THREADPOOL_SIZE_MIN=2, ITER_STREAMING=True,
                         ITER_STREAM_LINGER=0.2, ITER_STREAM_LIFETIME=1.0)      # abandoned streams expire (housekeeping) while the attack is still going on
    cfgkey = "%s/%s/%s%s%s" % (cfg["servertype"], cfg["commtimeout"], cfg["pool"], "/unix" if cfg.get("unix") else "", "/bc" if cfg.get("bc") else "")
    pay = {"cfg": cfg}
    bc = None
    # observation only: which connections the daemon itself ended with a (server-side) receive timeout, by peer address. A well-behaved client
    # whose connection was timed out by the server (it was descheduled for longer than COMMTIMEOUT on a loaded machine) is told so by this
    # record, not by guessing from its own clock
    fx.server_timeouts = set()
    inner_handle = fx.daemon.handleRequest

    def observed_handle_request(conn):
        try:
            return inner_handle(conn)
        except P.errors.TimeoutError:
            try:
                fx.server_timeouts.add(conn.sock.getpeername())
            except Exception:
                pass
            raise
    fx.daemon.handleRequest = observed_handle_request
    fx.daemon.reply_annotations = {"NODE": b"c05-node"}       # (the application's long-lived Daemon.annotations() dict)
    try:
        fx.register(make_service(P), "svc")
        if cfg.get("bc"):
            # the name server's UDP discovery responder next to the daemon: in the daemon's own loop (multiplex: Daemon.combine, the documented
            # use of its adapter) or in a thread of its own (thread server). Datagrams are client input too.
            import Pyro5.nameserver
            bc = Pyro5.nameserver.BroadcastServer(fx.daemon.uriFor("svc"), bchost="127.0.0.1", bcport=0)
            if cfg["servertype"] == "multiplex":
                fx.daemon.combine(bc)
                bc_thread = None
            else:
                bc_thread = bc.runInThread()
            fx.thread.start()
            rec.count("daemons_with_broadcast_responder")
        # clients of every serializer are connected all along (a small pool leaves room for two: which two rotates with the configuration)
        wsers = list(fixture.SERIALIZERS)
        r.shuffle(wsers)
        witnesses = [Witness(fx, i, wsers[i]) for i in range(4 if cfg["pool"] > 5 else 2)]
        for w in witnesses:
            # (the thorough tier usually runs on a machine that is busy with other tiers: there the watchdog is ten minutes, far beyond any
            # processing time; the shard's own watchdog stands behind it)
            w.watchdog = 90.0 if rec.tier == "quick" else 600.0
        for w in witnesses:
            w.start()
        for w in witnesses:
            w.connected.wait(10)
        sers = [P.serializers.serializers[s] for s in fixture.SERIALIZERS]
        work = []
        for ser in sers:
            for base_kind in ("connect", "invoke"):
                for label, data in hostile_items(P, r, ser, base_kind):
                    phase = r.choice(["before", "after", "after", "during"]) if base_kind == "invoke" else r.choice(["before", "before", "during", "after"])
                    work.append((ser, phase, label, data, r.choice(["fin", "rst", "read-then-fin"]), r.choice([0, 0, 0, 0.005, 0.03])))
        r.shuffle(work)
        if n_items:
            # (a sample in the quick tier; the method-raises-unserialisable items are always part of it)
            keep = [w for w in work if "raise_" in w[2] or "stream_" in w[2] or "trailing-" in w[2]]
            rest = [w for w in work if not ("raise_" in w[2] or "stream_" in w[2] or "trailing-" in w[2])]
            work = keep + rest[:max(0, n_items - len(keep))]
            r.shuffle(work)
        lock = threading.Lock()
        idx = [0]
        sent_log = []

        def attacker():
            while True:
                with lock:
                    if idx[0] >= len(work) or rec.should_stop(4):
                        return
                    item = work[idx[0]]
                    idx[0] += 1
                ser, phase, label, data, ending, stall = item
                sent_log.append((phase, label))
                attack_one(fx, P, ser, phase, label, data, ending, stall, rec, cfgkey)
                # liveness is read directly, not guessed from a timeout
                if not fx.loop_alive():
                    return
        def udp_attacker():
            u = socket.socket(socket.AF_INET, socket.SOCK_DGRAM)
            rr = gen.rng(rec.seed, "c05-udp", cfgkey)
            grams = [b"", b"GET_NSURI", b"GET_NSURI\n", b"get_nsuri", b"\xff\xfe", b"GET_NSURI\xe9", "GET_NSURI\u20ac".encode("utf-8"), b"\x00" * 100, b"G" * 1500, b"\x80"]
            try:
                for k in range(300):
                    g = rr.choice(grams) if k % 3 else bytes(rr.randrange(256) for _ in range(rr.randrange(1, 120)))
                    try:
                        u.sendto(g, ("127.0.0.1", bc.getPort()))
                    except OSError:
                        pass
                    rec.count("hostile_datagrams")
                    if k % 50 == 0:
                        time.sleep(0.01)
            finally:
                u.close()
        nthreads = 4 if cfg["pool"] > 5 else 6
        ts = [threading.Thread(target=attacker, daemon=True) for _ in range(nthreads)] + ([threading.Thread(target=udp_attacker, daemon=True)] if bc is not None else [])
        for t in ts:
            t.start()
        for t in ts:
            t.join(200)
        time.sleep(0.05)
        # ---- verdict material
        faults = fixture.take_faults()
        died = [t for k, t in faults if k == "thread-exception" and "oneway-call" not in t]
        last = sent_log[-8:]
        if not fx.loop_alive():
            rec.violation("request-loop-died", "the daemon's request loop stopped (%r) during the attack; last hostile items: %r; thread faults: %s" % (
                fx.loop_exc, last, core.short(died, 500)), dict(pay, last=last))
            return
        if died:
            rec.violation("server-thread-died", "a server thread died with an unhandled exception: %s; last hostile items %r" % (core.short(died[0], 700), last), dict(pay, last=last))
            return
        for w in witnesses:
            w.stop.set()
        for w in witnesses:
            w.join(w.watchdog + 10)
        for w in witnesses:
            if w.problems:
                rec.violation("witness-disturbed", "%s (cfg %s); last hostile items %r" % (w.problems[0], cfgkey, last), dict(pay, last=last))
                return
            if w.is_alive():
                rec.inconc("witness %d did not stop within the watchdog" % w.wid)
                return
            rec.count("witness_calls_ok", w.calls)
            rec.count("witness_idle_timeouts_tolerated", w.idle_timeouts)
            rec.count("witness_calls_slower_than_20s", w.slow_calls)
        # fresh handshake after the attack
        ok = False
        err = None
        t0 = time.time()
        while time.time() - t0 < 10 and not ok:
            try:
                with fx.proxy("svc", timeout=5.0) as p:
                    ok = p.echo("after-attack") == "after-attack"
            except Exception as x:
                err = x
                time.sleep(0.2)
        if not ok:
            if fx.loop_alive():
                rec.violation("daemon-does-not-accept-after-attack", "no fresh handshake+call succeeded within 10 s after the attack (%r) although the loop thread is alive; busy=%r" % (err, fx.busy_count()), dict(pay, last=last))
            else:
                rec.violation("request-loop-died", "request loop dead after the attack: %r" % (fx.loop_exc,), dict(pay, last=last))
            return
        rec.count("post_attack_handshake_ok")
        if bc is not None:
            u = socket.socket(socket.AF_INET, socket.SOCK_DGRAM)
            u.settimeout(1.0)
            answer = None
            try:
                for _ in range(5):
                    u.sendto(b"GET_NSURI", ("127.0.0.1", bc.getPort()))
                    try:
                        answer, _addr = u.recvfrom(500)
                        break
                    except socket.timeout:
                        continue
            finally:
                u.close()
            if bc_thread is not None and not bc_thread.is_alive():
                rec.violation("server-thread-died", "the discovery responder's thread died during the attack (hostile datagrams)", dict(pay, last=last))
                return
            if answer is None or not answer.startswith(b"PYRO:svc@"):
                rec.violation("discovery-responder-silent-after-attack", "after the attack a GET_NSURI datagram got %r (5 tries)" % (answer,), dict(pay, last=last))
                return
            rec.count("discovery_responder_ok")
        if cfg["pool"] > 5 and not cfg.get("ssl"):
            if not refused_lingerers_phase(fx, P, rec, cfgkey, dict(pay, last=last)):
                return
        if cfg["pool"] > 5 and not cfg.get("ssl"):
            if not slow_oneway_phase(fx, P, rec, cfgkey, dict(pay, last=last)):
                return
        if cfg["servertype"] == "thread" and cfg["pool"] > 5:
            if not stalled_phase(fx, P, rec, cfgkey, dict(pay, last=last)):
                return
        stream_guess_phase(fx, P, rec, cfgkey, dict(pay, last=last))
        if not cfg.get("ssl"):
            if not pipeline_flood_phase(fx, P, rec, cfgkey, dict(pay, last=last)):
                return
        # streams that hostile clients opened and abandoned: the housekeeping pass that drops them has run before the verdict is taken
        opened = sum(1 for ph, lb in sent_log if "stream_" in lb)
        if opened:
            swept = fx.wait_until(lambda: not fx.daemon.streaming_responses, 8.0)
            rec.count("abandoned_streams_swept" if swept else "abandoned_streams_not_swept_in_time", opened)
            if not fx.loop_alive():
                rec.violation("request-loop-died", "request loop died while sweeping abandoned item streams: %r" % (fx.loop_exc,), dict(pay, last=last))
                return
            died = [t for k, t in fixture.take_faults() if k == "thread-exception" and "oneway-call" not in t]
            if died:
                rec.violation("server-thread-died", "a server thread died while sweeping abandoned item streams: %s" % core.short(died[0], 700), dict(pay, last=last))
                return
        settled = fx.wait_until(lambda: fx.live_connection_count() == 0, 10.0)
        if not settled:
            rec.violation("workers-stranded-after-attack", "%s slot(s) still occupied 10 s after every client had closed (cfg %s)" % (fx.live_connection_count(), cfgkey), dict(pay, last=last))
            return
        rec.count("accounting_restored")
    finally:
        fx.stop()
        if bc is not None:
            try:
                bc.close()
            except Exception:
                pass


def plan(tier, seed):
    cfgs = []
    for st, pool in (("thread", 40), ("thread", 3), ("multiplex", 40)):
        for ct in (0.0, 0.6):
            cfgs.append({"servertype": st, "pool": pool, "commtimeout": ct})
    # the same attack with seeded yield injection into the thread server's pool / connection code: hostile connections that are refused at once
    # make workers finish while new connections are being accepted
    cfgs.append({"servertype": "thread", "pool": 40, "commtimeout": 0.0, "inject": True})
    cfgs.append({"servertype": "thread", "pool": 3, "commtimeout": 0.0, "inject": True})
    # daemons on a unix domain socket
    cfgs.append({"servertype": "multiplex", "pool": 40, "commtimeout": 0.0, "unix": True})
    cfgs.append({"servertype": "thread", "pool": 40, "commtimeout": 0.6, "unix": True})
    # daemons with the name server's UDP discovery responder next to them (combined into the loop / in its own thread)
    cfgs.append({"servertype": "multiplex", "pool": 40, "commtimeout": 0.0, "bc": True})
    cfgs.append({"servertype": "thread", "pool": 40, "commtimeout": 0.0, "bc": True})
    # daemons that speak TLS
    cfgs.append({"servertype": "thread", "pool": 40, "commtimeout": 0.0, "ssl": True})
    cfgs.append({"servertype": "multiplex", "pool": 40, "commtimeout": 0.6, "ssl": True})
    reps = 1 if tier == "quick" else 6
    n = 420 if tier == "quick" else 0
    return [{"cfg": c, "rep": i, "n_items": n} for c in cfgs for i in range(reps)]


def run_shard(shard, rec):
    P = fixture.pyro()
    r = gen.rng(rec.seed, "c05", repr(shard))
    if shard["cfg"].get("inject"):
        yieldinj.enable(("Pyro5/svr_threads.py",), 0.08, rec.seed * 31 + shard["rep"], max_sleep=0.001)
    try:
        run_config(P, shard["cfg"], rec, r, shard["n_items"])
    finally:
        if shard["cfg"].get("inject"):
            n, lines = yieldinj.disable()
            rec.count("injected_yields", n)


def replay(payload, rec):
    P = fixture.pyro()
    rec.case(("replay", repr(payload)[:80]))
    run_config(P, payload["cfg"], rec, gen.rng(rec.seed, "c05-replay"), 0)
