"""C10 - a remote iterator delivers exactly the server's items, once, in order.

A reference model of the daemon's stream table under a virtual clock (E6: Pyro5.server.time replaced from the harness) is
stepped in lock-step with a live daemon: open / next / close / disconnect / reconnect / housekeeping / advance. Between a
deadline passing and the next explicit housekeeping step the model allows either outcome (the code only forgets at
housekeeping), so the oracle is never stricter than the implementation's documented timing."""
import threading
import time as real_time

from vlib import core, gen, fixture

PROPERTY = "C10"
LEVEL = "exploration"
RULE = ("histories of ~18 steps over 1-3 proxies and 1-5 concurrently open streams: open (sequences empty / short / long / raising at index j / custom "
        "iterator objects / generators), next, close, disconnect, reconnect, housekeeping, clock advance; x ITER_STREAMING on/off x ITER_STREAM_LIFETIME "
        "{0,5} x ITER_STREAM_LINGER {0,3} x both server types. distinct = (history hash, step); non-trivial = the step concerns an open stream")
ASSUMPTIONS = ["the virtual clock starts at 1e9 (a linger stamp of 0 means 'none' in Pyro's code)", "after every client-side disconnect / oneway close the harness waits for the server-side event (10 s watchdog, expiry = inconclusive)",
               "a stream whose deadline has passed may be forgotten at any time until the next explicit housekeeping step, after which it must be gone"]
REQUIRED_REACH = ["racing_reconnects_followed_to_the_end", "shards_with_daemon_annotations_hook", "relayed_streams_ok", "reconnect_fetches_ok", "cross_thread_closes_ok", "connected_socket_streams_ok", "histories_with_failing_disconnect_hook", "items_ok", "stopiteration_ok", "generator_exception_ok", "forgotten_ok", "reconnect_continues", "linger_expired", "lifetime_expired", "table_checked", "streaming_disabled_ok", "racing_reconnects", "server_ended_connections", "housekeeping_during_fetch", "histories_under_one_correlation_id", "concurrent_streams_checked", "slow_item_streams_checked", "natural_housekeeping_ok"]
SHARD_TIMEOUT = {"quick": 480, "thorough": 3000}


class VClock:
    def __init__(self):
        self.now = 1e9

    def time(self):
        return self.now

    def sleep(self, s):
        real_time.sleep(s)

    def monotonic(self):
        return self.now


class CountingIter(object):
    def __init__(self, items, boom=None):
        self.items, self.i, self.boom = items, 0, boom

    def __iter__(self):
        return self

    def __next__(self):
        if self.i >= len(self.items):
            if self.boom:
                raise ValueError(self.boom)       # an iterator OBJECT (a cursor, a reader) that fails instead of coming to an end
            raise StopIteration
        self.i += 1
        return self.items[self.i - 1]


class SlowIter(CountingIter):
    """item number `slow_at` takes `delay` seconds to produce (a database cursor, a sensor...)"""

    def __init__(self, items, slow_at, delay):
        CountingIter.__init__(self, items)
        self.slow_at, self.delay = slow_at, delay

    def __next__(self):
        if self.i == self.slow_at:
            __import__("time").sleep(self.delay)
        return CountingIter.__next__(self)


SPECS = {}     # key -> (items, raises_at_end, kind)
GATES = {}     # key -> (entered Event, release Event): while present, the generator of that key parks before producing its next item


def make_service(P):
    @P.server.expose
    class Src(object):
        def open(self, key):
            items, raises, kind = SPECS[key]
            if kind == "gen":
                def g():
                    for x in items:
                        gate = GATES.get(key)
                        if gate is not None:
                            gate[0].set()
                            gate[1].wait(5)          # a generator that is slow to produce an item (the fetch is in progress meanwhile)
                        yield x
                    gate = GATES.get(key)
                    if gate is not None:
                        gate[0].set()
                        gate[1].wait(5)              # (slow to come to its end, too)
                    if raises:
                        raise ValueError("boom-" + key)
                return g()
            if kind == "iterobj":
                return CountingIter(list(items), "boom-" + key if raises else None)
            if kind == "listiter":
                return iter(list(items))
            if isinstance(kind, tuple) and kind[0] == "slow":
                return SlowIter(list(items), kind[1], kind[2])
            return iter(())

        def ping(self):
            return "pong"
    return Src()


def gen_spec(r, key):
    n = r.choice([0, 0, 1, 2, 3, 5, 12])
    items = [[key, i, r.choice(["x", None, 1.5, {"k": [i]}])] for i in range(n)]
    kind = r.choice(["gen", "gen", "iterobj", "listiter"])
    raises = kind in ("gen", "iterobj") and r.random() < 0.35
    return (items, raises, kind)


class MStream:
    def __init__(self, sid, proxy_i, conn, items, raises, created):
        self.sid, self.proxy_i, self.conn = sid, proxy_i, conn
        self.items, self.raises = items, raises
        self.pos = 0
        self.state = "alive"        # alive | maybe | gone
        self.created = created
        self.linger_at = 0
        self.client_done = False
        self.key = self.kind = None


def run_history(fx, vclock, rec, r, cfg, nsteps, hh):
    P = fx.P
    d = fx.daemon
    r = r if isinstance(r, gen.TapeRNG) else gen.TapeRNG(base=r)
    pay = {"cfg": cfg, "steps": [], "tape": r.tape, "nsteps": nsteps, "clock0": vclock.now}
    nprox = r.randrange(1, 4)
    proxies = []
    conns = []
    # half of the histories run under ONE client-chosen correlation id (an application tracing a whole transaction): every request of the
    # history, stream opens included, carries the same id
    import uuid as _uuid
    P.callcontext.current_context.correlation_id = _uuid.UUID(int=r.randrange(1, 2 ** 64)) if r.random() < 0.5 else None
    if P.callcontext.current_context.correlation_id:
        rec.count("histories_under_one_correlation_id")
    # in a third of the histories the application's own clientDisconnect hook fails every time (the servers log that and go on): the daemon's
    # book-keeping of the departed connection's streams must be done all the same
    if r.random() < 0.33:
        rec.count("histories_with_failing_disconnect_hook")
        pay["hook_fails"] = True

        def failing_hook(conn):
            raise RuntimeError("application clientDisconnect hook failed")
        d.on_disconnect = failing_hook

    def connect(i):
        p = proxies[i]
        p._pyroBind()
        fx.wait_until(lambda: True, 0)
        conns[i] = conn_serial(fx)

    def conn_serial(fx):
        hs = fx.daemon.evlog.of("handshake")
        return hs[-1][2] if hs else None
    for i in range(nprox):
        p = fx.proxy("src", serializer=cfg["serializer"], timeout=10.0)
        proxies.append(p)
        conns.append(None)
        connect(i)
    streams = []      # (MStream, client iterator)
    keyn = [0]

    def fail(mech, msg, step):
        rec.violation(mech, "step %d %r: %s (cfg %r)" % (step, pay["steps"][-1], msg, cfg), dict(pay))
        return False

    def table():
        return set(d.streaming_responses.keys())

    def expire(now):
        for ms, _ in streams:
            if ms.state == "alive":
                if cfg["lifetime"] > 0 and now - ms.created > cfg["lifetime"]:
                    ms.state = "maybe"
                elif cfg["linger"] > 0 and ms.linger_at and now - ms.linger_at > cfg["linger"]:
                    ms.state = "maybe"
    try:
        for step in range(nsteps):
            k = r.random()
            live = [(ms, it) for ms, it in streams if not ms.client_done]
            if k < 0.2 or not streams:
                i = r.randrange(nprox)
                if proxies[i]._pyroConnection is None:
                    continue
                keyn[0] += 1
                key = "%s-%d" % (hh, keyn[0])
                SPECS[key] = gen_spec(r, key)
                pay["steps"].append(("open", i, key, SPECS[key][2], len(SPECS[key][0]), SPECS[key][1]))
                rec.case((repr(sorted(cfg.items())), hh, step), nontrivial=True, sample={"cfg": cfg, "step": list(map(str, pay["steps"][-1]))} if rec.evaluations % 600 == 5 else None)
                try:
                    it = proxies[i].open(key)
                except P.errors.ProtocolError as x:
                    if cfg["streaming"]:
                        return fail("stream-open-refused", "opening a stream failed: %r" % (x,), step)
                    rec.count("streaming_disabled_ok")
                    continue
                except Exception as x:
                    return fail("stream-open-refused", "opening a stream failed: %r" % (x,), step)
                if not cfg["streaming"]:
                    return fail("streaming-not-disabled", "ITER_STREAMING is off but open() returned %r" % (it,), step)
                ms = MStream(it.streamId, i, conns[i], SPECS[key][0], SPECS[key][1], vclock.now)
                ms.key, ms.kind = key, SPECS[key][2]
                streams.append((ms, it))
                if ms.sid not in table():
                    return fail("stream-not-registered", "the server's stream table does not hold the new stream", step)
            elif k < 0.62 and live:
                ms, it = r.choice(live)
                p = proxies[ms.proxy_i]
                if p._pyroConnection is None:
                    pay["steps"].append(("next-on-closed-proxy", ms.sid[:6]))
                    continue
                pay["steps"].append(("next", ms.sid[:6], ms.pos, ms.state))
                rec.case((repr(sorted(cfg.items())), hh, step), nontrivial=True)
                expire(vclock.now)
                try:
                    got = ("item", next(it))
                except StopIteration:
                    got = ("stop",)
                except ValueError as x:
                    got = ("valueerror", x.args)
                except P.errors.PyroError as x:
                    got = ("pyroerror", str(x))
                except Exception as x:
                    got = ("other", repr(x))
                # the connection may have changed (reconnect): the server re-associates the stream on a successful fetch
                if ms.state == "gone":
                    if got[0] not in ("pyroerror",):
                        return fail("items-from-forgotten-stream", "the stream was forgotten (per the model) but the client got %r" % (got,), step)
                    rec.count("forgotten_ok")
                    continue
                if ms.state == "maybe" and got[0] == "pyroerror" and "terminated" in got[1]:
                    ms.state = "gone"
                    rec.count("forgotten_ok")
                    continue
                if got[0] == "pyroerror":
                    return fail("live-stream-refused", "the stream is alive per the model (pos %d/%d, state %s) but the fetch failed: %s" % (ms.pos, len(ms.items), ms.state, got[1]), step)
                if got[0] == "other":
                    return fail("stream-unexpected-exception", "fetch raised %s" % got[1], step)
                # delivered something: order / loss / repetition / foreign items
                if ms.pos < len(ms.items):
                    if got[0] != "item" or not gen.deep_eq(normalise(got[1]), normalise(ms.items[ms.pos])):
                        return fail("stream-item-wrong", "expected item %d = %r, client got %r" % (ms.pos, ms.items[ms.pos], got), step)
                    ms.pos += 1
                    if ms.linger_at:
                        ms.linger_at = 0
                        ms.conn = conns[ms.proxy_i]
                        rec.count("reconnect_continues")
                        if ms.state == "maybe" and not (cfg["lifetime"] > 0 and vclock.now - ms.created > cfg["lifetime"]):
                            ms.state = "alive"
                    rec.count("items_ok")
                else:
                    if ms.raises:
                        if got[0] != "valueerror" or not (got[1] and str(got[1][0]).startswith("boom-")):
                            return fail("generator-exception-not-reraised", "the generator raised ValueError at the end, client got %r" % (got,), step)
                        rec.count("generator_exception_ok")
                    else:
                        if got[0] != "stop":
                            return fail("stopiteration-wrong", "source exhausted after %d items, client got %r" % (len(ms.items), got), step)
                        rec.count("stopiteration_ok")
                        ms.client_done = True
                    ms.state = "gone"
                    if ms.sid in table():
                        return fail("exhausted-stream-not-forgotten", "the server still holds a stream that ended", step)
            elif k < 0.7 and live:
                ms, it = r.choice(live)
                pay["steps"].append(("close", ms.sid[:6]))
                rec.case((repr(sorted(cfg.items())), hh, step), nontrivial=True)
                p = proxies[ms.proxy_i]
                had_conn = p._pyroConnection is not None
                try:
                    it.close()
                except Exception as x:
                    return fail("stream-close-raises", "close() raised %r" % (x,), step)
                ms.client_done = True
                if had_conn:
                    if not fx.wait_until(lambda: ms.sid not in table(), 10.0):
                        if ms.state != "gone":
                            return fail("closed-stream-not-forgotten", "server still holds the stream 10 s after close()", step)
                    ms.state = "gone"
            elif k < 0.76:
                i = r.randrange(nprox)
                if proxies[i]._pyroConnection is None:
                    continue
                pay["steps"].append(("disconnect", i))
                serial = conns[i]
                proxies[i]._pyroRelease()
                # wait for the disconnect of *this* connection (temporary proxies used by stream close() disconnect too)
                if not fx.wait_until(lambda: any(e[2] == serial for e in d.evlog.of("disconnect")), 10.0):
                    rec.inconc("server-side disconnect not observed within the watchdog")
                    return True
                real_time.sleep(0.002)
                for ms, _ in streams:
                    if ms.conn == conns[i] and ms.state != "gone" and ms.proxy_i == i:
                        if cfg["linger"] > 0:
                            ms.linger_at = vclock.now
                        else:
                            ms.state = "gone"
                conns[i] = None
            elif k < 0.775:
                # housekeeping runs while a fetch is in progress (the generator is slow to produce its item), possibly past the stream's lifetime
                cands = [(ms, it) for ms, it in live if ms.kind == "gen" and ms.state == "alive" and ms.pos < len(ms.items)
                         and proxies[ms.proxy_i]._pyroConnection is not None and not ms.linger_at]
                if not cands:
                    continue
                ms, it = r.choice(cands)
                dt = r.choice([0.5, 6.0])
                pay["steps"].append(("housekeeping-during-fetch", ms.sid[:6], dt))
                rec.case((repr(sorted(cfg.items())), hh, step), nontrivial=True)
                p = proxies[ms.proxy_i]
                gate = (threading.Event(), threading.Event())
                GATES[ms.key] = gate
                box = {}

                def fetch(p=p, it=it):
                    try:
                        p._pyroClaimOwnership()
                        box["got"] = ("item", next(it))
                    except StopIteration:
                        box["got"] = ("stop",)
                    except P.errors.PyroError as x:
                        box["got"] = ("pyroerror", str(x))
                    except Exception as x:
                        box["got"] = ("other", repr(x))
                th = threading.Thread(target=fetch, daemon=True)
                th.start()
                hk_error = None
                try:
                    if not gate[0].wait(5):
                        rec.inconc("the gated generator was not entered within the watchdog")
                    vclock.now += dt
                    expire(vclock.now)
                    try:
                        d._housekeeping()
                    except Exception as x:
                        hk_error = x
                finally:
                    GATES.pop(ms.key, None)
                    gate[1].set()
                    th.join(10)
                    p._pyroClaimOwnership()
                if hk_error is not None:
                    return fail("housekeeping-raises", "Daemon._housekeeping() raised %r while a fetch from stream %s was in progress "
                                "(the thread that runs housekeeping dies with it: nothing is expired any more)" % (hk_error, ms.sid[:6]), step)
                got = box.get("got", ("other", "fetch thread did not finish"))
                if got[0] == "item" and gen.deep_eq(normalise(got[1]), normalise(ms.items[ms.pos])):
                    ms.pos += 1
                    rec.count("items_ok")
                elif not (got[0] == "pyroerror" and ms.state == "maybe"):
                    return fail("stream-item-wrong", "fetch overlapping housekeeping: expected item %d = %r, client got %r" % (ms.pos, ms.items[ms.pos], got), step)
                for other, _ in streams:
                    if other.state == "maybe":
                        other.state = "gone"
                rec.count("housekeeping_during_fetch")
            elif k < 0.79:
                # the SERVER ends the connection (a request whose arguments carry a forbidden class tag: security error): for the streams
                # of that connection this is a disconnect like any other
                i = r.randrange(nprox)
                if proxies[i]._pyroConnection is None:
                    continue
                pay["steps"].append(("server-drops", i))
                rec.case((repr(sorted(cfg.items())), hh, step), nontrivial=True)
                live_before = fx.live_connection_count()
                why = None
                try:
                    proxies[i]._pyroInvoke("ping", [{"__class__": "forbidden__tag.X"}], {})
                    dropped = False
                except Exception as x:
                    dropped = True
                    why = x
                if not dropped:
                    return fail("security-error-not-raised", "a call with a forbidden class tag returned normally", step)
                if not fx.wait_until(lambda: fx.server_side_closed(conns[i]), 10.0):
                    rec.inconc("server did not end the connection after the security error within the watchdog (client saw %r; live before %r, now %r; cfg %r)" % (why, live_before, fx.live_connection_count(), cfg))
                    return True
                real_time.sleep(0.01)
                proxies[i]._pyroRelease()
                for ms, _ in streams:
                    if ms.conn == conns[i] and ms.state != "gone" and ms.proxy_i == i:
                        if cfg["linger"] > 0:
                            ms.linger_at = vclock.now
                        else:
                            ms.state = "gone"
                conns[i] = None
                rec.count("server_ended_connections")
            elif k < 0.815 and cfg["linger"] > 0 and fx.servertype == "thread" and getattr(fx, "gate", None) is not None:
                # racing reconnect: the client drops its connection, reconnects and fetches at once, while the worker that serves the OLD connection
                # is slow to notice the disconnect (a schedule, produced with a delay at the entry of the daemon's disconnect handling)
                i = r.randrange(nprox)
                mine = [(ms, it) for ms, it in live if ms.proxy_i == i and ms.state == "alive" and ms.pos < len(ms.items) and ms.conn == conns[i]]
                if proxies[i]._pyroConnection is None or not mine:
                    continue
                ms, it = r.choice(mine)
                pay["steps"].append(("racing-reconnect", i, ms.sid[:6]))
                rec.case((repr(sorted(cfg.items())), hh, step), nontrivial=True)
                old_serial = conns[i]
                fx.gate["event"].clear()
                fx.gate["serial"] = old_serial
                try:
                    proxies[i]._pyroRelease()
                    connect(i)
                    try:
                        got = ("item", next(it))
                    except Exception as x:
                        got = ("error", repr(x))
                finally:
                    fx.gate["serial"] = None
                    fx.gate["event"].set()
                if not fx.wait_until(lambda: any(e[2] == old_serial for e in d.evlog.of("disconnect")), 10.0):
                    rec.inconc("server-side disconnect not observed within the watchdog")
                    return True
                real_time.sleep(0.002)
                if got[0] != "item" or not gen.deep_eq(normalise(got[1]), normalise(ms.items[ms.pos])):
                    return fail("stream-item-wrong", "after an immediate reconnect expected item %d = %r, client got %r" % (ms.pos, ms.items[ms.pos], got), step)
                ms.pos += 1
                ms.conn = conns[i]          # fetched over the new connection: the stream lives on with it
                ms.linger_at = 0
                for other, _ in streams:
                    if other is not ms and other.proxy_i == i and other.conn == old_serial and other.state != "gone":
                        other.linger_at = vclock.now
                rec.count("racing_reconnects")
            elif k < 0.86:
                i = r.randrange(nprox)
                if proxies[i]._pyroConnection is not None:
                    continue
                pay["steps"].append(("reconnect", i))
                connect(i)
            elif k < 0.93:
                dt = r.choice([0.5, 1, 2, 2.9, 3.1, 4, 4.9, 5.1, 6, 10])
                pay["steps"].append(("advance", dt))
                vclock.now += dt
                expire(vclock.now)
            else:
                pay["steps"].append(("housekeeping",))
                expire(vclock.now)
                try:
                    d._housekeeping()
                except Exception as x:
                    return fail("housekeeping-raises", "Daemon._housekeeping() raised %r" % (x,), step)
                for ms, _ in streams:
                    if ms.state == "maybe":
                        ms.state = "gone"
                        rec.count("lifetime_expired" if cfg["lifetime"] > 0 and vclock.now - ms.created > cfg["lifetime"] else "linger_expired")
                # after an explicit housekeeping step the table is exact
                t = table()
                want = {ms.sid for ms, _ in streams if ms.state == "alive"}
                mine = {ms.sid for ms, _ in streams}
                if (t & mine) != want:
                    return fail("stream-table-differs", "after housekeeping the server holds %r, the model says %r" % (sorted(x[:6] for x in t & mine), sorted(x[:6] for x in want)), step)
                rec.count("table_checked")
            # cheap invariant: alive streams are in the table, gone ones are not (unless still 'maybe')
            t = table()
            for ms, _ in streams:
                if ms.state == "alive" and ms.sid not in t:
                    return fail("live-stream-forgotten", "stream %s (pos %d/%d) vanished from the server" % (ms.sid[:6], ms.pos, len(ms.items)), step)
                if ms.state == "gone" and ms.sid in t:
                    return fail("forgotten-stream-still-held", "stream %s should be forgotten but the server still holds it" % ms.sid[:6], step)
        return True
    finally:
        for ms, it in streams:
            try:
                it.proxy = None
            except Exception:
                pass
        for p in proxies:
            try:
                p._pyroRelease()
            except Exception:
                pass
        fx.wait_until(lambda: fx.live_connection_count() == 0, 5.0)
        d.on_disconnect = None
        d.streaming_responses.clear()


def normalise(v):
    if isinstance(v, tuple):
        return [normalise(x) for x in v]
    if isinstance(v, list):
        return [normalise(x) for x in v]
    if isinstance(v, dict):
        return {k: normalise(x) for k, x in v.items()}
    return v


def plan(tier, seed):
    shards = []
    nh = 150 if tier == "quick" else 1500
    for st in ("thread", "multiplex"):
        for lifetime in (0, 5):
            for linger in (0, 3):
                shards.append({"servertype": st, "streaming": True, "lifetime": lifetime, "linger": linger, "serializer": "serpent" if linger else "msgpack", "histories": nh})
        shards.append({"servertype": st, "streaming": False, "lifetime": 0, "linger": 0, "serializer": "json", "histories": max(3, nh // 5)})
    return shards


def slow_item_phase(fx, rec, r, cfg, n):
    """a client with a timeout (and, sometimes, retries switched on) consumes a stream one of whose items takes longer than the timeout:
    what it receives is a prefix of the sequence, in order and gapless; without an error it is the whole sequence"""
    P = fx.P
    for k in range(n):
        key = "slow-%d-%d" % (id(rec) % 1000, k)
        nitems = r.randrange(3, 8)
        items = [[key, i] for i in range(nitems)]
        slow_at = r.randrange(1, nitems)
        retries = r.choice([0, 1, 2, 2])
        SPECS[key] = (items, False, ("slow", slow_at, 0.5))
        pay = {"slow_item": True, "cfg": cfg, "nitems": nitems, "slow_at": slow_at, "retries": retries}
        rec.case(("slow-item", repr(sorted(cfg.items())), nitems, slow_at, retries), nontrivial=True, sample=pay if k == 0 else None)
        got, err = [], None
        p = fx.proxy("src", serializer=cfg["serializer"], timeout=0.2, retries=retries)
        it = None
        try:
            it = p.open(key)
            for x in it:
                got.append(list(x))
        except Exception as x:
            err = x
        finally:
            try:
                if it is not None:
                    it.close()
            except Exception:
                pass
            p._pyroRelease()
        if got != items[:len(got)]:
            rec.violation("stream-items-out-of-sequence", "stream of %d items, item %d slower than the client's timeout, MAX_RETRIES=%d: the client received %r (then %r): not a prefix of the sequence" % (
                nitems, slow_at, retries, [g[1] for g in got], err), pay)
            return
        if err is None and got != items:
            rec.violation("stream-items-out-of-sequence", "stream of %d items ended normally after %r" % (nitems, [g[1] for g in got]), pay)
            return
        rec.count("slow_item_streams_checked")
        real_time.sleep(0.55)   # the slow item finishes at the server before the next stream starts


def natural_housekeeping_phase(fx, vclock, rec, r, cfg, n):
    """multiplex server, nobody calls the housekeeping by hand: the daemon's own request loop has to do it while it is busy serving other
    clients. A stream whose lifetime (or linger period) is over is gone as soon as the loop has served a few more requests."""
    P = fx.P
    d = fx.daemon
    for k in range(n):
        mode = "lifetime" if cfg["lifetime"] else "linger"
        key = "nat-%d-%d" % (id(rec) % 1000, k)
        SPECS[key] = ([[key, i] for i in range(6)], False, r.choice(["listiter", "iterobj", "gen"]))
        pay = {"natural_housekeeping": True, "cfg": cfg, "mode": mode}
        rec.case(("natural-housekeeping", repr(sorted(cfg.items())), mode, k), nontrivial=True, sample=pay if k == 0 else None)
        p = fx.proxy("src", serializer=cfg["serializer"], timeout=10.0)
        q = fx.proxy("src", serializer=cfg["serializer"], timeout=10.0)
        it = None
        try:
            q.ping()
            it = p.open(key)
            got = [next(it), next(it)]
            before = set(d.streaming_responses)
            if mode == "lifetime":
                vclock.now += cfg["lifetime"] + 1.0
            else:
                p._pyroRelease()
                fx.wait_until(lambda: all(info[0] is None for info in list(d.streaming_responses.values())), 5.0)     # the disconnect has been handled
                vclock.now += cfg["linger"] + 1.0
            for _ in range(4):
                q.ping()            # other clients keep the loop busy: it never sits idle for POLLTIMEOUT
            held = set(d.streaming_responses) & before
            if held:
                rec.violation("expired-stream-still-held-under-traffic", "multiplex server, %s of %s s over (clock advanced), 4 requests of another client served since: the daemon's own loop "
                              "still holds the stream (housekeeping is its job, nobody else calls it)" % (mode, cfg[mode]), pay)
                return
            try:
                x = next(it)
                rec.violation("expired-stream-still-delivers", "multiplex server, %s over and other requests served since: the client still received %r" % (mode, x), pay)
                return
            except (P.errors.PyroError, P.errors.CommunicationError, StopIteration) as x:
                if isinstance(x, StopIteration):
                    rec.violation("expired-stream-still-delivers", "expired stream reported a normal end", pay)
                    return
            rec.count("natural_housekeeping_ok")
        except Exception as x:
            rec.inconc("natural housekeeping phase failed in the harness: %r" % (x,))
        finally:
            try:
                if it is not None:
                    it.proxy = None
            except Exception:
                pass
            p._pyroRelease()
            q._pyroRelease()


def concurrent_phase(fx, rec, r, cfg):
    """several clients open, read and abandon streams at the same time (thread server: their connections are served, and their disconnects
    handled, by different worker threads at once; seeded yield injection in server.py): nobody's live stream may suffer from somebody else's
    disconnect, and the table is empty when everybody is done"""
    P = fx.P
    from vlib import yieldinj
    problems = []
    lock = threading.Lock()

    def client(tid):
        try:
            for n in range(12):
                key = "conc-%d-%d-%d" % (id(rec) % 1000, tid, n)
                items = [[key, i] for i in range(4)]
                SPECS[key] = (items, False, "gen" if n % 2 else "listiter")
                with fx.proxy("src", serializer=cfg["serializer"], timeout=10.0) as p:
                    it = p.open(key)
                    got = []
                    try:
                        got.append(next(it))
                        got.append(next(it))
                        if n % 3 == 0:
                            it.proxy = None          # abandon the stream: this connection just goes away
                            continue
                        for x in it:
                            got.append(x)
                    except Exception as x:
                        with lock:
                            problems.append("client %d stream %s: got %r then %r (its connection was alive all the time)" % (tid, key, got, x))
                        continue
                    finally:
                        try:
                            it.proxy = None
                        except Exception:
                            pass
                    if [list(g) for g in got] != items:
                        with lock:
                            problems.append("client %d stream %s delivered %r instead of %r" % (tid, key, got, items))
                    with lock:
                        rec.count("concurrent_streams_checked")
        except Exception as x:
            with lock:
                problems.append("client %d failed: %r" % (tid, x))
    yieldinj.enable(("Pyro5/server.py",), 0.08, rec.seed * 23 + 5, max_sleep=0.002)
    try:
        ts = [threading.Thread(target=client, args=(i,), daemon=True) for i in range(5)]
        for t in ts:
            t.start()
        for t in ts:
            t.join(120)
    finally:
        n, _ = yieldinj.disable()
        rec.count("injected_yields", n)
    rec.case(("concurrent", repr(sorted(cfg.items()))), nontrivial=True)
    pay = {"concurrent": True, "cfg": cfg}
    if problems:
        rec.violation("live-stream-refused", "5 clients streaming at once: %d problem(s); first: %s" % (len(problems), problems[0]), pay)
        return
    if not fx.wait_until(lambda: not fx.daemon.streaming_responses, 10.0):
        rec.violation("forgotten-stream-still-held", "after all concurrent clients finished or went away the table still holds %d stream(s)" % len(fx.daemon.streaming_responses), pay)


def connected_socket_phase(P, rec, r, cfg, n):
    """streams over a socket pair the application connected itself (Daemon(connected_socket=...) / Proxy(..., connected_socket=...)): there is
    exactly one connection and no way to open a second one. Items arrive in order; a stream the client closes early is forgotten by the
    server (its table is empty again, and asking for the closed stream's next item is an error, never an item)"""
    import socket as _s
    for k in range(n):
        s1, s2 = _s.socketpair()
        s1.settimeout(20)
        s2.settimeout(20)
        d = P.server.Daemon(connected_socket=s1)
        d.register(make_service(P), "src")
        stop = []
        t = threading.Thread(target=lambda: d.requestLoop(loopCondition=lambda: not stop), daemon=True)
        t.start()
        key = "cs%d" % r.randrange(10 ** 9)
        nitems = r.choice([3, 5, 12])
        SPECS[key] = ([[key, i] for i in range(nitems)], False, r.choice(["gen", "iterobj", "listiter"]))
        take = r.randrange(0, nitems)
        pay = {"connected_socket": True, "cfg": cfg, "nitems": nitems, "take": take, "kind": SPECS[key][2]}
        rec.case(("connsock", key, nitems, take), nontrivial=True, sample=pay if k == 0 else None)
        bad = None
        try:
            p = P.client.Proxy("src", connected_socket=s2)
            p._pyroSerializer = cfg["serializer"]
            it = p.open(key)
            sid = it.streamId
            got = [next(it) for _ in range(take)]
            if [list(x) for x in got] != [[key, i] for i in range(take)]:
                bad = ("stream-items-differ", "items %r" % (got,))
            it.close()
            p.ping()          # (a request behind the close: the daemon has handled everything sent before it)
            if not bad and sid in d.streaming_responses:
                bad = ("forgotten-stream-still-held", "the client closed its stream after %d of %d items, the daemon (pre-connected socket: one connection, no second one possible) still holds it" % (take, nitems))
            if not bad:
                try:
                    nxt = p._pyroInvoke("get_next_stream_item", [sid], {}, objectId="Pyro.Daemon")
                    bad = ("items-after-close", "after the client closed the stream, asking for its next item delivered %r" % (nxt,))
                except P.errors.PyroError:
                    pass
                except StopIteration:
                    bad = ("items-after-close", "after the client closed the stream, asking for its next item reported an ordinary end of stream")
            # a second stream on the same connection, read to its end
            if not bad:
                got = [list(x) for x in p.open(key)]
                if got != [[key, i] for i in range(nitems)]:
                    bad = ("stream-items-differ", "a second stream over the same pre-connected socket delivered %r" % (got,))
                elif d.streaming_responses:
                    bad = ("forgotten-stream-still-held", "exhausted stream still in the daemon's table")
        except Exception as x:
            rec.inconc("connected-socket stream case failed in the harness: %r" % (x,))
            bad = None
        finally:
            stop.append(1)
            try:
                s2.close()
            except Exception:
                pass
            t.join(10)
            try:
                d.close()
            except Exception:
                pass
            s1.close()
            SPECS.pop(key, None)
        if bad:
            rec.violation(bad[0] + ":connected-socket", bad[1], pay)
            return
        rec.count("connected_socket_streams_ok")


def cross_thread_close_phase(fx, rec, r, cfg, n):
    """two streams on one proxy in its owner thread; the one that made the most recent call is closed (or dropped and collected) in ANOTHER
    thread. Whatever that does to the closed stream, the owner thread's other stream goes on delivering the server's items to the end."""
    import gc
    P = fx.P
    for k in range(n):
        key1, key2 = "xt1-%d" % r.randrange(10 ** 9), "xt2-%d" % r.randrange(10 ** 9)
        SPECS[key1] = ([[key1, i] for i in range(6)], False, "gen")
        SPECS[key2] = ([[key2, i] for i in range(7)], False, r.choice(["gen", "iterobj"]))
        how = ("close", "drop+gc")[k % 2]
        pay = {"cross_thread_close": True, "cfg": cfg, "how": how}
        rec.case(("xthread", how, k, cfg["servertype"]), nontrivial=True, sample=pay if k == 0 else None)
        p = fx.proxy("src", serializer=cfg["serializer"], timeout=10.0)
        got2, err = [], None
        try:
            it2 = p.open(key2)
            got2.append(list(next(it2)))
            holder = [p.open(key1)]
            next(holder[0])          # (the most recent call on the proxy belongs to stream 1)

            def other_thread():
                try:
                    if how == "close":
                        holder[0].close()
                    holder.pop()
                    gc.collect()
                except Exception:
                    pass             # (a non-owner thread may well be refused; that is its own business)
            t = threading.Thread(target=other_thread, daemon=True)
            t.start()
            t.join(20)
            try:
                for x in it2:
                    got2.append(list(x))
            except Exception as x:
                err = x
            finally:
                try:
                    it2.close()
                except Exception:
                    pass
        except Exception as x:
            rec.inconc("cross-thread close case failed in the harness: %r" % (x,))
            continue
        finally:
            try:
                p._pyroClaimOwnership()
                p._pyroRelease()
            except Exception:
                pass
            SPECS.pop(key1, None)
            SPECS.pop(key2, None)
        want = [[key2, i] for i in range(7)]
        if err is not None or got2 != want:
            rec.violation("stream-broken-by-other-streams-close", "stream 2 of a proxy (items so far %r of %d) %s after stream 1 of the same proxy was %s in another thread" % (
                got2, len(want), "failed with %r" % (err,) if err is not None else "ended early", "closed" if how == "close" else "dropped and collected"), pay)
            return
        rec.count("cross_thread_closes_ok")


def reconnect_fetch_phase(fx, vclock, rec, r, cfg, n):
    """a proxy disconnects, comes back within the linger period and fetches; the item is slow to arrive, and while it is being produced the
    linger period of the earlier disconnect runs out and housekeeping passes. The returning client's fetch is a use of the stream: it gets the
    next item, the generator's own exception, or the end of the stream - whatever the generator does - and the stream goes on after it."""
    P = fx.P
    d = fx.daemon
    for k in range(n):
        key = "rf-%d" % r.randrange(10 ** 9)
        nitems = r.choice([2, 3, 4])
        raises = r.random() < 0.6
        at = r.choice([1, nitems])          # the gated fetch is for item `at` (0-based), or - at == nitems - for the generator's end
        SPECS[key] = ([[key, i] for i in range(nitems)], raises, "gen")
        pay = {"reconnect_fetch": True, "cfg": cfg, "nitems": nitems, "raises": raises, "at": at}
        rec.case(("reconnect-fetch", nitems, raises, at, cfg["servertype"], k), nontrivial=True, sample=pay if k == 0 else None)
        p = fx.proxy("src", serializer=cfg["serializer"], timeout=10.0)
        bad = None
        try:
            it = p.open(key)
            got = [list(next(it)) for _ in range(at)]
            before = len(d.evlog.of("disconnect"))
            p._pyroRelease()
            if not fx.wait_until(lambda: len(d.evlog.of("disconnect")) > before, 10.0):
                rec.inconc("reconnect-fetch: the server did not notice the disconnect")
                continue
            vclock.now += cfg["linger"] * 0.5
            p._pyroBind()
            gate = (threading.Event(), threading.Event())
            GATES[key] = gate
            box = {}

            def fetch():
                try:
                    p._pyroClaimOwnership()
                    box["got"] = ("item", list(next(it)))
                except StopIteration:
                    box["got"] = ("stop",)
                except Exception as x:
                    box["got"] = ("exc", type(x).__name__, tuple(x.args))
            th = threading.Thread(target=fetch, daemon=True)
            th.start()
            try:
                if not gate[0].wait(5):
                    rec.inconc("reconnect-fetch: the gated generator was not entered")
                vclock.now += cfg["linger"] + 1.0          # the linger period of the earlier disconnect is over ...
                d._housekeeping()                           # ... and housekeeping passes while the fetch is still running
            finally:
                GATES.pop(key, None)
                gate[1].set()
                th.join(10)
                p._pyroClaimOwnership()
            want = ("item", [key, at]) if at < nitems else (("exc", "ValueError", ("boom-" + key,)) if raises else ("stop",))
            if box.get("got") != want:
                bad = "the fetch of the returning client (in progress while the old linger period ran out and housekeeping passed) gave %r, the generator produced %r" % (box.get("got"), want)
            elif at < nitems:
                rest = []
                try:
                    for x in it:
                        rest.append(list(x))
                    end = ("stop",)
                except Exception as x:
                    end = ("exc", type(x).__name__, tuple(x.args))
                want_end = ("exc", "ValueError", ("boom-" + key,)) if raises else ("stop",)
                if rest != [[key, i] for i in range(at + 1, nitems)] or end != want_end:
                    bad = "after that fetch the stream went on with %r and ended %r; the generator has %r left and ends %r" % (rest, end, [[key, i] for i in range(at + 1, nitems)], want_end)
        except Exception as x:
            rec.inconc("reconnect-fetch case failed in the harness: %r" % (x,))
            continue
        finally:
            try:
                it.close()
            except Exception:
                pass
            try:
                p._pyroClaimOwnership()
                p._pyroRelease()
            except Exception:
                pass
            SPECS.pop(key, None)
            GATES.pop(key, None)
        if bad:
            rec.violation("returning-client-fetch-disturbed", "linger %s, generator of %d items%s: %s" % (cfg["linger"], nitems, " that raises at its end" if raises else "", bad), pay)
            return
        rec.count("reconnect_fetches_ok")
    fx.wait_until(lambda: fx.live_connection_count() == 0, 5.0)
    d.streaming_responses.clear()


def racing_reconnect_phase(fx, vclock, rec, r, cfg, n):
    """the schedule of the 'racing-reconnect' history step, followed to its end: a proxy drops its connection, reconnects and fetches AT ONCE,
    while the worker of the old connection has not handled the disconnect yet (delay point at the entry of the daemon's disconnect
    handling). The fetch re-adopted the stream: it belongs to the new connection, whatever the late disconnect handling does. After more
    than the linger period and a housekeeping pass the client - connected all the time - still gets the rest of its stream."""
    d = fx.daemon
    if getattr(fx, "gate", None) is None:
        return
    for k in range(n):
        key = "rr-%d" % r.randrange(10 ** 9)
        nitems = r.choice([4, 5])
        SPECS[key] = ([[key, i] for i in range(nitems)], False, r.choice(["gen", "iterobj", "listiter"]))
        pay = {"racing_reconnect": True, "cfg": cfg}
        rec.case(("racing-reconnect-phase", nitems, cfg["servertype"], k), nontrivial=True, sample=pay if k == 0 else None)
        p = fx.proxy("src", serializer=cfg["serializer"], timeout=10.0)
        bad = None
        it = None
        try:
            it = p.open(key)
            got = [list(next(it))]
            old_serial = max(s for s, ref in list(d.conn_refs.items()) if ref() is not None)
            fx.gate["event"].clear()
            fx.gate["serial"] = old_serial
            try:
                p._pyroRelease()
                p._pyroBind()
                got.append(list(next(it)))
            finally:
                fx.gate["serial"] = None
                fx.gate["event"].set()
            if not fx.wait_until(lambda: any(e[2] == old_serial for e in d.evlog.of("disconnect")), 10.0):
                rec.inconc("racing-reconnect phase: server-side disconnect not observed within the watchdog")
                continue
            real_time.sleep(0.002)
            vclock.now += cfg["linger"] + 1.0
            d._housekeeping()
            try:
                for x in it:
                    got.append(list(x))
                end = "stop"
            except Exception as x:
                end = repr(x)
            if got != [[key, i] for i in range(nitems)] or end != "stop":
                bad = "the client received %r and then %s; the source has %d items" % (got, end, nitems)
        except Exception as x:
            rec.inconc("racing-reconnect phase failed in the harness: %r" % (x,))
            continue
        finally:
            try:
                if it is not None:
                    it.close()
                p._pyroRelease()
            except Exception:
                pass
            SPECS.pop(key, None)
        if bad:
            rec.violation("returning-client-fetch-disturbed", "linger %s: a proxy reconnected and fetched before the old connection's disconnect was handled, stayed connected, and after the "
                          "linger period and a housekeeping pass: %s" % (cfg["linger"], bad), pay)
            return
        rec.count("racing_reconnects_followed_to_the_end")
    fx.wait_until(lambda: fx.live_connection_count() == 0, 5.0)
    d.streaming_responses.clear()


def relay_phase(fx, rec, r, cfg, n):
    """a relay: the served method obtains an item stream from ANOTHER Pyro object (its last outgoing call returns a remote iterator) and
    returns a generator of its own over it. The caller's stream is the relay's generator: its items, in order, to the end - and the
    daemon's table is empty afterwards"""
    P = fx.P
    d = fx.daemon
    src_uri = fx.uri("src")

    @P.server.expose
    class Relay(object):
        def relay(self, key, peek):
            up = P.client.Proxy(src_uri)
            up._pyroSerializer = cfg["serializer"]
            it = up.open(key)
            first = [next(it)] if peek else []

            def g():
                try:
                    for x in first:
                        yield ["relayed", x]
                    for x in it:
                        yield ["relayed", x]
                finally:
                    try:
                        it.close()
                    finally:
                        up._pyroRelease()
            return g()
    if "relay" not in d.objectsById:
        fx.register(Relay(), "relay")
    for k in range(n):
        key = "rl-%d" % r.randrange(10 ** 9)
        nitems = r.choice([1, 3, 6])
        peek = bool(k % 2)
        SPECS[key] = ([[key, i] for i in range(nitems)], False, r.choice(["gen", "iterobj", "listiter"]))
        pay = {"relay": True, "cfg": cfg, "nitems": nitems, "peek": peek}
        rec.case(("relay", nitems, peek, cfg["servertype"], k), nontrivial=True, sample=pay if k == 0 else None)
        got, err = [], None
        p = fx.proxy("relay", serializer=cfg["serializer"], timeout=10.0)
        try:
            it = p.relay(key, peek)
            try:
                for x in it:
                    got.append(normalise(x))
            except Exception as x:
                err = x
            finally:
                try:
                    it.close()
                except Exception:
                    pass
        except Exception as x:
            err = x
        finally:
            p._pyroRelease()
            SPECS.pop(key, None)
        want = [["relayed", [key, i]] for i in range(nitems)]
        if err is not None or got != want:
            rec.violation("stream-items-differ:relayed", "a method that reads an item stream from another Pyro object and returns its own generator over it (%d items): the caller received %r%s, the generator yields %r" % (
                nitems, got, " then %r" % (err,) if err is not None else "", want), pay)
            return
        if not fx.wait_until(lambda: not d.streaming_responses, 5.0):
            rec.violation("forgotten-stream-still-held:relayed", "after the relayed stream and its upstream stream were exhausted the daemon still holds %d stream(s)" % len(d.streaming_responses), pay)
            d.streaming_responses.clear()
            return
        rec.count("relayed_streams_ok")


def install_gate(fx):
    """delay point at the entry of the daemon's disconnect handling (thread server only: there the old connection's worker and the new connection's
    worker really run concurrently); armed per connection serial by the 'racing-reconnect' step"""
    gate = {"serial": None, "event": threading.Event()}
    d = fx.daemon
    orig = d._clientDisconnect

    def delayed(conn):
        if gate["serial"] is not None and getattr(conn, "_vserial", None) == gate["serial"]:
            gate["event"].wait(5)
        return orig(conn)
    d._clientDisconnect = delayed
    fx.gate = gate


def run_shard(shard, rec):
    P = fixture.pyro()
    r = gen.rng(rec.seed, "c10", repr(sorted(shard.items())))
    vclock = VClock()
    import Pyro5.server
    Pyro5.server.time = vclock
    cfg = {k: shard[k] for k in ("servertype", "streaming", "lifetime", "linger", "serializer")}
    fx = fixture.Fixture(servertype=shard["servertype"], COMMTIMEOUT=0.0, ITER_STREAMING=shard["streaming"], ITER_STREAM_LIFETIME=float(shard["lifetime"]),
                         ITER_STREAM_LINGER=float(shard["linger"]), THREADPOOL_SIZE=20, variant=fixture.variant_for(rec.seed, "c10", repr(sorted(shard.items()))))
    rec.count("fixture_variant:" + fx.variant)
    if core.h64(repr(sorted(shard.items()))) % 2:
        # the application's Daemon.annotations() hook hands out one long-lived dict of its own (node name, build id) with every reply
        fx.daemon.reply_annotations = {"NODE": b"c10-node", "BLD1": b"r7"}
        rec.count("shards_with_daemon_annotations_hook")
    try:
        fx.register(make_service(P), "src")
        if shard["servertype"] == "thread":
            install_gate(fx)
        for h in range(shard["histories"]):
            if rec.should_stop(8):
                break
            run_history(fx, vclock, rec, r, cfg, r.randrange(10, 28), "h%d" % h)
        if shard["servertype"] == "thread" and shard["streaming"] and not shard["linger"] and not shard["lifetime"]:
            for _ in range(3 if rec.tier == "quick" else 30):
                if rec.should_stop(8):
                    break
                concurrent_phase(fx, rec, r, cfg)
        if shard["servertype"] == "multiplex" and shard["streaming"] and bool(shard["lifetime"]) != bool(shard["linger"]):
            natural_housekeeping_phase(fx, vclock, rec, r, cfg, 3 if rec.tier == "quick" else 20)
        if shard["streaming"] and shard["servertype"] == "thread":
            relay_phase(fx, rec, r, cfg, 3 if rec.tier == "quick" else 12)
        if shard["streaming"]:
            connected_socket_phase(P, rec, r, cfg, 2 if rec.tier == "quick" else 10)
            cross_thread_close_phase(fx, rec, r, cfg, 2 if rec.tier == "quick" else 10)
        if shard["streaming"] and shard["linger"] and not shard["lifetime"]:
            reconnect_fetch_phase(fx, vclock, rec, r, cfg, 3 if rec.tier == "quick" else 20)
            rec.count("reconnect_fetch_shards")
            if shard["servertype"] == "thread":
                racing_reconnect_phase(fx, vclock, rec, r, cfg, 3 if rec.tier == "quick" else 20)
        if shard["streaming"] and shard["linger"] and not shard["lifetime"]:
            slow_item_phase(fx, rec, r, cfg, 2 if rec.tier == "quick" else 12)
        for kind, text in fixture.take_faults():
            if kind == "thread-exception" and "generator already executing" not in text:
                rec.violation("server-thread-fault", text, None)
    finally:
        fx.stop()


def replay_connected(payload, rec):
    P = fixture.pyro()
    vclock = VClock()
    import Pyro5.server
    Pyro5.server.time = vclock
    P.config.ITER_STREAMING = True
    connected_socket_phase(P, rec, gen.rng(0, "replay"), payload["cfg"], 6)


def replay(payload, rec):
    if payload.get("connected_socket"):
        return replay_connected(payload, rec)
    if payload.get("cross_thread_close"):
        P = fixture.pyro()
        import Pyro5.server
        Pyro5.server.time = VClock()
        cfg = payload["cfg"]
        fx = fixture.Fixture(servertype=cfg["servertype"], COMMTIMEOUT=0.0, ITER_STREAMING=True, ITER_STREAM_LIFETIME=float(cfg["lifetime"]), ITER_STREAM_LINGER=float(cfg["linger"]))
        try:
            fx.register(make_service(P), "src")
            cross_thread_close_phase(fx, rec, gen.rng(0, "replay"), cfg, 4)
        finally:
            fx.stop()
        return
    P = fixture.pyro()
    cfg = payload["cfg"]
    vclock = VClock()
    vclock.now = payload.get("clock0", 1e9)
    import Pyro5.server
    Pyro5.server.time = vclock
    fx = fixture.Fixture(servertype=cfg["servertype"], COMMTIMEOUT=0.0, ITER_STREAMING=cfg["streaming"], ITER_STREAM_LIFETIME=float(cfg["lifetime"]),
                         ITER_STREAM_LINGER=float(cfg["linger"]), THREADPOOL_SIZE=20)
    try:
        fx.register(make_service(P), "src")
        if payload.get("natural_housekeeping"):
            natural_housekeeping_phase(fx, vclock, rec, gen.rng(0, "replay"), cfg, 10)
            return
        if payload.get("reconnect_fetch") and "steps" not in payload:
            reconnect_fetch_phase(fx, vclock, rec, gen.rng(0, "replay"), cfg, 20)
            return
        if payload.get("racing_reconnect"):
            if cfg["servertype"] == "thread":
                install_gate(fx)
            racing_reconnect_phase(fx, vclock, rec, gen.rng(0, "replay"), cfg, 10)
            return
        if payload.get("slow_item"):
            slow_item_phase(fx, rec, gen.rng(0, "replay"), cfg, 12)
            return
        if payload.get("concurrent"):
            for _ in range(20):
                concurrent_phase(fx, rec, gen.rng(0, "replay"), cfg)
            return
        if cfg["servertype"] == "thread":
            install_gate(fx)
        for i, s in enumerate(payload["steps"]):
            print("recorded step", i, s)
        try:
            run_history(fx, vclock, rec, gen.TapeRNG(tape=payload["tape"]), cfg, payload["nsteps"], "replay")
        except IndexError:
            print("replay: the recorded prefix of the history was re-executed without a violation")
    finally:
        fx.stop()
