"""C17 - socket reads and writes are exact under fragmentation and transient errors.

The scripted fake socket is the reference: the oracle is computed from the *trace* of what the
fake actually handed to receive_data/send_data (bytes delivered so far, the first terminal event
actually returned), so it does not depend on how the implementation sizes its recv calls."""
import errno
import itertools
import socket

from vlib import core, gen

PROPERTY = "C17"
LEVEL = "fault_enumeration"
RULE = ("exhaustive small scope: request sizes n in 1..6, every script of length <= L (L=5 quick, 6 thorough) over the per-call "
        "alphabet {deliver<=1, deliver<=2, deliver rest, EINTR, EAGAIN, EINPROGRESS, ECONNRESET, EPIPE, timeout, EOF}, x MSG_WAITALL "
        "{off, on+short-changed, on+honoured} x {blocking, timeout mode}; send side: scripts of length <= L over {accept 1, accept 2, "
        "accept all, EINTR, EAGAIN, ECONNRESET, EPIPE, timeout} x {blocking, timeout mode}; plus seeded random large cases (n up to 200k, "
        "crossing the 60000-byte chunk cap). distinct = (n, script, mode) tuples; non-trivial = scripts with at least one event")
ASSUMPTIONS = ["fake sockets obey OS realism rules: EOF is sticky; n=0 judged leniently",
               "retry back-off sleeps are replaced by no-ops (socketutil.time swapped from the harness)"]
REQUIRED_REACH = ["real_socket_low_fd_ok", "recv_ok", "recv_eof_error", "recv_fatal_error", "recv_timeout_error", "send_ok", "send_error", "retry_transparent"]
SHARD_TIMEOUT = {"quick": 480, "thorough": 2400}

R_ALPHA = [("d", 1), ("d", 2), ("rest",), ("e", errno.EINTR), ("e", errno.EAGAIN), ("e", errno.EINPROGRESS),
           ("e", errno.ECONNRESET), ("e", errno.EPIPE), ("x", "Socket is closed"), ("t",), ("eof",)]
W_ALPHA = [("a", 0), ("a", 1), ("a", 2), ("all",), ("e", errno.EINTR), ("e", errno.EAGAIN), ("e", errno.ECONNRESET), ("e", errno.EPIPE), ("x", "Socket is closed"), ("t",)]
RETRY = {errno.EINTR, errno.EAGAIN, errno.EWOULDBLOCK, errno.EINPROGRESS}
MODES = [(False, False), (True, False), (True, True)]     # (USE_MSG_WAITALL, fake honours it)


class Livelock(Exception):
    pass


class TraceReadSock:
    """scripted read socket that records what it actually did"""

    def __init__(self, stream, script, honour, timeout):
        self.stream, self.script, self.honour, self._timeout = stream, script, honour, timeout
        self.si = 0
        self.pos = 0
        self.eof = False
        self.terminal = None      # first terminal event actually returned: ("eof",)|("e",errno)|("t",)
        self.pos_at_terminal = None
        self.retryables = 0
        self.calls = 0
        self.after_terminal_calls = 0
        self.family = socket.AF_INET

    def _next(self):
        if self.si < len(self.script):
            ev = self.script[self.si]
            self.si += 1
            return ev
        return ("rest",)

    def _peek(self):
        return self.script[self.si] if self.si < len(self.script) else ("rest",)

    def gettimeout(self):
        return self._timeout

    def recv(self, n, flags=0):
        self.calls += 1
        if self.calls > 5000:
            raise Livelock()
        if self.terminal is not None:
            self.after_terminal_calls += 1
        if self.eof:
            return b""
        if n == 0:
            return b""
        got = bytearray()
        waitall = bool(flags & socket.MSG_WAITALL) and self.honour
        while True:
            ev = self._peek()
            avail = len(self.stream) - self.pos
            if ev[0] in ("d", "rest") and avail > 0:
                self._next()
                k = min(n - len(got), avail) if ev[0] == "rest" else min(n - len(got), ev[1], avail)
                got += self.stream[self.pos:self.pos + k]
                self.pos += k
                if waitall and len(got) < n:
                    continue      # a kernel honouring MSG_WAITALL keeps waiting for the rest
                return bytes(got)
            if got:
                return bytes(got)   # short return; the pending event is reported by the next call
            self._next()
            if ev[0] == "e":
                if ev[1] in RETRY:
                    self.retryables += 1
                elif self.terminal is None:
                    self.terminal, self.pos_at_terminal = ev, self.pos
                raise OSError(ev[1], "scripted errno")
            if ev[0] == "x":
                # a fatal error that carries no errno (what Python-level socket wrappers, tunnels and closed ssl objects raise)
                if self.terminal is None:
                    self.terminal, self.pos_at_terminal = ev, self.pos
                raise OSError(ev[1])
            if ev[0] == "t":
                if self.terminal is None:
                    self.terminal, self.pos_at_terminal = ev, self.pos
                raise socket.timeout("scripted timeout")
            # eof (or data exhausted)
            self.eof = True
            if self.terminal is None:
                self.terminal, self.pos_at_terminal = ("eof",), self.pos
            return b""

    def recv_into(self, buffer, nbytes=0, flags=0):
        mv = memoryview(buffer)
        chunk = self.recv(nbytes or len(mv), flags)
        mv[:len(chunk)] = chunk
        return len(chunk)


class TraceWriteSock:
    def __init__(self, script, timeout):
        self.script, self._timeout = script, timeout
        self.si = 0
        self.accepted = bytearray()
        self.terminal = None
        self.retryables = 0
        self.calls = 0
        self.family = socket.AF_INET

    def gettimeout(self):
        return self._timeout

    def _next(self):
        if self.si < len(self.script):
            ev = self.script[self.si]
            self.si += 1
            return ev
        return ("all",)

    def _one(self, data, in_sendall):
        ev = self._next()
        if ev[0] == "e":
            if ev[1] in RETRY and not in_sendall:
                self.retryables += 1
            elif self.terminal is None:
                self.terminal = ev
            raise OSError(ev[1], "scripted errno")
        if ev[0] == "x":
            if self.terminal is None:
                self.terminal = ev
            raise OSError(ev[1])
        if ev[0] == "t":
            if self.terminal is None:
                self.terminal = ev
            raise socket.timeout("scripted timeout")
        k = len(data) if ev[0] == "all" else min(len(data), ev[1])
        self.accepted += bytes(data[:k])
        return k

    def send(self, data):
        self.calls += 1
        if self.calls > 5000:
            raise Livelock()
        return self._one(data, False)

    def sendall(self, data):
        self.calls += 1
        data = bytes(data)
        while data:
            k = self._one(data, True)     # any error surfaces to the caller, as with a real sendall
            data = data[k:]


def check_recv(env, n, script, waitall, honour, timeout, rec, payload):
    su, errors = env
    su.USE_MSG_WAITALL = waitall
    stream = bytes((i * 37 + 11) & 255 for i in range(n + 7)) if n < 1000 else (bytes(range(256)) * (n // 256 + 2))[:n + 7]
    fs = TraceReadSock(stream, script, honour, timeout)
    try:
        out = su.receive_data(fs, n)
        exc = None
    except Livelock:
        rec.violation("recv-no-progress", "receive_data made >5000 recv calls without finishing: n=%d script=%s" % (n, script), payload)
        return
    except BaseException as x:
        out, exc = None, x
    if fs.terminal is not None and fs.pos_at_terminal < n:
        # a terminal event was handed to the code while bytes were outstanding: it must raise the right error
        kind = fs.terminal[0]
        want = errors.TimeoutError if kind == "t" else errors.ConnectionClosedError
        if exc is None:
            rec.violation("recv-returns-after-terminal-event", "returned %d bytes although the peer %s after %d of %d bytes; script=%s" % (
                len(out), fs.terminal, fs.pos_at_terminal, n, script), payload)
            return
        if type(exc) is not want:
            rec.violation("recv-wrong-exception", "raised %r, expected %s after %s; script=%s" % (exc, want.__name__, fs.terminal, script), payload)
            return
        pd = getattr(exc, "partialData", None)
        if kind == "eof":
            if pd is None or bytes(pd) != stream[:fs.pos]:
                rec.violation("recv-partialdata-wrong", "early EOF after %d bytes but partialData=%r (expected the %d bytes received); script=%s" % (
                    fs.pos, None if pd is None else bytes(pd), fs.pos, script), payload)
                return
            rec.count("recv_eof_error")
        else:
            if pd is not None and bytes(pd) != stream[:fs.pos]:
                rec.violation("recv-partialdata-wrong", "partialData present but != bytes received so far; script=%s" % (script,), payload)
                return
            rec.count("recv_fatal_error" if kind in ("e", "x") else "recv_timeout_error")
        return
    # no terminal event before completion: must return exactly the next n bytes and consume exactly n
    if exc is not None:
        rec.violation("recv-raises-without-cause", "raised %r although only deliveries/retryable errors occurred (delivered %d of %d); script=%s" % (
            exc, fs.pos, n, script), payload)
        return
    if bytes(out) != stream[:n]:
        rec.violation("recv-wrong-bytes", "returned %r, the next %d bytes of the stream are %r; script=%s" % (
            bytes(out)[:40], n, stream[:min(n, 40)], script), payload)
        return
    if fs.pos != n:
        rec.violation("recv-wrong-consumption", "consumed %d bytes from the stream for a %d byte read; script=%s" % (fs.pos, n, script), payload)
        return
    rec.count("recv_ok")
    if fs.retryables:
        rec.count("retry_transparent")


def check_send(env, data, script, timeout, rec, payload):
    su, errors = env
    fs = TraceWriteSock(script, timeout)
    try:
        su.send_data(fs, data)
        exc = None
    except Livelock:
        rec.violation("send-no-progress", "send_data made >5000 send calls: script=%s" % (script,), payload)
        return
    except BaseException as x:
        exc = x
    acc = bytes(fs.accepted)
    if acc != data[:len(acc)]:
        rec.violation("send-wrong-bytes", "peer received %r which is not a prefix of the buffer %r; script=%s" % (acc[:40], data[:40], script), payload)
        return
    if fs.terminal is not None:
        want = errors.TimeoutError if fs.terminal[0] == "t" else errors.ConnectionClosedError
        if exc is None:
            rec.violation("send-silent-loss", "returned normally although the socket failed with %s after %d of %d bytes; script=%s" % (
                fs.terminal, len(acc), len(data), script), payload)
        elif type(exc) is not want:
            rec.violation("send-wrong-exception", "raised %r, expected %s; script=%s" % (exc, want.__name__, script), payload)
        else:
            rec.count("send_error")
        return
    if exc is not None:
        rec.violation("send-raises-without-cause", "raised %r although only partial writes/retryable errors occurred; script=%s" % (exc, script), payload)
        return
    if acc != data:
        rec.violation("send-short", "returned normally but the peer received %d of %d bytes; script=%s" % (len(acc), len(data), script), payload)
        return
    rec.count("send_ok")
    if fs.retryables:
        rec.count("retry_transparent")


def setup():
    core.assert_repo()
    from Pyro5 import socketutil, errors
    # the process has used the module's real sockets before (what every daemon and proxy does): listening socket, client connections in
    # blocking and in timeout mode, real traffic both ways. The scripted runs that follow must not depend on that history
    import socket as _socket
    lst = socketutil.create_socket(bind=("127.0.0.1", 0))
    try:
        for tmo in (None, 2.0, 0.5):
            c = socketutil.create_socket(connect=lst.getsockname()[:2], timeout=tmo)
            a, _ = lst.accept()
            socketutil.send_data(c, b"warm-up")
            socketutil.receive_data(a, 7)
            a.close()
            c.close()
        WARMUP["connections"] = 3
    finally:
        lst.close()
    socketutil.time = VTIME        # virtual time for the module under test: sleeping advances the clock instead of waiting
    return socketutil, errors


class VirtualTime:
    """stands in for the `time` module inside socketutil: retry back-off 'sleeps' cost nothing, but they do advance the clock that the
    module may consult (a whole minute of back-off can be scripted in microseconds)"""

    def __init__(self):
        self.now = 1000.0

    def sleep(self, s):
        self.now += max(0.0, float(s))

    def monotonic(self):
        return self.now

    def time(self):
        return 1.7e9 + self.now

    def perf_counter(self):
        return self.now

    def __getattr__(self, name):
        return getattr(__import__("time"), name)


VTIME = VirtualTime()


WARMUP = {"connections": 0}


def plan(tier, seed):
    L, plen = (5, 2) if tier == "quick" else (6, 2)
    shards = []
    for pre in itertools.product(range(len(R_ALPHA)), repeat=plen):
        shards.append({"kind": "recv", "L": L, "prefix": pre})
    for pre in itertools.product(range(len(W_ALPHA)), repeat=plen):
        shards.append({"kind": "send", "L": L, "prefix": pre})
    nrand = 5 if tier == "quick" else 16
    for i in range(nrand):
        shards.append({"kind": "random", "i": i, "n": 1200 if tier == "quick" else 14000})
    shards.append({"kind": "real"})
    if tier == "thorough":
        shards.append({"kind": "e10"})
    return shards


def scripts_for(alpha, L, prefix):
    """all scripts of length <= L that start with prefix; the all-zero prefix shard also takes the shorter ones"""
    pre = tuple(alpha[i] for i in prefix)
    out = []
    if all(i == 0 for i in prefix):
        for l in range(0, len(prefix)):
            out.extend(itertools.product(alpha, repeat=l))
    for l in range(len(prefix), L + 1):
        for rest in itertools.product(alpha, repeat=l - len(prefix)):
            out.append(pre + rest)
    return out


def real_phase(rec):
    """Operating-system sockets instead of scripted ones: non-blocking socket pairs (so the kernel itself produces the 'not ready yet'
    errors), a peer that feeds / drains slowly from another thread, descriptors both in the usual low range and far above 1024 (a server
    with many connections). Every transfer completes with exactly the bytes that were sent."""
    import fcntl
    import socket as _s
    import threading
    import time as _time
    from Pyro5 import socketutil
    core.assert_repo()
    socketutil.time = __import__("time")
    r = gen.rng(rec.seed, "c17", "real")

    try:
        import resource
        soft, hard = resource.getrlimit(resource.RLIMIT_NOFILE)
        if soft < 4200 and (hard == resource.RLIM_INFINITY or hard > soft):
            resource.setrlimit(resource.RLIMIT_NOFILE, (min(8192, hard) if hard != resource.RLIM_INFINITY else 8192, hard))
    except Exception:
        pass

    def pair(high):
        a, b = _s.socketpair()
        if high:
            try:
                fd = fcntl.fcntl(a.fileno(), fcntl.F_DUPFD, 1100 + r.randrange(0, 3000))
            except OSError:
                rec.count("high_descriptors_unavailable_here")      # (a descriptor limit below that: the case runs on the low descriptor)
                a.setblocking(False)
                return a, b
            a2 = _s.socket(fileno=fd)
            a.close()
            a = a2
        a.setblocking(False)
        return a, b
    for i in range(24):
        high = i % 2 == 1
        direction = "recv" if i % 4 < 2 else "send"
        # (sending through a 4 kB kernel buffer costs one back-off sleep of the library per refill: moderate sizes there)
        n = r.choice([1, 7, 4096, 70000, 300000] if direction == "recv" else [1, 7, 4096, 20000, 60000])
        data = bytes((j * 37 + i) & 255 for j in range(n))
        key = ("real", direction, high, n)
        rec.case(key, nontrivial=True)
        a, b = pair(high)
        got = []
        try:
            if direction == "recv":
                def feeder():
                    pos = 0
                    while pos < n:
                        k = r.choice([1, 100, 5000, 65536])
                        b.sendall(data[pos:pos + k])
                        pos += k
                        _time.sleep(0.002)
                t = threading.Thread(target=feeder, daemon=True)
                t.start()
                try:
                    out = bytes(socketutil.receive_data(a, n))
                except Exception as x:
                    rec.violation("real-socket-transfer-failed", "receive_data on a non-blocking OS socket (fd %d) fed slowly by its peer raised %r" % (a.fileno(), x), key)
                    return
                t.join(10)
                if out != data:
                    rec.violation("real-socket-transfer-failed", "receive_data on an OS socket (fd %d) returned other bytes than were sent" % a.fileno(), key)
                    return
            else:
                a.setsockopt(_s.SOL_SOCKET, _s.SO_SNDBUF, 4096)

                def drainer():
                    left = n
                    while left > 0:
                        _time.sleep(0.001)
                        chunk = b.recv(min(left, r.choice([100, 9000, 70000])))
                        if not chunk:
                            break
                        got.append(chunk)
                        left -= len(chunk)
                t = threading.Thread(target=drainer, daemon=True)
                t.start()
                try:
                    socketutil.send_data(a, data)
                except Exception as x:
                    rec.violation("real-socket-transfer-failed", "send_data on a non-blocking OS socket (fd %d) drained slowly by its peer raised %r" % (a.fileno(), x), key)
                    return
                t.join(10)
                if b"".join(got) != data:
                    rec.violation("real-socket-transfer-failed", "send_data on an OS socket (fd %d): the peer received other bytes than were sent" % a.fileno(), key)
                    return
            rec.count("real_socket_high_fd_ok" if a.fileno() >= 1024 else "real_socket_low_fd_ok")
        finally:
            a.close()
            b.close()


def run_shard(shard, rec):
    if shard.get("kind") == "real":
        real_phase(rec)
        return
    if shard.get("kind") == "e10":
        from vlib import e10
        e10.run_e10("C17", rec)
        return
    env = setup()
    if shard["kind"] == "recv":
        first = 0 if all(i == 0 for i in shard["prefix"]) else 1
        for script in scripts_for(R_ALPHA, shard["L"], shard["prefix"]):
            for n in range(1, 7):
                for waitall, honour in MODES:
                    for timeout in (None, 2.0):
                        key = ("r", n, script, waitall, honour, timeout)
                        rec.case_bulk(1)
                        if rec.evaluations % 50000 == 7 and len(rec.samples) < 3:
                            rec.samples.append({"n": n, "script": [list(e) for e in script], "waitall": waitall, "honour": honour, "timeout": timeout})
                        check_recv(env, n, script, waitall, honour, timeout, rec, key)
        if first == 0:
            for waitall, honour in MODES:      # n = 0: no stream bytes may be consumed
                fs = TraceReadSock(b"abcdefg", (), honour, None)
                env[0].USE_MSG_WAITALL = waitall
                rec.case(("r0", waitall, honour))
                try:
                    out = env[0].receive_data(fs, 0)
                except Exception as x:
                    rec.violation("recv-raises-without-cause", "a zero-length read raised %r (nothing was asked for, the stream is intact)" % (x,), ("r", 0, (), waitall, honour, None))
                    continue
                if bytes(out) != b"" or fs.pos != 0:
                    rec.violation("recv-wrong-consumption", "zero-length read returned %r / consumed %d" % (out, fs.pos), ("r", 0, (), waitall, honour, None))
        rec.exhaustive = True
    elif shard["kind"] == "send":
        for script in scripts_for(W_ALPHA, shard["L"], shard["prefix"]):
            for n in (1, 2, 3, 5):
                data = bytes(range(65, 65 + n))
                for timeout in (None, 2.0):
                    key = ("w", n, script, timeout)
                    rec.case_bulk(1)
                    check_send(env, data, script, timeout, rec, key)
        rec.exhaustive = True
    else:
        r = gen.rng(rec.seed, "c17", shard["i"])
        for _ in range(shard["n"]):
            if r.random() < 0.7:
                n = r.choice([1, 7, 40, 100, 4096, 59999, 60000, 60001, 120000, 120001, 200000]) if r.random() < 0.5 else r.randrange(1, 200001)
                script = []
                for _ in range(r.randrange(0, 14)):
                    k = r.random()
                    if k < 0.55:
                        script.append(("d", r.choice([1, 2, 100, 1460, 59999, 60000, 60001, 65536, n // 2 + 1, max(1, n - 1)])))
                    elif k < 0.65:
                        script.append(("rest",))
                    elif k < 0.85:
                        script.append(("e", r.choice([errno.EINTR, errno.EAGAIN, errno.EINPROGRESS])))
                    elif k < 0.9:
                        script.append(("e", r.choice([errno.ECONNRESET, errno.EPIPE, errno.EBADF, errno.ENOTCONN, errno.EALREADY, errno.ECONNABORTED, errno.EHOSTUNREACH, errno.ENOBUFS, errno.EINVAL])))
                    elif k < 0.95:
                        script.append(("t",))
                    else:
                        script.append(("eof",))
                script = tuple(script)
                waitall, honour = r.choice(MODES)
                timeout = r.choice([None, 0.5])
                key = ("r", n, script, waitall, honour, timeout)
                rec.case(key, nontrivial=bool(script), sample={"n": n, "script": [list(e) for e in script]} if rec.evaluations < 2 else None)
                check_recv(env, n, script, waitall, honour, timeout, rec, key)
            else:
                n = r.choice([1, 100, 60000, 60001, 150000]) if r.random() < 0.5 else r.randrange(1, 150001)
                data = (bytes(range(256)) * (n // 256 + 1))[:n]
                script = []
                for _ in range(r.randrange(0, 12)):
                    k = r.random()
                    if k < 0.6:
                        script.append(("a", r.choice([1, 2, 1460, 60000, 65536, n // 2 + 1, max(1, n - 1)])))
                    elif k < 0.7:
                        script.append(("all",))
                    elif k < 0.9:
                        script.append(("e", r.choice([errno.EINTR, errno.EAGAIN, errno.EINPROGRESS])))
                    elif k < 0.96:
                        script.append(("e", r.choice([errno.ECONNRESET, errno.EPIPE, errno.ENOTCONN, errno.EALREADY, errno.ECONNABORTED, errno.EHOSTUNREACH])))
                    else:
                        script.append(("t",))
                if r.random() < 0.15:
                    # a peer that accepts a little, then is not ready for a long while (many retryable errors in a row: the back-off adds up to
                    # far more than the socket's timeout), then takes the rest: the data still goes out completely
                    script = [("a", r.choice([1, 5, 1460]))] + [("e", r.choice([errno.EAGAIN, errno.EINTR]))] * r.randrange(8, 30) + script
                script = tuple(script)
                timeout = r.choice([None, 0.5])
                key = ("w", n, script, timeout)
                rec.case(key, nontrivial=bool(script))
                check_send(env, data, script, timeout, rec, key)


def replay(payload, rec):
    if payload[0] == "real":
        real_phase(rec)
        return
    env = setup()
    rec.case(payload)
    if payload[0] == "r":
        _, n, script, waitall, honour, timeout = payload
        check_recv(env, n, script, waitall, honour, timeout, rec, payload)
    else:
        _, n, script, timeout = payload
        check_send(env, (bytes(range(256)) * (n // 256 + 1))[:n] if n > 5 else bytes(range(65, 65 + n)), script, timeout, rec, payload)
