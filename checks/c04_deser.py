"""C04 - deserialisation builds only data and a fixed set of known classes.

Monitors while the real decoders (loads and loadsCall of all four serializers) run on hostile payload trees:
 (a) reachable-type walk over the decoded value against the closed set written down from the statement,
 (b) interpreter audit events (E7; allow-list calibrated to {compile, marshal.loads}),
 (c) side-effect log of harness-local bait classes + sys.modules diff + captured stdout/stderr,
 (d) an independent accepted-tag model: a tag outside the closed set (or containing '__') in a position the decoder
     recurses into must raise."""
import builtins
import datetime
import io
import json
import marshal
import sqlite3
import struct
import sys

from vlib import core, gen, fixture, sandbox

PROPERTY = "C04"
LEVEL = "exploration"
RULE = ("payload trees (nesting <= 6) holding class-tagged dicts at any depth: tags from the closed set and hostile ones (dotted paths into "
        "builtins/os/subprocess/sys/importlib/Pyro5 internals/harness bait classes, dunder and near-dunder names, bytes tags, non-string tags), "
        "exception flags on non-exception names, hostile args/attributes/state members; encoded with each serializer's own library, decoded "
        "on loads and loadsCall; plus byte-level mutations of encoded payloads (serpent/json/msgpack). distinct = hash of (serializer, path, "
        "encoded bytes); non-trivial = the payload contains at least one class-tagged dict")
ASSUMPTIONS = ["CPython audit events cover import/exec/open/socket/subprocess/ctypes side effects", "marshal byte-level fuzz excluded (quantifier is over payload trees)",
               "converters registered by the harness itself are exempt, as the statement says"]
REQUIRED_REACH = ["converter_withdrawn_during_decode_ok", "decoded_ok", "rejected", "must_raise_checked", "audit_allowed_events", "exceptions_built", "pyro_objects_built", "mutants_decoded", "converter_exemption_checked", "near_miss_tags_checked", "decodes_from_memoryview", "decodes_from_bytearray", "converter_history_decodes", "bulk_payloads"]
SHARD_TIMEOUT = {"quick": 480, "thorough": 2400}

SAFE_TAGS = ["Pyro5.core.URI", "Pyro5.client.Proxy", "Pyro5.server.Daemon", "Pyro5.util.SerpentSerializer", "Pyro5.util.MarshalSerializer",
             "Pyro5.util.JsonSerializer", "Pyro5.util.MsgpackSerializer", "Pyro5.core._ExceptionWrapper", "struct.error",
             "Pyro5.errors.PyroError", "Pyro5.errors.NamingError", "Pyro5.errors.SerializeError", "Pyro5.errors.TimeoutError"]
EXC_TAGS = ["ValueError", "KeyError", "builtins.ValueError", "exceptions.KeyError", "builtins.OSError", "builtins.FileNotFoundError", "builtins.SystemExit",
            "builtins.KeyboardInterrupt", "builtins.UnicodeDecodeError", "builtins.StopIteration", "builtins.BaseException", "PyroError", "TimeoutError",
            "sqlite3.OperationalError", "sqlite3.Error", "sqlite3.IntegrityError", "builtins.ExceptionGroup", "builtins.ImportError"]
HOSTILE_TAGS = ["os.system", "os.popen", "subprocess.Popen", "subprocess.call", "builtins.eval", "builtins.exec", "builtins.open", "builtins.print",
                "builtins.input", "builtins.type", "builtins.object", "builtins.compile", "builtins.breakpoint", "builtins.exit", "builtins.memoryview",
                "builtins.bytearray", "builtins.getattr", "builtins.__import__", "builtins.globals", "exceptions.eval", "exceptions.open",
                "sys.exit", "sys.modules", "importlib.import_module", "Pyro5.errors.sys", "Pyro5.errors.traceback", "Pyro5.errors.linecache",
                "Pyro5.errors.config", "Pyro5.errors.get_pyro_traceback", "Pyro5.errors.format_traceback", "Pyro5.errors.PyroError.__init__",
                "Pyro5.server.Daemon.__init__", "Pyro5.core.URI.__setstate__", "Pyro5.core.resolve", "Pyro5.core.locate_ns", "Pyro5.nameserver.NameServer",
                "Pyro5.server.DaemonObject", "Pyro5.socketutil.SocketConnection", "Pyro5.client.SerializedBlob", "Pyro5.client.BatchProxy", "Pyro5.util.os",
                "Pyro5.util.", "Pyro5.util.PickleSerializer", "Pyro5.util.SerializerBase", "Pyro5.errors.", "Pyro5.errors.NoSuchError", "Pyro5.core.URI.x",
                "Pyro5.core.URI2", "pyro5.core.URI", "Pyro5.core.uri", "checks.c04_bait.Bait", "checks.c04_bait.BaitError", "__main__.Bait", "__class__", "a__b",
                "builtins.Exception__", "__builtins__.eval", "builtins.ValueError.__init__", "sqlite3.connect", "sqlite3.register_adapter",
                "sqlite3.enable_callback_tracebacksError", "sqlite3.NoSuchError", "struct.pack", "struct.Struct", "struct.error.x", "float", "int", "str", "", ".", "..",
                "builtins.", ".ValueError", "builtins.ValueError.args", "collections.OrderedDict", "decimal.Decimal", "uuid.UUID", "datetime.datetime",
                "ctypes.CDLL", "socket.socket", "pickle.loads", "shutil.rmtree", "tempfile.mkstemp", "threading.Thread", "code.InteractiveConsole",
                # subclasses of Pyro's own classes that exist in this process (the application's, and the Pyro4 compatibility layer's)
                "checks.c04_subs.AuditedProxy", "checks.c04_subs.TaggedURI", "checks.c04_subs.LocalDaemon", "checks.c04_subs.AuditedProxy",
                "Pyro5.compatibility.Pyro4.Proxy", "Pyro5.compatibility.Pyro4.URI", "Pyro5.compatibility.Pyro4.Daemon", "Pyro4.core.Proxy", "Pyro4.Proxy",
                "Pyro4.core.URI", "Pyro5.nameserver.NameServerDaemon", "Pyro5.client.Proxy2", "c04_subs.AuditedProxy",
                # exception classes called 'error' in modules this process has loaded (only struct.error is in the closed set)
                "zlib.error", "socket.error", "select.error", "os.error", "re.error", "binascii.error", "binascii.Error", "checks.c04_subs.error", "sqlite3.Error", "sqlite3.error",
                # deeper dotted paths below the bait module (looking for 'checks.c04_bait.inner' as a module would import checks.c04_bait)
                "checks.c04_bait.inner.Bait", "checks.c04_bait.Bait.attr", "checks.c04_bait.a.b.C",
                # the tags the serpent library itself writes for values it has no literal for (Pyro accepts only serpent's float dict)
                "complex", "collections.OrderedDict", "collections.OrderedDict", "collections.deque", "collections.defaultdict", "array.array", "bytes", "bytearray", "set", "frozenset", "tuple"]
NONSTR_TAGS = [123, None, True, 1.5, ["list"], {"d": 1}]
BYTES_TAGS = [b"os.system", b"Pyro5.core.URI", b"builtins.eval", b"\xff\xfe", b"a__b", b"ValueError"]


def tag_allowed(P, tag, excflag, sername):
    """the closed set, written down from the statement (not read from dict_to_class)"""
    if isinstance(tag, bytes):
        try:
            tag = tag.decode("utf-8")
        except UnicodeDecodeError:
            return False
    if not isinstance(tag, str) or "__" in tag:
        return False
    if tag in ("Pyro5.core.URI", "Pyro5.client.Proxy", "Pyro5.server.Daemon", "Pyro5.util.SerpentSerializer", "Pyro5.util.MarshalSerializer",
               "Pyro5.util.JsonSerializer", "Pyro5.util.MsgpackSerializer", "Pyro5.core._ExceptionWrapper", "struct.error"):
        return True
    if tag == "float" and sername == "serpent":
        return True
    if tag.startswith("Pyro5.errors."):
        t = vars(P.errors).get(tag[len("Pyro5.errors."):])
        return isinstance(t, type) and issubclass(t, P.errors.PyroError)
    if excflag:
        t = vars(builtins).get(tag)
        if isinstance(t, type) and issubclass(t, BaseException):
            return True
        t = vars(P.errors).get(tag)
        if isinstance(t, type) and issubclass(t, P.errors.PyroError):
            return True
        ns, _, short = tag.partition(".")
        if ns in ("builtins", "exceptions"):
            t = vars(builtins).get(short)
            return isinstance(t, type) and issubclass(t, BaseException)
        if ns == "sqlite3":
            t = vars(sqlite3).get(short)
            return isinstance(t, type) and issubclass(t, BaseException)
    return False


class Gen:
    def __init__(self, r, sername):
        self.r, self.sername = r, sername
        self.must_raise = False      # a disallowed tag sits in a position every decoder recurses into
        self.ntags = 0

    def value(self, depth, recursed):
        r = self.r
        k = r.random()
        if depth <= 0 or k < 0.25:
            return r.choice([None, True, 0, -7, 2 ** 70, 1.5, "s", "", "é", "builtins.eval", [], {}])
        if k < 0.6:
            return self.tagged(depth - 1, recursed)
        if k < 0.75:
            return [self.value(depth - 1, recursed) for _ in range(r.randrange(1, 4))]
        if k < 0.85 and self.sername in ("serpent", "marshal"):
            return tuple(self.value(depth - 1, recursed) for _ in range(r.randrange(1, 3)))
        return {k: self.value(depth - 1, recursed) for k in r.sample(["a", "b", "args", "state", "value", "x" * 5], r.randrange(1, 3))}

    def pick_tag(self):
        r = self.r
        k = r.random()
        if k < 0.22:
            return r.choice(SAFE_TAGS)
        if k < 0.42:
            return r.choice(EXC_TAGS)
        if k < 0.9:
            return r.choice(HOSTILE_TAGS)
        if k < 0.95 and self.sername in ("marshal", "msgpack"):
            return r.choice(BYTES_TAGS)
        if self.sername == "json":
            return r.choice([t for t in NONSTR_TAGS])
        return r.choice(NONSTR_TAGS)

    def tagged(self, depth, recursed):
        r = self.r
        self.ntags += 1
        tag = self.pick_tag()
        d = {"__class__": tag}
        k = r.random()
        excflag = False
        if k < 0.55:
            excflag = r.choice([True, True, 1, "yes", False, 0, None])
            d["__exception__"] = excflag
        allowed = tag_allowed(self.P, tag, bool(excflag), self.sername)
        if recursed and not allowed:
            self.must_raise = True
        inner_rec = False      # members of a class dict are that class's data: whether a decoder looks inside is not part of the statement
        # members (options are thunks: generating a nested tagged dict has the side effect of marking must_raise)
        V = lambda rec_: (lambda: self.value(depth, rec_))
        C = lambda v: (lambda: v)

        def pick(options):
            return r.choice(options)()
        if r.random() < 0.7:
            d["args"] = pick([C([]), C(["msg"]), C([1, "two"]), C(["/nonexistent-c04/x", "r"]), C(["1+1  # c04"]), C(["print(1)"]), C([["nested"]]), C("notalist"), C(None),
                              lambda: [self.value(depth, inner_rec)], C([0, 0, 0, 0, 0]),
                              C(["utf-8", b"x" if self.sername in ("marshal", "msgpack") else "x", 0, 1, "r"])])
        if r.random() < 0.5:
            d["attributes"] = pick([C({}), C({"x": 1}), C({"__class__": "builtins.eval"}) if self.sername != "msgpack" else C({"y": 2}), C({"__dict__": {"a": 1}}), C({"args": ["z"]}),
                                    C({"__traceback__": 1}), C({"with_traceback": 1}), C({"__cause__": "c"}), C({"_pyroTraceback": ["tb"]}),
                                    lambda: {"x": self.value(depth, inner_rec)}, C("notadict"), C(None), C({"__init__": 1, "__reduce__": 2}), C({"__setstate__": 1})])
        if r.random() < 0.5:
            d["state"] = pick([C([]), C(["PYRO", "obj", None, "h", 1]), C(["PYRO:o@h:1", [], [], [], "hello", None]), C(["PYRO:o@h:1", ["m"], ["m"], ["a"], {"k": "v"}, "json"]),
                               C(["notauri", [], [], [], None, None]), C([1, 2, 3, 4, 5]), C("str"), C(None), lambda: ["PYRO", self.value(depth, inner_rec), None, "h", 1],
                               lambda: ["PYRONAME:x", [self.value(depth, inner_rec)], [], [], self.value(depth, inner_rec), None], C([[]]), C({"a": 1})])
        if r.random() < 0.3:
            wrapped_rec = inner_rec or (recursed and tag in ("Pyro5.core._ExceptionWrapper", b"Pyro5.core._ExceptionWrapper"))
            d["exception"] = pick([(lambda: self.tagged(depth - 1, wrapped_rec)) if depth > 0 else C(None), C("str"), C(None), C({"a": 1}), C(5)])
        if r.random() < 0.2:
            d["value"] = r.choice(["nan", "inf", "1.5", "1e999", "abc", None, [1], "__import__('os')"])
        if r.random() < 0.25 and depth > 0:
            # a member of any shape: in particular closed-set classes (Proxy, URI, exceptions) nested where a sequence or dict is expected
            member = r.choice([m for m in ["args", "state", "attributes", "exception", "value", "extra2"] if m not in d])   # never overwrite (a dropped value may have marked must_raise)
            nested = r.choice([
                lambda: {"__class__": "Pyro5.client.Proxy", "state": ["PYRO:victim@127.0.0.1:9", [], [], [], "hello", None]},
                lambda: {"__class__": "Pyro5.client.Proxy", "state": ["PYRO:victim@./u:/nonexistent-c04-sock", ["m"], [], [], "hello", None]},
                lambda: {"__class__": "Pyro5.core.URI", "state": ["PYRO", "obj", None, "127.0.0.1", 9]},
                lambda: {"__class__": "ValueError", "__exception__": True, "args": ["inner"]},
                lambda: {"__class__": "Pyro5.server.Daemon", "state": []},
                lambda: self.tagged(depth - 1, inner_rec),
            ])()
            d[member] = nested if r.random() < 0.6 else [nested]
        if r.random() < 0.2:
            # closed-set class dicts as the VALUE of an exception attribute whose name the exception type treats specially (args has a
            # setter that iterates its value; __cause__ / __context__ / __traceback__ / __dict__ are type-checked slots)
            name = r.choice(["args", "args", "__cause__", "__context__", "__dict__", "__notes__", "__traceback__", "note", "_pyroTraceback", "with_traceback"])
            nested = r.choice([
                {"__class__": "Pyro5.client.Proxy", "state": ["PYRO:victim@127.0.0.1:9", [], [], [], "hello", None]},
                {"__class__": "Pyro5.client.Proxy", "state": ["PYRO:victim@./u:/nonexistent-c04-sock", [], [], [], "hello", None]},
                {"__class__": "Pyro5.core.URI", "state": ["PYRO", "obj", None, "127.0.0.1", 9]},
                {"__class__": "ValueError", "__exception__": True, "args": ["inner"]},
            ])
            if not isinstance(d.get("attributes"), dict):
                d["attributes"] = {}
            d["attributes"] = dict(d["attributes"])
            d["attributes"][name] = nested if r.random() < 0.7 else [nested]
        if r.random() < 0.2:
            d[r.choice(["extra", "_pyroDaemon", "__init__", "object"])] = self.value(depth, inner_rec)
        if r.random() < 0.15 or (tag in ("collections.OrderedDict", "complex", "collections.deque") and r.random() < 0.8):
            # the members serpent's own class dicts have (OrderedDict/deque: items, complex: real/imag, bytes: data/encoding)
            d["items"] = pick([C([]), C([["k", 1]]), lambda: [["k", self.value(depth, inner_rec)]], lambda: [[1, 2], ["x", self.value(depth, inner_rec)]], C("notalist"), C([[["unhashable"], 1]])])
            if r.random() < 0.5:
                d["real"], d["imag"] = r.choice([1.0, "1", None, [1]]), r.choice([2.0, 0, "x"])
            if r.random() < 0.3:
                d["data"], d["encoding"] = "aGVsbG8=", "base64"
        return d


def encode(sername, tree, call):
    import serpent
    import msgpack
    if call:
        vargs, kwargs = tree
        if sername == "json":
            return json.dumps({"object": "obj", "method": "m", "params": vargs, "kwargs": kwargs}).encode("utf-8")
        payload = ("obj", "m", vargs, kwargs)
    else:
        payload = tree
        if sername == "json":
            return json.dumps(tree).encode("utf-8")
    if sername == "serpent":
        return serpent.dumps(payload)
    if sername == "marshal":
        return marshal.dumps(payload)
    return msgpack.packb(payload, use_bin_type=True)


class Monitor:
    def __init__(self, P):
        import msgpack
        self.P = P
        self.ExtType = msgpack.ExtType
        self.leaf = (type(None), bool, int, float, complex, str, bytes, bytearray, datetime.date, datetime.datetime)
        exc = set()
        for t in vars(builtins).values():
            if isinstance(t, type) and issubclass(t, BaseException):
                exc.add(t)
        for t in vars(P.errors).values():
            if isinstance(t, type) and issubclass(t, P.errors.PyroError):
                exc.add(t)
        for t in vars(sqlite3).values():
            if isinstance(t, type) and issubclass(t, BaseException):
                exc.add(t)
        exc.add(struct.error)
        self.exc_types = exc
        self.pyro_types = (P.core.URI, P.client.Proxy, P.server.Daemon, P.serializers.SerpentSerializer, P.serializers.MarshalSerializer,
                           P.serializers.JsonSerializer, P.serializers.MsgpackSerializer, P.core._ExceptionWrapper)

    def walk(self, o, bad, stats, seen=None, depth=0):
        if seen is None:
            seen = set()
        if id(o) in seen or depth > 60:
            return
        t = type(o)
        if t in self.leaf:
            return
        seen.add(id(o))
        if t in (list, tuple, set, frozenset):
            for e in o:
                self.walk(e, bad, stats, seen, depth + 1)
        elif t is dict:
            for k, v in o.items():
                self.walk(k, bad, stats, seen, depth + 1)
                self.walk(v, bad, stats, seen, depth + 1)
        elif t is self.ExtType:
            return
        elif t in self.pyro_types:
            stats["pyro"] = stats.get("pyro", 0) + 1
            for v in object.__getattribute__(o, "__dict__").values():
                self.walk(v, bad, stats, seen, depth + 1)
        elif t in self.exc_types:
            stats["exc"] = stats.get("exc", 0) + 1
            self.walk(o.args, bad, stats, seen, depth + 1)
            for v in vars(o).values():
                self.walk(v, bad, stats, seen, depth + 1)
        else:
            bad.append("%s.%s" % (t.__module__, t.__qualname__))


BUFFERS = {"bytes": bytes, "bytearray": bytearray, "memoryview": lambda d: memoryview(bytes(d))}


def run_decode(env, sername, data, call, must_raise, rec, payload, buf="bytes"):
    """buf: the buffer type the decoder is handed; the wire layer hands over bytes (plain messages, decompressed messages) or a memoryview
    into the receive buffer (messages that carry annotations)"""
    P, mon = env
    if payload is not None and len(payload) == 5:
        payload = tuple(payload) + (buf,)
    data = BUFFERS[buf](data)
    rec.count("decodes_from_" + buf)
    ser = P.serializers.serializers[sername]
    bait_loaded_before = "checks.c04_bait" in sys.modules
    mods_before = set(sys.modules)
    out, err = io.StringIO(), io.StringIO()
    so, se = sys.stdout, sys.stderr
    sys.stdout, sys.stderr = out, err
    result = exc = None
    import warnings
    try:
        warnings.simplefilter("ignore", SyntaxWarning)     # ast.literal_eval on mutated serpent text warns about escapes: not a side effect of Pyro
        with sandbox.armed() as s:
            try:
                result = ser.loadsCall(data) if call else ser.loads(data)
            except BaseException as x:     # SystemExit/KeyboardInterrupt escaping a decoder would be a finding too
                exc = x
    finally:
        sys.stdout, sys.stderr = so, se
    path = "loadsCall" if call else "loads"
    if isinstance(exc, (SystemExit, KeyboardInterrupt, GeneratorExit)):
        rec.violation("decoder-raises-baseexception", "%s.%s raised %r" % (sername, path, exc), payload)
        return
    for ev, detail in s.events:
        rec.violation("audit-event:" + ev.split(".")[0], "%s.%s triggered audit event %s%r while decoding" % (sername, path, ev, detail), payload)
        return
    rec.count("audit_allowed_events", sum(s.allowed.values()))
    new_mods = [m for m in set(sys.modules) - mods_before]
    if new_mods:
        rec.violation("decoder-imports-module", "%s.%s imported %s while decoding" % (sername, path, sorted(new_mods)[:5]), payload)
        return
    if "checks.c04_bait" in sys.modules and not bait_loaded_before:
        rec.violation("decoder-imports-module", "bait module imported", payload)
        return
    subs = sys.modules.get("checks.c04_subs")
    if subs is not None and subs.LOG:
        rec.violation("application-subclass-code-ran", "%s.%s ran code of an application subclass of a Pyro class while decoding (no converter registered): %r" % (sername, path, subs.LOG[:4]), payload)
        del subs.LOG[:]
        return
    if "checks.c04_bait" in sys.modules and len(sys.modules["checks.c04_bait"].LOG) > 1:
        rec.violation("bait-class-touched", "bait log: %r" % (sys.modules["checks.c04_bait"].LOG[:5],), payload)
        del sys.modules["checks.c04_bait"].LOG[1:]
        return
    if out.getvalue() or err.getvalue():
        rec.violation("decoder-writes-output", "%s.%s wrote %r / %r" % (sername, path, out.getvalue()[:100], err.getvalue()[:100]), payload)
        return
    if exc is not None:
        rec.count("rejected")
        if must_raise:
            rec.count("must_raise_checked")
        return
    if must_raise:
        rec.violation("disallowed-tag-accepted", "%s.%s returned %s for a payload holding a class tag outside the closed set in a recursed position" % (
            sername, path, safe_repr(result)), payload)
        return
    bad, stats = [], {}
    mon.walk(result, bad, stats)
    if bad:
        rec.violation("foreign-type-built", "%s.%s built object(s) of type %s" % (sername, path, sorted(set(bad))[:4]), payload)
        return
    rec.count("decoded_ok")
    rec.count("exceptions_built", stats.get("exc", 0))
    rec.count("pyro_objects_built", stats.get("pyro", 0))


def safe_repr(o):
    try:
        return core.short(o, 300)
    except Exception as x:
        return "<unreprable %s: %r>" % (type(o).__name__, x)


def mutate_bytes(r, data):
    b = bytearray(data)
    for _ in range(r.choice([1, 1, 2, 4])):
        k = r.random()
        if not b:
            break
        i = r.randrange(len(b))
        if k < 0.5:
            b[i] = r.randrange(256)
        elif k < 0.7:
            del b[i:i + r.randrange(1, 4)]
        elif k < 0.9:
            b[i:i] = bytes(r.randrange(256) for _ in range(r.randrange(1, 4)))
        else:
            j = r.randrange(len(b))
            b[i:i] = b[j:j + r.randrange(1, 12)]
    return bytes(b)


def make_case(P, r, sername):
    g = Gen(r, sername)
    g.P = P
    call = r.random() < 0.5
    depth = r.choice([1, 2, 3, 4, 6])
    if call:
        vargs = [g.value(depth, True) for _ in range(r.randrange(0, 3))]
        kwargs = {k: g.value(depth, True) for k in r.sample(["k", "kw", "x"], r.randrange(0, 3))}
        tree = (vargs, kwargs)
    else:
        tree = g.value(depth, True)
    if r.random() < 0.03:
        # the tree sits at the end of a long run of plain values (bulk data): it is judged exactly as it would be on its own
        filler = [r.choice([0, 1.5, "s", None, True])] * r.choice([101, 1001, 4097, 6000])
        if r.random() < 0.5:
            filler = [i if i % 3 else "x%d" % i for i in range(len(filler))]
        if call:
            tree = ([filler + list(tree[0])] if r.random() < 0.5 else [tuple(filler) + tuple(tree[0])], tree[1])
        else:
            tree = filler + [tree] if r.random() < 0.5 else [tuple(filler + [tree])]
        g.bulk = True
    return tree, call, g.must_raise, g.ntags


def setup():
    P = fixture.pyro()
    import Pyro5.nameserver  # noqa: everything a decoder may legitimately touch is imported before the hook is armed
    import serpent, msgpack, ast, zlib, base64  # noqa
    import Pyro5.compatibility.Pyro4  # noqa: defines subclasses of Proxy / URI / Daemon, as an application may
    import checks.c04_subs  # noqa
    sys.modules.pop("checks.c04_bait", None)
    return P, Monitor(P)


def plan(tier, seed):
    n = 8 if tier == "quick" else 16
    per = 25000 if tier == "quick" else 150000
    return [{"i": i, "n": per} for i in range(n)] + ([{"kind": "e10"}, {"kind": "strace", "n": 20000}] if tier == "thorough" else [])


def strace_pass(rec, n):
    """OS-level second opinion: the same kind of batch decoded in a child under strace; no execve/socket/connect/openat may
    occur between the two markers."""
    import os
    import subprocess
    import tempfile
    out = tempfile.mktemp(prefix="c04-strace-", dir=os.path.join(core.VERIF, ".work"))
    env = dict(os.environ, PYTHONPATH=os.pathsep.join([core.REPO, core.VERIF]))
    try:
        p = subprocess.run(["strace", "-f", "-e", "trace=execve,socket,connect,openat", "-o", out, sys.executable, "-m", "checks.c04_strace_child", str(rec.seed), str(n)],
                           cwd=core.VERIF, env=env, capture_output=True, text=True, timeout=900)
    except (OSError, subprocess.TimeoutExpired) as x:
        rec.inconc("strace pass could not run: %r" % (x,))
        return
    try:
        lines = open(out, errors="replace").read().splitlines()
    except OSError:
        rec.inconc("strace produced no trace: %s" % p.stderr[-200:])
        return
    finally:
        if os.path.exists(out):
            os.remove(out)
    try:
        b = next(i for i, l in enumerate(lines) if "C04-BEGIN" in l)
        e = next(i for i, l in enumerate(lines) if "C04-END" in l)
    except StopIteration:
        rec.inconc("strace pass: markers not found (child output: %s %s)" % (p.stdout[-100:], p.stderr[-200:]))
        return
    inside = lines[b + 1:e]
    decoded = int(p.stdout.split()[-1]) if p.stdout.split() else 0
    rec.case(("strace", rec.seed, n), sample={"strace_decoded_payloads": decoded, "syscalls_between_markers": len(inside), "trace_lines_total": len(lines)})
    rec.count("strace_decoded_payloads", decoded)
    rec.count("strace_syscalls_during_decoding", len(inside))
    for l in inside[:3]:
        rec.violation("os-level-syscall-during-decoding:" + (l.split("(")[0].split()[-1] if "(" in l else "?"), "strace saw, while %d hostile payloads were decoded: %s" % (decoded, l), {"strace_line": l})


def run_shard(shard, rec):
    if shard.get("kind") == "strace":
        strace_pass(rec, shard["n"])
        return
    if shard.get("kind") == "e10":
        from vlib import e10
        e10.run_e10("C04", rec)
        return
    env = setup()
    P = env[0]
    r = gen.rng(rec.seed, "c04", shard["i"])
    # warm-up decode so lazily imported modules (codecs, encodings) are loaded before module-diffing starts
    for name in fixture.SERIALIZERS:
        s = P.serializers.serializers[name]
        s.loads(s.dumps({"a": [1, "é", 2.5, None]}))
        try:
            s.loads(s.dumps(ValueError("x")))
            s.loads(s.dumps(P.core.URI("PYRO:o@h:1")))
        except Exception:
            pass
    for j in range(shard["n"]):
        sername = fixture.SERIALIZERS[j % 4]
        tree, call, must_raise, ntags = make_case(P, r, sername)
        try:
            data = encode(sername, tree, call)
        except Exception:
            rec.count("unencodable_tree")
            continue
        payload = ("tree", sername, call, data, must_raise)
        rec.case(("t", sername, call, core.h64(data)), nontrivial=ntags > 0,
                 sample={"serializer": sername, "path": "loadsCall" if call else "loads", "tree": core.short(tree, 300), "must_raise": must_raise} if j % 400 == 5 else None)
        if len(data) > 4000:
            rec.count("bulk_payloads")
        run_decode(env, sername, data, call, must_raise, rec, payload, buf="bytes" if (j // 4) % 4 else "bytearray")
        if ntags > 0 or j % 5 == 0:
            rec.case(("t-mv", sername, call, core.h64(data)), nontrivial=ntags > 0)
            run_decode(env, sername, data, call, must_raise, rec, payload, buf="memoryview")
        if sername != "marshal" and j % 3 == 0:
            m = mutate_bytes(r, data)
            rec.case(("m", sername, call, core.h64(m)), nontrivial=True)
            rec.count("mutants_decoded")
            run_decode(env, sername, m, call, False, rec, ("tree", sername, call, m, False), buf=("bytes", "memoryview")[(j // 3) % 2])
    # the converter registry is the only sanctioned extension point
    SB = P.serializers.SerializerBase
    calls = []
    SB.register_dict_to_class("c04.Registered", lambda cn, d: calls.append(cn) or ("converted", d.get("v")))
    try:
        for name in fixture.SERIALIZERS:
            s = P.serializers.serializers[name]
            data = encode(name, [{"__class__": "c04.Registered", "v": 1}], False)
            got = s.loads(data)
            rec.case(("conv", name))
            if list(got[0]) != ["converted", 1]:
                rec.violation("converter-not-applied", "%s: registered converter result %r" % (name, got), None)
        # while that converter is registered, every OTHER tag is still a foreign tag: near misses of the registered name must be rejected
        # like before and must not reach the application's converter
        near = ["os.Registered", "subprocess.Registered", "Registered", "c04.sub.Registered", "x.c04.Registered", "c04.Registered2", "c04.registered",
                "evil__pkg.Registered", "builtins.Registered", "Pyro5.core.Registered", "c04.", ".Registered", "c04.Registered.", "C04.Registered"]
        for tag in near:
            for name in fixture.SERIALIZERS:
                for call in (False, True):
                    for flagged in (False, True):
                        node = {"__class__": tag, "v": 1}
                        if flagged:
                            node["__exception__"] = True
                            node["args"] = ["a"]
                            node["attributes"] = {}
                        for tree in ([node], [1, {"k": [node]}]):
                            before = len(calls)
                            try:
                                data = encode(name, (list(tree), {"kw": tree[-1]}) if call else list(tree), call)
                            except Exception:
                                continue
                            rec.case(("near", tag, name, call, flagged, len(tree)), nontrivial=True)
                            run_decode(env, name, data, call, True, rec, ("tree", name, call, data, True))
                            run_decode(env, name, data, call, True, rec, ("tree", name, call, data, True), buf="memoryview")
                            if len(calls) != before:
                                rec.violation("converter-called-for-unregistered-tag", "%s.%s: the converter registered for 'c04.Registered' was called for the tag %r" % (
                                    name, "loadsCall" if call else "loads", calls[-1]), ("tree", name, call, data, True))
                                del calls[before:]
                            rec.count("near_miss_tags_checked")
    finally:
        SB.unregister_dict_to_class("c04.Registered")
    for name in fixture.SERIALIZERS:
        data = encode(name, [{"__class__": "c04.Registered", "v": 1}], False)
        run_decode(env, name, data, False, True, rec, ("tree", name, False, data, True))
        rec.count("converter_exemption_checked")
    if len(calls) != 4:
        rec.violation("converter-called-unexpectedly", "converter calls: %r" % (calls,), None)
    for h in range(6 if rec.tier == "quick" else 60):
        converter_history(env, rec, r, 10)


def converter_history(env, rec, r, nops):
    """register / unregister histories of the converter registry through every public entry point (Pyro5.api, SerializerBase, a serializer class, a
    serializer instance: the registry is one, whoever is asked). After every step every serializer decodes every tag on both paths: a tag
    whose converter is registered at that moment is converted by exactly that converter; any other tag is a foreign tag again."""
    P = env[0]
    import Pyro5.api
    SB = P.serializers.SerializerBase
    classes = {"serpent": P.serializers.SerpentSerializer, "json": P.serializers.JsonSerializer, "marshal": P.serializers.MarshalSerializer, "msgpack": P.serializers.MsgpackSerializer}
    vias = [("api", Pyro5.api.register_dict_to_class, Pyro5.api.unregister_dict_to_class), ("base", SB.register_dict_to_class, SB.unregister_dict_to_class)]
    for name in fixture.SERIALIZERS:
        vias.append(("class:" + name, classes[name].register_dict_to_class, classes[name].unregister_dict_to_class))
        inst = P.serializers.serializers[name]
        vias.append(("instance:" + name, inst.register_dict_to_class, inst.unregister_dict_to_class))
    tags = ["c04h.Thing", "c04h.Other", "c04h.sub.Third"]
    calls = []
    model = {}       # tag -> generation of the converter registered now
    gen_no = [0]
    steps = []

    def conv(g):
        return lambda cn, d: calls.append((cn, g)) or ("converted", cn, g)
    try:
        for _ in range(nops):
            tag = r.choice(tags)
            via = r.choice(vias)
            if tag in model and r.random() < 0.6:
                via[2](tag)
                del model[tag]
                steps.append(("unregister", tag, via[0]))
            else:
                gen_no[0] += 1
                via[1](tag, conv(gen_no[0]))
                model[tag] = gen_no[0]
                steps.append(("register", tag, via[0]))
            for name in fixture.SERIALIZERS:
                ser = P.serializers.serializers[name]
                for t in tags:
                    for call in (False, True):
                        node = {"__class__": t, "v": 1}
                        data = encode(name, ([node], {}) if call else [0, {"k": node}], call)
                        pay = ("tree", name, call, data, t not in model)
                        rec.case(("convhist", core.h64(repr(steps)), name, t, call), nontrivial=True,
                                 sample={"converter_history": steps[-6:], "serializer": name, "tag": t, "registered_now": t in model} if rec.evaluations % 2000 == 9 else None)
                        before = len(calls)
                        if t not in model:
                            run_decode(env, name, data, call, True, rec, pay)
                            if len(calls) != before:
                                rec.violation("converter-called-after-unregister", "%s.%s: tag %r is not registered (history %r) but a converter registered earlier was called: %r" % (
                                    name, "loadsCall" if call else "loads", t, steps[-8:], calls[-1]), None)
                                del calls[before:]
                                return
                        else:
                            try:
                                ser.loadsCall(data) if call else ser.loads(data)
                                err = None
                            except Exception as x:
                                err = x
                            new = calls[before:]
                            if err is not None or new != [(t, model[t])]:
                                rec.violation("converter-not-applied", "%s.%s: tag %r has converter #%d registered (history %r): decoding raised %r, converter calls %r" % (
                                    name, "loadsCall" if call else "loads", t, model[t], steps[-8:], err, new), None)
                                return
                        rec.count("converter_history_decodes")
        # a converter that is withdrawn WHILE a message is being decoded (a redeem-once hook takes itself out of the registry when it runs):
        # from that moment on the tag is a foreign tag again, also for the rest of the message that is being decoded
        once_tag = "c04h.Once"
        for name in fixture.SERIALIZERS:
            ser = P.serializers.serializers[name]
            for call in (False, True):
                via = r.choice(vias)
                once_calls = []

                def once(cn, d, via=via, once_calls=once_calls):
                    once_calls.append(d.get("v"))
                    via[2](once_tag)
                    return ("redeemed", d.get("v"))
                via[1](once_tag, once)
                nodes = [{"__class__": once_tag, "v": 1}, {"k": {"__class__": once_tag, "v": 2}}, [{"__class__": once_tag, "v": 3}]]
                data = encode(name, (nodes, {}) if call else nodes, call)
                rec.case(("conv-once", name, call, via[0]), nontrivial=True)
                try:
                    ser.loadsCall(data) if call else ser.loads(data)
                    err = None
                except Exception as x:
                    err = x
                if len(once_calls) > 1 or err is None:
                    rec.violation("converter-called-after-unregister", "%s.%s: the converter for %r unregistered itself (via %s) when it converted the first of three tagged dicts of one message; "
                                  "it was called %d times (%r) and decoding %s" % (name, "loadsCall" if call else "loads", once_tag, via[0], len(once_calls), once_calls,
                                                                                     "raised %r" % (err,) if err is not None else "accepted the message"), None)
                    return
                rec.count("converter_withdrawn_during_decode_ok")
    finally:
        for t in tags + ["c04h.Once"]:
            for via in vias:
                try:
                    via[2](t)
                except Exception:
                    pass


def replay(payload, rec):
    env = setup()
    _, sername, call, data, must_raise = payload[:5]
    buf = payload[5] if len(payload) > 5 else "bytes"
    rec.case(("replay", sername, call, core.h64(data)))
    ser = env[0].serializers.serializers[sername]
    print("replay: %s %s of %r (must_raise=%s)" % (sername, "loadsCall" if call else "loads", data[:300], must_raise))
    run_decode(env, sername, data, call, must_raise, rec, payload, buf=buf)
