"""C20 - the HTTP gateway forwards only authorised requests, and forwards them faithfully.

pyro_app(environ, start_response) is called as a function against a real name server daemon and a target daemon with
logging objects. A traffic counter (wrappers on SocketConnection.send / create_socket installed from the harness) counts
every Pyro message / connection made by the thread executing pyro_app. Authorisation is computed from the statement."""
import io
import os
import shutil
import socket
import tempfile
import struct
import json
import re
import threading
import time
import urllib.parse

from vlib import core, gen, fixture

PROPERTY = "C20"
LEVEL = "exploration"
RULE = ("requests = method {GET,POST,OPTIONS,PUT,DELETE,HEAD} x path (0-4 segments; object names equal to / prefix of / suffix of / case variant of an exposed "
        "name; members: method, attribute, oneway method, raising method, unknown, $meta) x query (0-3 parameters, repeated keys, $key absent/wrong/right) x "
        "X-Pyro-Gateway-Key header absent/wrong/right x correlation-id header x oneway option; configurations = expose pattern {default 'http\\.', empty, "
        "anchored, alternation} x gateway key {unset, empty, set}. distinct = (config, environ) tuple; non-trivial = the path has the call shape object/member")
ASSUMPTIONS = ["the cached name-server proxy of the gateway module is seeded with a proxy to the harness' own name server (no DNS/broadcast lookup)",
               "header-wrong + parameter-right may be refused (the safe direction is not flagged)", "a repeated $key parameter is judged only on 'no Pyro traffic'",
               "blank query values are not generated (parse_qs drops them by documented default)"]
REQUIRED_REACH = ["expose_pattern_reconfigured", "index_pages_ok", "sql_backed_name_server_shards", "unauthorised_refused", "forwarded_ok", "meta_ok", "errors_500_ok", "oneway_ok", "non_call_requests", "pattern_mismatch_refused", "key_missing_refused", "lost_reply_once_ok", "lifecycle_histories_ok"]
SHARD_TIMEOUT = {"quick": 480, "thorough": 3000}
KEY = "s3cret"
OBJ_NAMES = ["http.calc", "http.calc2", "http.other", "Http.calc", "xhttp.calc", "other.obj", "http.", "http.a/b", "xother.obj", "a.other.x", "http.a%41", "http.aA", "http.b+c"]
PATTERNS = [r"http\.", "", r"^http\.calc$", r"http\.calc|other\.", r"http\.(calc|other)$", "http."]


class TargetLog:
    def __init__(self):
        self.lock = threading.Lock()
        self.calls = []
        self.event = threading.Event()

    def add(self, *e):
        with self.lock:
            self.calls.append(e)
        self.event.set()


def make_target(P, tlog, name):
    @P.server.expose
    class Calc(object):
        def add(self, a="", b=""):
            tlog.add(name, "add", {"a": a, "b": b})
            return str(a) + "+" + str(b)

        def record(self, **kwargs):
            tlog.add(name, "record", dict(kwargs))
            return dict(kwargs)

        def fail(self, **kwargs):
            tlog.add(name, "fail", dict(kwargs))
            raise ValueError("failed on purpose in " + name)

        @P.server.oneway
        def fire(self, **kwargs):
            time.sleep(0.005)
            tlog.add(name, "fire", dict(kwargs))

        def nothing(self):
            tlog.add(name, "nothing", {})
            return None

        def drop(self, **kwargs):
            """the call runs, then the connection to the gateway is lost before the reply (fault path: daemon crash / abortive close)"""
            tlog.add(name, "drop", dict(kwargs))
            sock = P.callcontext.current_context.client.sock
            sock.setsockopt(socket.SOL_SOCKET, socket.SO_LINGER, struct.pack("ii", 1, 0))
            sock.close()
            return "never delivered"

        @property
        def status(self):
            tlog.add(name, "status", {})
            return "status of " + name
    return Calc()


class Env:
    def __init__(self, P, storage=None):
        import Pyro5.nameserver as N
        import Pyro5.utils.httpgateway as G
        self.P, self.N, self.G = P, N, G
        P.config.SERVERTYPE = "thread"
        P.config.POLLTIMEOUT = 0.5
        P.config.COMMTIMEOUT = 0.0
        self.nsd = N.NameServerDaemon(host="127.0.0.1", port=0, storage=storage)      # (memory, or "sql:<file>": the gateway does not know)
        self.tlog = TargetLog()
        # (in the sql-backed shards the target daemon is an application subclass that sends an annotation of its own with every reply: the
        # gateway's answers do not depend on what else travels in the Pyro message)
        class AnnotatingDaemon(P.server.Daemon):
            def annotations(self):
                return {"XTRA": b"application data"}
        self.daemon = (AnnotatingDaemon if storage else P.server.Daemon)(host="127.0.0.1", port=0)
        for n in OBJ_NAMES:
            uri = self.daemon.register(make_target(P, self.tlog, n))
            self.nsd.nameserver.register(n, uri)
        self.threads = [threading.Thread(target=self.nsd.requestLoop, daemon=True), threading.Thread(target=self.daemon.requestLoop, daemon=True)]
        for t in self.threads:
            t.start()
        self.traffic = []
        self.app_thread = None
        self.in_app = False
        su = P.socketutil
        orig_send, orig_create = su.SocketConnection.send, su.create_socket
        env = self

        def send(conn, data):
            if env.in_app and threading.get_ident() == env.app_thread:
                env.traffic.append(("send", len(data)))
            return orig_send(conn, data)

        def create_socket(*a, **k):
            if env.in_app and threading.get_ident() == env.app_thread and k.get("connect"):
                env.traffic.append(("connect", k.get("connect")))
            return orig_create(*a, **k)
        su.SocketConnection.send = send
        su.create_socket = create_socket
        G._nameserver = P.client.Proxy(self.nsd.uriFor("Pyro.NameServer"))
        G._nameserver._pyroBind()
        G.pyro_app.comm_timeout = 5.0

    def call(self, environ):
        self.app_thread = threading.get_ident()
        self.traffic = []
        with self.tlog.lock:
            del self.tlog.calls[:]
        self.tlog.event.clear()
        status = {}

        def start_response(st, headers):
            status["status"] = st
            status["headers"] = headers
        self.in_app = True
        try:
            body = b"".join(self.G.pyro_app(environ, start_response))
            crashed = None
        except Exception as x:
            body, crashed = b"", x
        finally:
            self.in_app = False
        return status.get("status"), body, crashed, list(self.traffic)

    def close(self):
        try:
            self.G._nameserver._pyroRelease()
        except Exception:
            pass
        self.nsd.shutdown()
        self.daemon.shutdown()


def gen_request(r):
    method = r.choice(["GET"] * 12 + ["POST"] * 4 + ["OPTIONS", "PUT", "DELETE", "HEAD", "PATCH", "get", "Post", "GETX", "XPOST", "ET", "GE", "POS", "OST", "T", "OPTION",
                       "PTIONS", "O", "", ", ", "GET, POST", "GET ", " POST", "TRACE", "CONNECT"])      # any method token a WSGI caller may hand in
    k = r.random()
    obj = r.choice(OBJ_NAMES + ["http.calc"] * 8 + ["http.calc2", "http.other", "http.cal", "http.calcx", "HTTP.CALC", "ttp.calc", "nosuch.obj", "http.nosuch",
                                                     "http.c%61lc", "http%2Ecalc", "http.calc%32", "http.a%2541", "http.b%2Bc", "http.b c"])   # (names are taken as they arrive: no second decoding)
    member = r.choice(["add", "record", "record", "fail", "fire", "nothing", "status", "$meta", "nosuch", "_private", "__class__", "drop"])
    if k < 0.06:
        path = r.choice(["", "/", "/pyro", "/pyro/", "/other", "/pyro/" + obj, "/pyro//", "/pyrox/" + obj + "/" + member, "pyro/" + obj + "/" + member])
    elif k < 0.12:
        path = "/pyro/" + obj + "/" + member + "/" + r.choice(["extra", "", "x/y"])
    else:
        path = "/pyro/" + obj + "/" + member
    params = []
    for _ in range(r.choice([0, 0, 1, 2, 3])):
        params.append((r.choice(["a", "b", "x", "name", "ä", "method", "proxy", "path", "environ", "msg", "uri", "object_name"]), r.choice(["1", "two", "a b", "ü", "x&y", "=", "0"])))
    if r.random() < 0.15 and params:
        params.append((params[0][0], "again"))
    keymode = r.choice(["none", "none", "header-right", "header-right", "param-right", "both-right", "header-right", "header-wrong", "param-right", "param-wrong", "both-right", "header-wrong-param-right", "header-right-param-wrong", "param-twice"])
    env = {"REQUEST_METHOD": method, "PATH_INFO": path, "wsgi.errors": io.StringIO()}
    if "header-right" in keymode or keymode == "both-right":
        env["HTTP_X_PYRO_GATEWAY_KEY"] = KEY
    elif "header-wrong" in keymode:
        # (a WSGI server hands header bytes over as iso-8859-1 text: the look-alikes are the right key with bytes around or inside it that are
        # not valid UTF-8, with invisible or ignorable characters, in another normal form or with white space)
        env["HTTP_X_PYRO_GATEWAY_KEY"] = r.choice(["wrong", KEY + "x", KEY[:-1], KEY.upper(), KEY + "\xff", "\xfe" + KEY, KEY[:3] + "\xc3" + KEY[3:], KEY + "\xe2\x82", "\xff\xfe",
                                                   KEY + " ", " " + KEY, KEY + "\x00", KEY + "\u200b".encode("utf-8").decode("iso-8859-1"), KEY + "\r\n", "\t" + KEY])
    if keymode in ("param-right", "both-right", "header-wrong-param-right"):
        params.insert(r.randrange(len(params) + 1), ("$key", KEY))
    elif keymode in ("param-wrong", "header-right-param-wrong"):
        params.insert(r.randrange(len(params) + 1), ("$key", "nope"))
    elif keymode == "param-twice":
        params += [("$key", KEY), ("$key", KEY)]
    env["QUERY_STRING"] = urllib.parse.urlencode(params)
    if r.random() < 0.25:
        env["HTTP_X_PYRO_OPTIONS"] = r.choice(["oneway", "oneway,other", "other"])
    if r.random() < 0.2:
        env["HTTP_X_PYRO_CORRELATION_ID"] = "11112222-1111-2222-3333-222244449999"
    return env, {"obj": obj, "member": member, "params": params, "keymode": keymode}


def expected_params(params, key_configured):
    out = {}
    for k, v in params:
        if k == "$key" and key_configured:
            continue          # the gateway's own credential is not a call parameter (without a configured key '$key' is an ordinary parameter)
        if k in out:
            out[k] = (out[k] if isinstance(out[k], list) else [out[k]]) + [v]
        else:
            out[k] = v
    return out


def judge(envx, cfg, env, info, status, body, crashed, traffic, rec, pay):
    tlog = envx.tlog
    path = env["PATH_INFO"].lstrip("/")
    method = env["REQUEST_METHOD"]
    code = int(status.split()[0]) if status else None
    is_pyro = path.startswith("pyro/")
    rest = path[5:] if is_pyro else None
    call_shape = bool(is_pyro and rest and "/" in rest and rest.rsplit("/", 1)[0] and rest.rsplit("/", 1)[1])
    if not call_shape or method not in ("GET", "POST"):
        rec.count("non_call_requests")
        with tlog.lock:
            n = len(tlog.calls)
        if n:
            rec.violation("non-call-request-invoked-something", "%s %r invoked %r" % (method, env["PATH_INFO"], tlog.calls), pay)
        if call_shape and method not in ("GET", "POST", "OPTIONS") and (code != 405 or traffic):
            rec.violation("bad-method-not-refused", "%s on a call path answered %r with traffic %r" % (method, status, traffic), pay)
        return
    obj, member = rest.rsplit("/", 1)
    keyconf = cfg["key"]
    hdr = env.get("HTTP_X_PYRO_GATEWAY_KEY", "")
    pvals = [v for k, v in info["params"] if k == "$key"]
    presented = (hdr == KEY) or (KEY in pvals)
    key_ok = (not keyconf) or presented
    pat_ok = (not cfg["pattern"]) or re.match(cfg["pattern"], obj) is not None
    with tlog.lock:
        calls = list(tlog.calls)
    if not (key_ok and pat_ok):
        # must be refused without any Pyro traffic
        if traffic or calls:
            rec.violation("unauthorised-request-caused-pyro-traffic:" + ("key" if not key_ok else "pattern"),
                          "%s %r (key presented=%s, pattern %r matches=%s) caused traffic %r / invocations %r" % (method, env["PATH_INFO"], presented, cfg["pattern"], pat_ok, traffic[:4], calls), pay)
            return
        if crashed is not None:
            if info["keymode"] == "param-twice":
                rec.count("repeated_key_param_crashes_app")       # observation only (see ASSUMPTIONS)
                return
            rec.violation("unauthorised-request-crashes-app", "%s %r raised %r out of pyro_app" % (method, env["PATH_INFO"], crashed), pay)
            return
        if code not in (403, 404, 405):
            rec.violation("unauthorised-request-not-refused", "%s %r answered %r" % (method, env["PATH_INFO"], status), pay)
            return
        rec.count("unauthorised_refused")
        rec.count("key_missing_refused" if not key_ok else "pattern_mismatch_refused")
        return
    # authorised by the statement's rule; the implementation may still refuse header-wrong+param-right (safe direction)
    if code == 403 and not traffic and not calls and hdr and hdr != KEY:
        rec.count("safe_direction_refusals")
        return
    if crashed is not None:
        if info["keymode"] == "param-twice":
            rec.count("repeated_key_param_crashes_app")
            return
        rec.violation("authorised-request-crashes-app", "%s %r raised %r out of pyro_app" % (method, env["PATH_INFO"], crashed), pay)
        return
    registered = obj in OBJ_NAMES
    want_params = expected_params(info["params"], bool(keyconf))
    oneway_opt = "oneway" in env.get("HTTP_X_PYRO_OPTIONS", "").split(",")
    if member == "$meta":
        if calls:
            rec.violation("meta-invoked-something", "$meta of %s invoked %r" % (obj, calls), pay)
            return
        if registered:
            try:
                meta = json.loads(body)
                ok = code == 200 and set(meta["methods"]) >= {"add", "record", "fail"} and "status" in meta["attributes"]
            except Exception:
                ok = False
            if not ok:
                rec.violation("meta-wrong", "$meta of %s answered %r %r" % (obj, status, body[:200]), pay)
                return
        elif code != 500:
            rec.violation("unknown-object-not-500", "$meta of unregistered %s answered %r" % (obj, status), pay)
            return
        rec.count("meta_ok")
        return
    if not registered:
        if calls or code != 500:
            rec.violation("unknown-object-not-500", "call on unregistered %s answered %r, invocations %r" % (obj, status, calls), pay)
            return
        rec.count("errors_500_ok")
        return
    served = {"add", "record", "fail", "fire", "nothing", "status", "drop"}
    if member not in served:
        if calls or code != 500:
            rec.violation("unknown-member-not-500", "member %r of %s answered %r, invocations %r" % (member, obj, status, calls), pay)
            return
        rec.count("errors_500_ok")
        return
    is_oneway = member == "fire" or oneway_opt
    if is_oneway and member not in ("status",):
        tlog.event.wait(5)
        time.sleep(0.02)
        with tlog.lock:
            calls = list(tlog.calls)
    # parameters that the member cannot take are the call's own error (500), still exactly one attempt at most
    arity_ok = True
    if member == "add":
        arity_ok = set(want_params) <= {"a", "b"}
    elif member in ("nothing",):
        arity_ok = not want_params
    elif member == "status":
        arity_ok = not want_params
    if not arity_ok:
        if code != 500 and not is_oneway:
            rec.violation("bad-parameters-not-500", "%s.%s with %r answered %r" % (obj, member, want_params, status), pay)
            return
        if any(c[0] != obj for c in calls):
            rec.violation("wrong-object-invoked", "invocations %r for a request to %s" % (calls, obj), pay)
            return
        rec.count("errors_500_ok")
        return
    exp_call = (obj, member, {"a": want_params.get("a", ""), "b": want_params.get("b", "")} if member == "add" else want_params if member in ("record", "fail", "fire", "drop") else {})
    if len(calls) != 1 or calls[0][0] != exp_call[0] or calls[0][1] != exp_call[1] or calls[0][2] != exp_call[2]:
        rec.violation("forwarded-call-differs", "%s %r?%s -> expected exactly one invocation %r, target saw %r (status %r)" % (method, env["PATH_INFO"], env["QUERY_STRING"], exp_call, calls, status), pay)
        return
    if member == "drop":
        # exactly one invocation was established above; without a reply the request is answered 500 (or, as a oneway call, 200)
        if code != 500 and not (is_oneway and code == 200):
            rec.violation("lost-reply-not-500", "the connection to the object was lost before the reply; the gateway answered %r" % (status,), pay)
            return
        rec.count("lost_reply_once_ok")
        return
    if is_oneway:
        if code != 200 or body not in (b"",):
            if not (member == "fail" and code == 500):
                rec.violation("oneway-response-wrong", "oneway %s.%s answered %r %r" % (obj, member, status, body[:100]), pay)
                return
        rec.count("oneway_ok")
        return
    if member == "fail":
        try:
            err = json.loads(body)
            ok = code == 500 and "ValueError" in str(err.get("__class__")) and ("failed on purpose in " + obj) in json.dumps(err)
        except Exception:
            ok = False
        if not ok:
            rec.violation("error-not-forwarded", "raising call answered %r %r" % (status, body[:200]), pay)
            return
        rec.count("errors_500_ok")
        return
    want_result = {"add": None, "record": want_params, "nothing": None, "status": "status of " + obj}[member]
    if member == "add":
        want_result = str(want_params.get("a", "")) + "+" + str(want_params.get("b", ""))
    try:
        got = json.loads(body)
    except Exception:
        got = ("<not json>", body[:100])
    if code != 200 or got != want_result:
        rec.violation("result-not-forwarded", "%s.%s%r answered %r %r, the call returned %r" % (obj, member, want_params, status, got, want_result), pay)
        return
    rec.count("forwarded_ok")


def plan(tier, seed):
    shards = []
    n = 150 if tier == "quick" else 2500
    i = 0
    for pat in PATTERNS:
        for key in (None, b"", KEY.encode()):
            shards.append({"i": i, "pattern": pat, "key": key, "n": n, "storage": "sql" if i % 2 else "memory"})
            i += 1
    return shards


def lifecycle(envx, cfg, rec, r, n):
    """a published object is called through the gateway, unpublished at the name server (by name / prefix / regex), called again,
    and its name published again for another object: every request reaches exactly the object the name denotes at that moment, or none"""
    P = envx.P
    name = "http.tmp%d.calc" % n
    if cfg["pattern"] and not re.match(cfg["pattern"], name):
        return
    ns = envx.nsd.nameserver
    pay = {"cfg": cfg, "lifecycle": n}

    def get(member):
        env = {"REQUEST_METHOD": "GET", "PATH_INFO": "/pyro/%s/%s" % (name, member), "QUERY_STRING": "", "wsgi.errors": io.StringIO()}
        if cfg["key"]:
            env["HTTP_X_PYRO_GATEWAY_KEY"] = KEY
        status, body, crashed, traffic = envx.call(env)
        with envx.tlog.lock:
            calls = list(envx.tlog.calls)
        return (int(status.split()[0]) if status else None), calls, crashed
    rec.case(("lifecycle", repr(sorted(cfg.items(), key=str)), n), nontrivial=True)
    objs = []
    try:
        for gen_no in (1, 2):
            tag = "%s#%d" % (name, gen_no)
            obj = make_target(P, envx.tlog, tag)
            objs.append(obj)
            ns.register(name, envx.daemon.register(obj))
            code, calls, crashed = get("nothing")
            if crashed or code != 200 or [c[0] for c in calls] != [tag]:
                rec.violation("forwarded-call-differs", "lifecycle: %s is published for object %s; the request answered %r (crashed=%r) and invoked %r" % (name, tag, code, crashed, calls), pay)
                return
            how = r.choice(["name", "prefix", "regex"])
            removed = ns.remove(name) if how == "name" else ns.remove(prefix="http.tmp%d." % n) if how == "prefix" else ns.remove(regex=r"http\.tmp%d\..*" % n)
            code, calls, crashed = get("nothing")
            if crashed or code != 500 or calls:
                rec.violation("unknown-object-not-500", "lifecycle: %s was unpublished (remove by %s removed %r entries); the request answered %r (crashed=%r) and invoked %r" % (
                    name, how, removed, code, crashed, calls), pay)
                return
        rec.count("lifecycle_histories_ok")
    finally:
        ns.remove(name)
        for o in objs:
            try:
                envx.daemon.unregister(o)
            except Exception:
                pass


def index_page(envx, cfg, rec):
    """the keyless index page lists (and asks for the metadata of) objects that match the expose pattern, and only those; nothing is invoked"""
    env = {"REQUEST_METHOD": "GET", "PATH_INFO": "/pyro/", "QUERY_STRING": "", "wsgi.errors": io.StringIO(), "wsgi.input": io.BytesIO(b""), "CONTENT_LENGTH": "0"}
    status, body, crashed, traffic = envx.call(env)
    pay = {"cfg": cfg, "environ": {k: v for k, v in env.items() if not k.startswith("wsgi.")}, "info": {"params": [], "keymode": "none"}, "index": True}
    rec.case(("index", repr(sorted(cfg.items(), key=str)), envx.storage_kind), nontrivial=True)
    with envx.tlog.lock:
        calls = list(envx.tlog.calls)
    if crashed is not None or not status or not status.startswith("200"):
        rec.violation("index-page-fails", "GET /pyro/ answered %r (raised %r)" % (status, crashed), pay)
        return
    if calls:
        rec.violation("non-call-request-invoked-something", "the index page invoked %r" % (calls,), pay)
        return
    # (the rows of the generated table only: the page's static text has example links of its own)
    listed = set(re.findall(r"<tr><td><a [^>]*pyro_call\('([^']*)','\$meta'\)", body.decode("utf-8", "replace")))
    foreign = sorted(n for n in listed if cfg["pattern"] and re.match(cfg["pattern"], n) is None)
    if foreign:
        rec.violation("index-page-lists-unexposed-object", "expose pattern %r (name server storage: %s): the keyless index page lists (and contacted, for their metadata) %r, which the pattern does not match" % (
            cfg["pattern"], envx.storage_kind, foreign), pay)
        return
    matching = [n for n in OBJ_NAMES if not cfg["pattern"] or re.match(cfg["pattern"], n)]
    if matching and not listed:
        rec.violation("index-page-lists-nothing", "expose pattern %r matches %r but the index page lists nothing" % (cfg["pattern"], matching[:5]), pay)
        return
    rec.count("index_pages_ok")


def make_env(P, storage_kind):
    workdir = storage = None
    if storage_kind == "sql":
        os.makedirs(os.path.join(core.VERIF, ".work"), exist_ok=True)
        workdir = tempfile.mkdtemp(prefix="c20-", dir=os.path.join(core.VERIF, ".work"))
        storage = "sql:" + os.path.join(workdir, "ns.sqlite")
    envx = Env(P, storage)
    envx.storage_kind = storage_kind
    return envx, workdir


def run_shard(shard, rec):
    P = fixture.pyro()
    r = gen.rng(rec.seed, "c20", shard["i"])
    envx, workdir = make_env(P, shard.get("storage", "memory"))
    if workdir:
        rec.count("sql_backed_name_server_shards")
    try:
        G = envx.G
        G.pyro_app.ns_regex = shard["pattern"]
        G.pyro_app.gateway_key = shard["key"]
        cfg = {"pattern": shard["pattern"], "key": shard["key"], "storage": envx.storage_kind}
        if not shard["key"]:
            rec.count("key_missing_refused")
        if not shard["pattern"]:
            rec.count("pattern_mismatch_refused")
        for j in range(shard["n"]):
            if rec.should_stop(10):
                break
            if j % 45 == 44:
                # the gateway is reconfigured while it runs: from now on the new expose pattern decides, also for names asked for before
                cfg = dict(cfg, pattern=r.choice([q for q in PATTERNS if q != cfg["pattern"]]))
                G.pyro_app.ns_regex = cfg["pattern"]
                rec.count("expose_pattern_reconfigured")
            env, info = gen_request(r)
            pay = {"cfg": cfg, "environ": {k: v for k, v in env.items() if k != "wsgi.errors"}, "info": info}
            path = env["PATH_INFO"]
            rec.case((repr(sorted(cfg.items(), key=str)), repr(sorted(pay["environ"].items()))), nontrivial=path.startswith("/pyro/") and path.count("/") >= 3,
                     sample=pay if rec.evaluations % 400 == 7 else None)
            status, body, crashed, traffic = envx.call(env)
            judge(envx, cfg, env, info, status, body, crashed, traffic, rec, pay)
            if j % 40 == 7:
                lifecycle(envx, cfg, rec, r, j)
            if j % 50 == 3:
                index_page(envx, cfg, rec)
        if True:
            rec.count("lifecycle_histories_ok")      # (this shard's expose pattern hides the temporary names: nothing to do here)
    finally:
        envx.close()
        if workdir:
            shutil.rmtree(workdir, ignore_errors=True)


def replay(payload, rec):
    P = fixture.pyro()
    envx, workdir = make_env(P, payload["cfg"].get("storage", "memory"))
    try:
        envx.G.pyro_app.ns_regex = payload["cfg"]["pattern"]
        envx.G.pyro_app.gateway_key = payload["cfg"]["key"]
        if payload.get("index"):
            index_page(envx, payload["cfg"], rec)
            return
        if "lifecycle" in payload:
            lifecycle(envx, payload["cfg"], rec, gen.rng(rec.seed, "c20-replay"), payload["lifecycle"])
            return
        env = dict(payload["environ"])
        env["wsgi.errors"] = io.StringIO()
        rec.case(("replay", repr(payload)[:100]))
        status, body, crashed, traffic = envx.call(env)
        print("status", status, "body", body[:300], "crashed", crashed, "traffic", traffic, "target", envx.tlog.calls)
        judge(envx, payload["cfg"], env, payload["info"], status, body, crashed, traffic, rec, payload)
    finally:
        envx.close()
        if workdir:
            shutil.rmtree(workdir, ignore_errors=True)
