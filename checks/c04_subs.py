"""Application-style subclasses of Pyro's own classes for C04 (importable, no double underscore in the dotted name). An application may
subclass Proxy / URI / Daemon; that does not put its subclasses into the closed set: a class tag naming one of them is refused like any other
foreign tag, and none of their code runs while decoding. (Unlike c04_bait this module IS imported by the decoding process, before the
sandbox is armed - the subclasses exist, as they would in such an application.)"""
import Pyro5.api

LOG = []


class AuditedProxy(Pyro5.api.Proxy):
    def __new__(cls, *a, **k):
        LOG.append(("AuditedProxy.new",))
        return super().__new__(cls)

    def __setstate__(self, state):
        LOG.append(("AuditedProxy.setstate", repr(state)[:60]))
        super().__setstate__(state)


class TaggedURI(Pyro5.api.URI):
    def __new__(cls, *a, **k):
        LOG.append(("TaggedURI.new",))
        return super().__new__(cls)

    def __setstate__(self, state):
        LOG.append(("TaggedURI.setstate", repr(state)[:60]))
        super().__setstate__(state)


class LocalDaemon(Pyro5.api.Daemon):
    def __new__(cls, *a, **k):
        LOG.append(("LocalDaemon.new",))
        return super().__new__(cls)


class error(Exception):
    """the module-level exception of an application codec module, named the way extension modules name theirs (struct.error, zlib.error)"""

    def __init__(self, *a):
        LOG.append(("error.init", repr(a)[:60]))
        super().__init__(*a)
