"""C03 - a call returns its own reply or fails; never another call's answer; exactly-once accounting.

A fault-injecting relay (E4) sits between one Proxy and the daemon. Every call carries a unique token; the server counts
executions per token; the relay counts the requests it forwarded per token. After the fault script is exhausted the relay
is transparent and the same proxy must serve calls correctly again."""
import threading
import time

from vlib import core, gen, fixture, relay

PROPERTY = "C03"
LEVEL = "exploration"
RULE = ("histories of 5-25 calls on one proxy (normal, raising, oneway, batch, remote attribute read, stream open/next) x fault scripts assigning to "
        "each INVOKE one of {deliver, reply lost, reply delayed past the timeout, reply cut at a byte offset then RST, RST before the server saw the "
        "request, RST after it processed it, a stale earlier reply replayed first, reply duplicated, sequence number altered} x MAX_RETRIES 0/1/2 x both "
        "server types; the proxy's sequence counter starts at 0xFFF0 so every history crosses the 16-bit wrap; thorough tier enumerates every cut offset "
        "of a reply. distinct = (history, script, retries, server); one evaluation = one call; non-trivial = the call met a non-deliver action")
ASSUMPTIONS = ["no verdict depends on a reply being fast: a slow 'deliver' only turns a success into an allowed communication error",
               "replaying a reply from exactly 65536 calls earlier is outside the statement and not generated",
               "server-side execution counts are read after the server has handled every forwarded request (5 s watchdog, expiry = inconclusive)"]
REQUIRED_REACH = ["dead_stream_fetches_refused", "streams_continued_after_reconnect", "recovered_after_daemon_restart", "calls_own_reply", "calls_comm_error", "faults_applied", "oneway_calls", "recovered_after_faults", "exactly_once_tokens", "retries_observed", "seq_wraps"]
SHARD_TIMEOUT = {"quick": 480, "thorough": 3000}
KINDS = ["echo", "echo", "echo", "boom", "pyroboom", "oneway", "batch", "attr", "stream", "batchow", "batchmix", "onewaybad"]


class ServerLog:
    def __init__(self):
        self.lock = threading.Lock()
        self.exec = {}
        self.nonce = 0
        self.handled = 0

    def hit(self, token):
        with self.lock:
            self.exec[token] = self.exec.get(token, 0) + 1
            self.handled += 1


def make_env(P, servertype, variant=None):
    slog = ServerLog()

    @P.server.expose
    class Svc(object):
        def echo(self, token):
            slog.hit(token)
            return token

        def boom(self, token):
            slog.hit(token)
            raise ValueError(token)

        def pyroboom(self, token):
            slog.hit(token)
            raise P.errors.NamingError(token)

        @P.server.oneway
        def fire(self, token):
            slog.hit(token)

        @P.server.oneway
        def quiet(self):
            pass            # (a oneway-decorated method that is not counted: used as a batch member beside the counted call)

        def plain(self, x):
            return x

        @property
        def nonce(self):
            # (an attribute read carries no argument: the request's TOKN annotation says which call it belongs to)
            tok = bytes((P.callcontext.current_context.annotations or {}).get("TOKN", b"")).decode()
            if tok:
                slog.hit(tok)
            with slog.lock:
                slog.nonce += 1
                slog.handled += 1
                return slog.nonce

        def stream(self, token, n):
            slog.hit(token)
            return ((token, i) for i in range(n))
    fx = fixture.Fixture(servertype=servertype, COMMTIMEOUT=0.0, ITER_STREAMING=True, THREADPOOL_SIZE=30, variant=variant)
    fx.register(Svc(), "svc")
    return fx, slog


def gen_script(r, n, cut_offsets=None):
    script = []
    for _ in range(n):
        k = r.random()
        if k < 0.45:
            script.append(("deliver",))
        elif k < 0.53:
            script.append(("drop-reply",))
        elif k < 0.58:
            script.append(("delay-reply",))
        elif k < 0.68:
            script.append(("cut-reply", r.random() if cut_offsets is None else r.choice(cut_offsets)))
        elif k < 0.72:
            script.append(("rst-before",))
        elif k < 0.76:
            script.append(("rst-after",))
        elif k < 0.78:
            script.append(("fin-before",))
        elif k < 0.81:
            script.append(("fin-after",))
        elif k < 0.83:
            script.append(("cut-reply-fin", r.choice([0, 0, 1, 6, 39, 40, 41, r.random()])))
        elif k < 0.89:
            script.append(("stale-reply", r.randrange(8)))
        elif k < 0.94:
            script.append(("dup-reply",))
        else:
            script.append(("alter-seq", r.choice([-1, 1, 2, 0x8000, -0x10])))
    return script


def run_history(fx, slog, rl, rec, r, retries, ncalls, script, sername, hh):
    P = fx.P
    CE = P.errors.CommunicationError
    pay = {"script": script, "retries": retries, "ncalls": ncalls, "serializer": sername, "servertype": fx.servertype, "seed_kinds": None}
    rl.set_script(script)
    # the two knobs for the retry budget: the process-wide config.MAX_RETRIES (read when a proxy is made) and the documented per-proxy
    # override _pyroMaxRetries. A third of the histories use the global knob alone; the others override it per proxy while the global
    # knob says something ELSE (the override is what counts, also when it is 0)
    knob = getattr(r, "knob", None) or r.choice(["global", "override", "override"])
    glob = retries if knob == "global" else (getattr(r, "glob", None) if getattr(r, "glob", None) is not None else r.choice([g for g in (0, 1, 2, 3) if g != retries]))
    pay["knob"], pay["global_retries"] = knob, glob
    rec.count("retry_knob:" + knob)
    P.config.MAX_RETRIES = glob
    p = P.client.Proxy("PYRO:svc@127.0.0.1:%d" % rl.port)
    p._pyroSerializer = sername
    p._pyroTimeout = 5.0           # the first connect gets a generous timeout (a slow handshake on a loaded machine is not a verdict) ...
    if knob == "override":
        p._pyroMaxRetries = retries
    p._pyroBind()
    p._pyroTimeout = 0.15          # ... the calls a short one, so that lost replies surface quickly
    p._pyroSeq = 0xFFF0
    tokens = []
    kinds = []
    nonces = []
    ok = True
    durations = {}
    reuse_batch = r.random() < 0.5          # half of the histories send all their batches through ONE BatchProxy (documented re-use)
    shared_batch = P.client.BatchProxy(p)
    clean = True       # the previous call met no fault and got its own answer: nothing stale can be in flight
    del rl.anomalies[:]
    try:
        # half-way through, an application that started with retries switches them off on the same proxy (per-proxy setting, documented):
        # from then on the lower budget counts, also for methods this proxy has called before
        switch_at = ncalls // 2 if (retries > 0 and getattr(r, "random", None) and r.random() < 0.6) else None
        if hasattr(r, "switch_at"):
            switch_at = r.switch_at          # (replay of a recorded witness)
        budget = {}
        cur_retries = retries
        pay["switch_at"] = switch_at
        for ci in range(ncalls):
            if switch_at is not None and ci == switch_at:
                p._pyroMaxRetries = cur_retries = 0
                rec.count("retries_switched_off_midway")
            kind = r.choice(KINDS)
            kinds.append(kind)
            tok = "T%s.%d.%s;" % (hh, ci, kind)
            budget[tok] = cur_retries
            tokens.append((tok, kind))
            rl.current_token = tok
            P.callcontext.current_context.annotations = {"TOKN": tok.encode()}     # every request of this call (also stream fetches / attribute reads) names its token
            seq_before = p._pyroSeq
            applied_before = len(rl.applied)
            outcome = None
            after_failure = None
            t_call = time.monotonic()
            try:
                if kind == "echo":
                    outcome = ("ret", p.echo(tok))
                elif kind == "boom":
                    outcome = ("ret", p.boom(tok))
                elif kind == "pyroboom":
                    outcome = ("ret", p.pyroboom(tok))
                elif kind == "oneway":
                    outcome = ("ret", p.fire(tok))
                elif kind == "onewaybad":
                    # a oneway request the daemon cannot dispatch (no such member): still no reply, still None
                    outcome = ("ret", p._pyroInvoke(r.choice(["no_such_member", "_private", "echo.x"]), (tok,), {}, flags=P.protocol.FLAGS_ONEWAY))
                elif kind == "batch":
                    b = shared_batch if reuse_batch else P.client.BatchProxy(p)
                    b.echo(tok)
                    outcome = ("ret", list(b()))
                elif kind == "batchmix":
                    # a normal batch whose members include oneway-decorated methods: one result per member, in order
                    b = shared_batch if reuse_batch else P.client.BatchProxy(p)
                    b.plain("first")
                    b.quiet()
                    b.echo(tok)
                    b.quiet()
                    b.plain("last")
                    outcome = ("ret", list(b()))
                elif kind == "batchow":
                    b = shared_batch if reuse_batch else P.client.BatchProxy(p)
                    b.echo(tok)
                    outcome = ("ret", b(oneway=True))
                elif kind == "attr":
                    outcome = ("ret", p.nonce)
                else:
                    items = []
                    it = p.stream(tok, 3)
                    after_failure = None
                    try:
                        try:
                            for x in it:
                                items.append(tuple(x))
                        except CE:
                            # the iterator is asked once more after its failed fetch: it fails again, or it goes on with the stream (a returning
                            # client within the linger period); it can only say "end of stream" if the server said so
                            asked_before = rl.received.get(tok, 0)
                            try:
                                after_failure = ("item", tuple(next(it)))
                            except StopIteration:
                                after_failure = ("stop", rl.received.get(tok, 0) - asked_before)
                            except CE:
                                after_failure = ("comm",)
                            except Exception as x2:
                                after_failure = ("other", repr(x2))
                            raise
                    finally:
                        try:
                            it.close()
                        except Exception:
                            pass
                    outcome = ("ret", items)
            except CE as x:
                outcome = ("comm", type(x).__name__)
                if kind == "stream":
                    outcome = ("comm", type(x).__name__, list(items))
            except P.errors.NamingError as x:
                outcome = ("exc", x.args)
            except ValueError as x:
                outcome = ("exc", x.args)
            except Exception as x:
                outcome = ("other", repr(x))
            durations[tok] = time.monotonic() - t_call
            if p._pyroSeq < seq_before:
                rec.count("seq_wraps")
            if kind in ("oneway", "batchow", "onewaybad") and outcome and outcome[0] == "ret":
                # the caller has moved on before the relay handles its request: wait (bounded) until the relay has recorded what it did with it
                fx.wait_until(lambda: any(a[0] == tok for a in rl.applied[applied_before:]), 2.0)
            faulted = any(a[1] not in ("deliver", "deliver-oneway") for a in rl.applied[applied_before:])
            rec.case((fx.servertype, retries, sername, hh, ci), nontrivial=faulted, sample={"call": kind, "outcome": core.jsonable(outcome), "actions": [a[1] for a in rl.applied[applied_before:]], "retries": retries} if rec.evaluations % 500 == 3 else None)
            rec.count("faults_applied", sum(1 for a in rl.applied[applied_before:] if a[1] not in ("deliver", "deliver-oneway")))
            bad = None
            if rl.anomalies:
                bad = ("server-sent-unsolicited-reply", "while serving %s the daemon answered request seq %d with a message carrying seq %d: a reply nobody asked for "
                       "(e.g. to a oneway request) sits in the stream; earlier calls %r" % (tok, rl.anomalies[0][1], rl.anomalies[0][2], kinds[-4:]))
            elif outcome[0] == "comm" and clean and not faulted and outcome[1] == "TimeoutError":
                rec.count("slow_delivery_timeouts")      # a loaded machine may turn a fault-free call into a timeout: allowed, never a verdict
            elif outcome[0] == "comm" and clean and not faulted:
                bad = ("fault-free-call-failed", "call %s (%s) failed with %s although no fault was applied to it and the call before it (%s) had completed cleanly" % (
                    tok, kind, outcome[1], kinds[-2] if len(kinds) > 1 else "-"))
            if kind in ("oneway", "batchow", "onewaybad"):
                clean = clean and not faulted          # reads no reply: cannot clear what an earlier fault left in the stream
            else:
                clean = (not faulted) and outcome[0] in ("ret", "exc")
            if bad:
                pass
            elif outcome[0] == "comm":
                rec.count("calls_comm_error")
                if kind == "stream" and len(outcome) > 2:
                    want = [(tok, i) for i in range(3)]
                    if outcome[2] != want[:len(outcome[2])]:
                        bad = ("foreign-reply-accepted", "stream for %s delivered %r before failing" % (tok, outcome[2]))
                    elif after_failure == ("stop", 0):
                        bad = ("end-of-stream-nobody-reported", "stream for %s: after a fetch failed with %s (items so far %r) the iterator, asked again, reported the end of the stream "
                               "without sending a request: an answer that belongs to no invocation" % (tok, outcome[1], outcome[2]))
                    elif after_failure and after_failure[0] == "item" and (len(after_failure[1]) != 2 or after_failure[1][0] != tok):
                        bad = ("foreign-reply-accepted", "stream for %s: asked again after a failed fetch the iterator delivered %r" % (tok, after_failure[1]))
                    elif after_failure and after_failure[0] == "other":
                        bad = ("unexpected-exception", "stream for %s: asked again after a failed fetch the iterator raised %s" % (tok, after_failure[1]))
                    elif after_failure:
                        rec.count("stream_iterators_asked_again_after_failure")
            elif outcome[0] == "other":
                bad = ("unexpected-exception", "call %s (%s) raised %s, neither its own result/exception nor a communication error" % (tok, kind, outcome[1]))
            elif outcome[0] == "exc":
                if kind not in ("boom", "pyroboom") or outcome[1] != (tok,):
                    bad = ("foreign-reply-accepted", "call %s (%s) raised ValueError%r: the exception of another call" % (tok, kind, outcome[1]))
                else:
                    rec.count("calls_own_reply")
            else:
                v = outcome[1]
                if kind == "echo" and v != tok:
                    bad = ("foreign-reply-accepted", "call echo(%s) returned %r" % (tok, v))
                elif kind in ("boom", "pyroboom"):
                    bad = ("foreign-reply-accepted", "call %s(%s) returned %r instead of raising" % (kind, tok, v))
                elif kind in ("oneway", "batchow", "onewaybad"):
                    if v is not None:
                        bad = ("oneway-returned-something", "%s call returned %r" % (kind, v))
                    rec.count("oneway_calls")
                elif kind == "batch" and v != [tok]:
                    bad = ("foreign-reply-accepted", "batch [echo(%s)] returned %r" % (tok, v))
                elif kind == "batchmix" and v != ["first", None, tok, None, "last"]:
                    bad = ("foreign-reply-accepted", "batch [plain('first'), quiet(), echo(%s), quiet(), plain('last')] returned %r: results do not line up with the calls" % (tok, v))
                elif kind == "attr":
                    if not isinstance(v, int) or v in nonces or (nonces and v < max(nonces)):
                        bad = ("foreign-reply-accepted", "attribute read returned %r after %r: a stale or foreign reply" % (v, nonces[-5:]))
                    nonces.append(v)
                elif kind == "stream" and v != [(tok, i) for i in range(3)]:
                    bad = ("foreign-reply-accepted", "stream for %s delivered %r" % (tok, v))
                if not bad:
                    rec.count("calls_own_reply")
            if bad:
                rec.violation(bad[0], "%s; retries=%d; actions for this call: %r" % (bad[1], retries, rl.applied[applied_before:]), dict(pay, kinds=kinds))
                ok = False
                break
        # ---- recovery: the script is over (or cut short by the violation), the relay is transparent
        if ok:
            rl.set_script([])
            time.sleep(rl.delay + 0.05 if any(a[0] == "delay-reply" for a in script) else 0.0)
            p._pyroTimeout = 5.0
            failures = 0
            recovered = False
            for attempt in range(3):
                tok = "T%s.final%d.echo;" % (hh, attempt)
                rl.current_token = tok
                P.callcontext.current_context.annotations = {"TOKN": tok.encode()}
                tokens.append((tok, "echo"))
                try:
                    v = p.echo(tok)
                    if v != tok:
                        rec.violation("foreign-reply-accepted", "after the faults stopped echo(%s) returned %r" % (tok, v), dict(pay, kinds=kinds))
                        ok = False
                    recovered = True
                    break
                except CE:
                    failures += 1
                except Exception as x:
                    rec.violation("unexpected-exception", "after the faults stopped echo raised %r" % (x,), dict(pay, kinds=kinds))
                    ok = False
                    break
            if ok and (not recovered or failures > 1):
                rec.violation("proxy-does-not-recover", "transport healthy again, yet %d consecutive calls failed with communication errors (recovered=%s); last actions %r" % (
                    failures, recovered, rl.applied[-4:]), dict(pay, kinds=kinds))
                ok = False
            elif ok:
                rec.count("recovered_after_faults")
    finally:
        try:
            p._pyroRelease()
        except Exception:
            pass
    if not ok:
        return
    # ---- exactly-once accounting at quiescence
    want_handled = sum(rl.forwarded.get(t, 0) for t, k in tokens if k != "attr")
    settled = fx.wait_until(lambda: all(slog.exec.get(t, 0) >= min(1, rl.forwarded.get(t, 0)) for t, k in tokens if k not in ("stream", "onewaybad")), 5.0)
    time.sleep(0.02)
    for tok, kind in tokens:
        fw, rc = rl.forwarded.get(tok, 0), rl.received.get(tok, 0)
        ex = slog.exec.get(tok, 0)
        if kind in ("onewaybad",):
            continue
        if kind == "stream":
            if ex > fw:
                rec.violation("executed-more-than-delivered", "stream %s: method ran %d times, %d requests were forwarded" % (tok, ex, fw), dict(pay, kinds=kinds))
                return
            continue
        if ex != fw:
            if ex < fw and not settled:
                rec.inconc("server had not handled every forwarded request within the watchdog")
                continue
            rec.violation("executions-differ-from-delivered-requests", "token %s (%s): method ran %d times but the relay forwarded %d request(s) carrying it (received %d); retries=%d; actions %r" % (
                tok, kind, ex, fw, rc, retries, [a for a in rl.applied if a[0] == tok]), dict(pay, kinds=kinds))
            return
        if rc > 1 + budget.get(tok, retries):
            rec.violation("too-many-attempts", "token %s (%s): %d attempts with MAX_RETRIES=%d%s" % (tok, kind, rc, budget.get(tok, retries), " (switched off on this proxy half-way through the history; it was %d before)" % retries if budget.get(tok, retries) != retries else ""), dict(pay, kinds=kinds))
            return
        nfaults = sum(1 for a in rl.applied if a[0] == tok and a[1] not in ("deliver", "deliver-oneway", "tokenless-request"))
        if rc - 1 > nfaults and durations.get(tok, 0.0) >= 0.14 * (rc - 1 - nfaults):
            # each unexplained extra attempt took at least one client timeout (0.15 s): a slow delivery on a loaded machine may have timed out
            # at the client although the relay injected nothing. Allowed (never a verdict on speed), counted
            rec.count("retries_explained_by_slow_delivery")
        elif rc - 1 > nfaults:
            rec.violation("retried-without-communication-failure", "token %s (%s): %d requests were sent although only %d of them met a transport fault; a call whose own invocation answered must not be repeated" % (
                tok, kind, rc, nfaults), dict(pay, kinds=kinds))
            return
        if rc > 1:
            rec.count("retries_observed")
        rec.count("exactly_once_tokens")


def restart_phase(P, servertype, retries, sername, rec, r):
    """The transport fault of a name-server topology: the served daemon goes away and comes back somewhere else (another port, another
    generated object id) and registers its logical name again. A proxy made from the logical uri (PYRONAME, PYROMETA) or from the direct
    uri of the first incarnation may lose the call that hits the restart (a communication error, never somebody else's reply); for the
    logical proxies the transport is healthy again as soon as the name is registered again, so the calls after the failed one are served -
    by the new incarnation."""
    import Pyro5.nameserver as N
    P.config.SERVERTYPE = servertype
    P.config.POLLTIMEOUT = 0.5
    P.config.COMMTIMEOUT = 0.0
    nsd = N.NameServerDaemon(host="127.0.0.1", port=0)
    threads = [threading.Thread(target=nsd.requestLoop, daemon=True)]
    threads[0].start()
    nsloc = nsd.locationStr
    daemons = []

    def incarnation(k):
        @P.server.expose
        class Svc(object):
            def echo(self, token):
                return [k, token]
        d = P.server.Daemon(host="127.0.0.1", port=0)
        uri = d.register(Svc())           # (generated object id: different in every incarnation)
        nsd.nameserver.register("c03.restarting", uri, safe=False, metadata={"c03-restart"})
        t = threading.Thread(target=d.requestLoop, daemon=True)
        t.start()
        daemons.append((d, t))
        return d
    proxies = {}
    try:
        d = incarnation(0)
        for kind, uri in (("PYRONAME", "PYRONAME:c03.restarting@" + nsloc), ("PYROMETA", "PYROMETA:c03-restart@" + nsloc)):
            p = P.client.Proxy(uri)
            p._pyroSerializer = sername
            p._pyroMaxRetries = retries
            p._pyroTimeout = 10.0
            proxies[kind] = p
        tok = [0]

        def call(kind):
            tok[0] += 1
            t = "%s-%d" % (kind, tok[0])
            try:
                return ("ok", proxies[kind].echo(t), t)
            except P.errors.CommunicationError as x:
                return ("comm", repr(x), t)
            except Exception as x:
                return ("other", repr(x), t)
        for k in range(1, 4):
            pay = {"restart": True, "servertype": servertype, "retries": retries, "serializer": sername}
            for kind in proxies:
                rec.case(("restart", servertype, retries, sername, kind, k), nontrivial=True)
                res = call(kind)
                if res[0] != "ok" or res[1] != [k - 1, res[2]]:
                    rec.violation("not-own-reply", "restart phase: %s proxy before restart %d: call answered %r" % (kind, k, res), pay)
                    return
            # the daemon goes away ...
            old, oldt = daemons[-1]
            socks = list(old.sockets)
            pool = getattr(old.transportServer, "pool", None)
            if pool is not None:
                socks += [w.job.csock for w in list(pool.busy) if getattr(getattr(w, "job", None), "csock", None) is not None]
            old.shutdown()
            oldt.join(10)
            old.close()
            for sk in socks:          # (the process is gone: so are its connections)
                try:
                    getattr(sk, "sock", sk).shutdown(2)
                except Exception:
                    pass
            # ... and comes back somewhere else
            incarnation(k)
            for kind in proxies:
                outcomes = [call(kind) for _ in range(4)]
                for o in outcomes:
                    if o[0] == "other" or (o[0] == "ok" and o[1] != [k, o[2]]):
                        rec.violation("not-own-reply", "restart phase: %s proxy after restart %d: call %r answered %r (the incarnation serving now is %d)" % (kind, k, o[2], o[1], k), pay)
                        return
                # the first call may be the one that hits the dead connection; with the name registered again the transport is healthy
                if any(o[0] != "ok" for o in outcomes[1:]):
                    rec.violation("proxy-not-recovered-after-restart", "%s proxy (retries=%d): the served daemon was restarted at another location and its name registered again; "
                                  "the calls made afterwards on the same proxy ended %r (a fresh proxy for the same uri is served)" % (
                                      kind, retries, [(o[0], o[1]) for o in outcomes]), pay)
                    return
                rec.count("recovered_after_daemon_restart")
    finally:
        for p in proxies.values():
            try:
                p._pyroRelease()
            except Exception:
                pass
        for d, t in daemons:
            try:
                d.shutdown()
                d.close()
            except Exception:
                pass
        nsd.shutdown()
        nsd.close()


def stream_phase(P, servertype, sername, rec):
    """the stream-fetch kind of call. (1) A fetch on a stream the daemon has dropped fails; it is never answered with an item of somebody
    else's stream, and the other stream loses nothing. (2) A proxy whose connection dropped and that came back within the linger period goes
    on fetching for as long as it likes - the transport is healthy again."""
    import time as _t
    for linger in (0.0, 0.6):
        fx = fixture.Fixture(servertype=servertype, COMMTIMEOUT=0.0, ITER_STREAMING=True, ITER_STREAM_LINGER=linger, ITER_STREAM_LIFETIME=0.0)

        @P.server.expose
        class Src(object):
            def numbers(self, tag, n):
                return ([tag, i] for i in range(n))

            def ping(self):
                return "pong"
        fx.register(Src(), "src")
        pay = {"stream_phase": True, "servertype": servertype, "serializer": sername}
        a = fx.proxy("src", serializer=sername, timeout=10.0)
        b = fx.proxy("src", serializer=sername, timeout=10.0)
        try:
            for rnd in range(4 if linger == 0.0 else 2):
                rec.case(("stream-phase", servertype, sername, linger, rnd), nontrivial=True)
                ita = a.numbers("A%d" % rnd, 8)
                first = list(next(ita))
                a._pyroRelease()                 # the connection goes away ...
                if linger == 0.0:
                    if not fx.wait_until(lambda: not fx.daemon.streaming_responses, 10.0):
                        rec.inconc("stream phase: the daemon did not drop the stream of the closed connection")
                        return
                    others = [b.numbers("B%d.%d" % (rnd, j), 4) for j in range(1, 9)]     # ... somebody else opens streams (a few: whatever the daemon
                    itb = b.numbers("B%d" % rnd, 5)                                          # names streams by, a dead stream's name may come up again)
                    gotb = [list(next(itb))]
                    a.ping()                                  # ... the first proxy is back (new connection) and asks its old stream for more
                    try:
                        late = ("item", list(next(ita)))
                    except StopIteration:
                        late = ("stop",)
                    except Exception as x:
                        late = ("error", type(x).__name__)
                    gotb += [list(x) for x in itb]
                    for j, o in enumerate(others, 1):
                        if [list(x) for x in o] != [["B%d.%d" % (rnd, j), i] for i in range(4)]:
                            gotb.append("stream B%d.%d incomplete" % (rnd, j))
                    if late[0] == "item" or gotb != [["B%d" % rnd, i] for i in range(5)] or first != ["A%d" % rnd, 0]:
                        rec.violation("not-own-reply", "stream fetches: proxy A's stream was dropped with its connection; A's next fetch was answered %r, and the stream proxy B opened meanwhile "
                                      "delivered %r (its generator produces %r)" % (late, gotb, [["B%d" % rnd, i] for i in range(5)]), pay)
                        return
                    rec.count("dead_stream_fetches_refused")
                    for it_ in [ita, itb] + others:
                        # (closed here, by the thread that owns the proxies: the finalizer of a forgotten stream iterator makes a remote call
                        # from whatever thread the garbage collector happens to run in - in this process that can be the daemon's own loop)
                        try:
                            it_.close()
                        except Exception:
                            pass
                    del others, it_
                else:
                    a.ping()                                  # back within the linger period (new connection)
                    got = [first, list(next(ita))]            # the stream is taken over by the new connection
                    _t.sleep(linger + 0.3)                    # much later ...
                    fx.daemon._housekeeping()                 # ... and after a housekeeping pass the client is still served
                    try:
                        got += [list(x) for x in ita]
                        end = "stop"
                    except Exception as x:
                        end = repr(x)
                    if got != [["A%d" % rnd, i] for i in range(8)] or end != "stop":
                        rec.violation("proxy-not-recovered-after-reconnect", "stream fetches: the proxy reconnected within the linger period (%.1f s) and went on fetching; it received %r and then %s" % (linger, got, end), pay)
                        return
                    rec.count("streams_continued_after_reconnect")
                    try:
                        ita.close()
                    except Exception:
                        pass
        finally:
            for q in (a, b):
                try:
                    q._pyroRelease()
                except Exception:
                    pass
            fx.stop()


def plan(tier, seed):
    shards = []
    n = 12 if tier == "quick" else 80
    for st in ("thread", "multiplex"):
        for retries in (0, 1, 2):
            for sername in (["serpent"] if tier == "quick" else ["serpent", "msgpack"]):
                shards.append({"servertype": st, "retries": retries, "serializer": sername, "histories": n, "cut_enum": False})
        if tier == "thorough":
            shards.append({"servertype": st, "retries": 0, "serializer": "serpent", "histories": 0, "cut_enum": True})
    return shards


def run_shard(shard, rec):
    P = fixture.pyro()
    r = gen.rng(rec.seed, "c03", repr(sorted(shard.items())))
    fx, slog = make_env(P, shard["servertype"], fixture.variant_for(rec.seed, "c03", repr(sorted(shard.items()))))
    rec.count("fixture_variant:" + fx.variant)
    rl = relay.Relay(fx.location)
    try:
        for h in range(shard["histories"]):
            if rec.should_stop(8):
                break
            ncalls = r.randrange(5, 26)
            script = gen_script(r, ncalls + 6)
            run_history(fx, slog, rl, rec, r, shard["retries"], ncalls, script, shard["serializer"], "h%d" % h)
        if shard["cut_enum"]:
            # every byte offset of a reply: one call per offset (reply to echo is ~60-90 bytes)
            for off in range(0, 120):
                if rec.should_stop(8):
                    break
                script = [("deliver",), ("cut-reply", off), ("deliver",), ("dup-reply",), ("deliver",)]
                run_history(fx, slog, rl, rec, gen.rng(0, "cut", off), 0, 5, script, shard["serializer"], "cut%d" % off)
        for kind, text in fixture.take_faults():
            if kind == "thread-exception":
                rec.violation("server-thread-fault", text, None)
    finally:
        rl.close()
        fx.stop()
    restart_phase(P, shard["servertype"], shard["retries"], shard["serializer"], rec, r)
    if shard["retries"] == 0:
        stream_phase(P, shard["servertype"], shard["serializer"], rec)


def replay(payload, rec):
    P = fixture.pyro()
    if payload.get("stream_phase"):
        stream_phase(P, payload["servertype"], payload["serializer"], rec)
        return
    if payload.get("restart"):
        restart_phase(P, payload["servertype"], payload["retries"], payload["serializer"], rec, gen.rng(0, "replay"))
        return
    fx, slog = make_env(P, payload["servertype"])
    rl = relay.Relay(fx.location)
    try:
        kinds = payload.get("kinds") or []

        class FixedR:
            def __init__(self):
                self.i = 0
                self.knob, self.glob = payload.get("knob"), payload.get("global_retries")
                self.switch_at = payload.get("switch_at")

            def choice(self, seq):
                if seq is KINDS and self.i < len(kinds):
                    self.i += 1
                    return kinds[self.i - 1]
                return seq[0]
        run_history(fx, slog, rl, rec, FixedR(), payload["retries"], payload["ncalls"], payload["script"], payload["serializer"], "replay")
    finally:
        rl.close()
        fx.stop()
