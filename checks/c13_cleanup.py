"""C13 - every connection is cleaned up exactly once, however it ends.

Direct counts: clientDisconnect override (per stamped connection serial), close() counters on resource objects,
weakrefs to session instances, server-side socket state, pool/selector accounting, ResourceWarnings."""
import gc
import socket
import threading
import time
import weakref

from vlib import core, gen, fixture, wire, yieldinj

PROPERTY = "C13"
LEVEL = "fault_enumeration"
RULE = ("endings = {orderly release, close (FIN and RST) after every byte offset 0..len of a valid request, malformed request, server-side "
        "COMMTIMEOUT expiry mid-message, security error (a '__' class tag in the arguments), callback method re-raise, refused handshake} x "
        "0..5 resources tracked and 0..2 untracked before the end x session instance or not x 1-3 witness connections with their own resources "
        "x both server types. distinct = (ending, offset, resources, session, witnesses, server); non-trivial = the connection tracked a "
        "resource or held a session instance")
ASSUMPTIONS = ["'at quiescence' = after the disconnect hook was observed and the worker/selector slot count settled, awaited with a 10 s watchdog (expiry = inconclusive unless a server thread died)",
               "connections whose handshake was refused are only required to see <= 1 hook call and a closed socket"]
REQUIRED_REACH = ["oneway_calls_on_session_instances", "racing_first_trackings", "big_request_endings", "tls_daemon_shards", "server_ended_with_lingering_client", "ending_ok", "offset_endings", "resources_closed_once", "session_instances_dropped", "witness_unaffected", "timeout_endings", "security_endings", "callback_endings", "churn_connections_checked", "injected_yields", "application_hooks_that_raised", "resources_tracked_by_oneway_calls", "slow_hook_cases_ok"]
SHARD_TIMEOUT = {"quick": 480, "thorough": 3000}


class Res(object):
    _lock = threading.Lock()
    self_untracked = 0

    def __init__(self, rid, conn=None):
        self.rid = rid
        self.closed = 0
        self.connref = weakref.ref(conn) if conn is not None else None

    def close(self):
        with Res._lock:
            self.closed += 1
        if self.rid % 7 == 4 and self.connref is not None:
            # a resource that takes itself off its connection's books whenever it is closed, by whomever (so that the application's own
            # 'free' path is a single close() call)
            conn = self.connref()
            if conn is not None:
                conn.tracked_resources.discard(self)
                Res.self_untracked += 1
        if self.rid % 3 == 0:
            raise IOError("resource %d could not be released cleanly" % self.rid)     # one resource failing must not keep the others from being closed

    # what a resource looks like is the application's business: every fourth one is a (still empty) collection, every fifth says it is false
    def __len__(self):
        if self.rid % 4 == 1:
            return 0
        raise TypeError("this resource has no length")

    def __bool__(self):
        return self.rid % 5 != 2 and self.rid % 4 != 1


class World:
    def __init__(self):
        self.lock = threading.Lock()
        self.hook_failures = 0
        self.conns = {}       # serial -> {"tracked": [Res], "untracked": [Res], "session": weakref or None, "conn": SocketConnection}
        self.rid = 0

    def entry(self, serial):
        with self.lock:
            return self.conns.setdefault(serial, {"tracked": [], "untracked": [], "session": None, "conn": None})


def make_env(P, servertype, commtimeout, linger=30.0, pool=(2, 40), variant=None, ssl=False):
    world = World()
    ctx = P.callcontext.current_context

    @P.server.expose
    class Svc(object):
        def setup(self, ntrack, nuntrack):
            conn = ctx.client
            e = world.entry(conn._vserial)
            e["conn"] = conn
            for _ in range(ntrack + nuntrack):
                with world.lock:
                    world.rid += 1
                    r = Res(world.rid, ctx.client)
                ctx.track_resource(r)
                e["tracked"].append(r)
            for _ in range(nuntrack):
                r = e["tracked"].pop()
                ctx.untrack_resource(r)
                e["untracked"].append(r)
            return conn._vserial

        def whoami(self):
            return ctx.client._vserial

        @P.server.oneway
        def track_ow(self, serial):
            # a oneway call tracks a resource: it belongs to the connection the call came in on (the caller passes that connection's serial)
            with world.lock:
                world.rid += 1
                r = Res(world.rid, ctx.client)
            ctx.track_resource(r)
            e = world.entry(serial)
            e["tracked"].append(r)
            e["ow_done"] = e.get("ow_done", 0) + 1

        def ow_done(self, serial):
            return world.entry(serial).get("ow_done", 0)

        def noop(self, pad):
            return len(pad)

        def gen(self, n):
            return (i for i in range(n))

        @P.server.callback
        def cb_fail(self):
            raise ValueError("callback failure")

        def exit_now(self):
            raise SystemExit("the remote method calls sys.exit()")

    @P.server.behavior(instance_mode="session")
    @P.server.expose
    class Sess(object):
        def __init__(self):
            # a resource tracked from the constructor of the per-connection instance belongs to the connection the instance is created for
            with world.lock:
                world.rid += 1
                self.ctor_res = Res(world.rid, ctx.client)
            ctx.track_resource(self.ctor_res)

        @P.server.oneway
        def note_ow(self, serial):
            # a oneway call on the per-connection instance (served by a thread of its own): once it has run, nothing of it remains
            world.entry(serial)["sess_ow_done"] = world.entry(serial).get("sess_ow_done", 0) + 1

        def squares(self, n):
            # an item stream that is no generator (a map object over one of this instance's own methods)
            return map(self.square, range(n))

        def square(self, i):
            return i * i

        def touch(self):
            e = world.entry(ctx.client._vserial)
            e["session"] = weakref.ref(self)
            if self.ctor_res not in e["tracked"]:
                e["tracked"].append(self.ctor_res)
            return ctx.client._vserial

    fx = fixture.Fixture(servertype=servertype, COMMTIMEOUT=commtimeout, THREADPOOL_SIZE=pool[1], THREADPOOL_SIZE_MIN=pool[0], ITER_STREAMING=True, ITER_STREAM_LINGER=linger, variant=variant, ssl=ssl)
    fx.register(Svc(), "svc")
    fx.register(Sess, "sess")
    # a worker whose thread was ended from inside a method (sys.exit) stays on the pool's books as busy on the pinned tree: such slots are
    # known and not counted as connections (see the 'exit' ending)
    world.dead_slots = 0
    raw_live = fx.live_connection_count
    fx.live_connection_count = lambda: raw_live() - world.dead_slots

    def failing_hook(conn):
        # an application's clientDisconnect() hook may fail; the daemon's own cleanup of that connection must not depend on it
        if getattr(conn, "_vserial", 0) % 3 == 0:
            world.hook_failures += 1
            raise RuntimeError("application disconnect hook failed for connection %s" % getattr(conn, "_vserial", None))
    fx.daemon.on_disconnect = failing_hook
    # observation only: note, per connection, that the daemon's request handling gave up with a (server-side) timeout
    world.timeouts = {}
    inner = fx.daemon.handleRequest

    def observed_handle_request(conn):
        try:
            return inner(conn)
        except P.errors.TimeoutError:
            world.timeouts.setdefault(getattr(conn, "_vserial", None), time.monotonic())
            raise
    fx.daemon.handleRequest = observed_handle_request
    fx.world = world
    return fx, world


def hook_count(fx, serial):
    return len([e for e in fx.daemon.evlog.of("disconnect") if e[2] == serial])


_flip = __import__("itertools").count()


def world_of(fx):
    return fx.world


def open_victim(fx, ser, ntrack, nuntrack, use_session, rec, nstreams=0):
    c = wire.RawClient(fx.location, timeout=8.0)
    m = c.handshake("svc", ser)
    if m.type != wire.CONNECTOK:
        raise RuntimeError("handshake refused")
    def touch():
        r = c.invoke("sess", "touch", (), {}, ser)
        if r.flags & wire.F_EXC:
            raise RuntimeError("touch failed %r" % ser.loads(r.data))
    # every other session connection creates its instance with its very FIRST request (the serving thread's context still describes
    # whatever it served before)
    session_first = use_session and next(_flip) % 2 == 0
    if session_first:
        touch()
    r = c.invoke("svc", "setup", (ntrack, nuntrack), {}, ser)
    serial = ser.loads(r.data)
    if use_session and not session_first:
        touch()
    if use_session and serial % 2 == 1:
        c.invoke("sess", "note_ow", (serial,), {}, ser, flags=wire.F_ONEWAY, read=False)
        end = time.monotonic() + 8.0
        while not world_of(fx).entry(serial).get("sess_ow_done"):
            if time.monotonic() > end:
                raise RuntimeError("oneway call on the session instance was not served within 8 s")
            time.sleep(0.002)
        rec.count("oneway_calls_on_session_instances")
    if use_session and nstreams and not fx.P.config.ITER_STREAM_LINGER:
        # ... also a stream that belongs to the per-connection instance and has no close() of its own (with no linger period the stream goes
        # with the connection, and the instance with it)
        r = c.invoke("sess", "squares", (5,), {}, ser)
        sid = bytes(r.anns.get("STRM", b"")).decode()
        if sid:
            c.invoke("Pyro.Daemon", "get_next_stream_item", (sid,), {}, ser)
            rec.count("session_streams_left_open")
    for _ in range(nstreams):
        # an item stream that is still open when the connection ends is one more thing the daemon has to clean up
        r = c.invoke("svc", "gen", (5,), {}, ser)
        sid = bytes(r.anns.get("STRM", b"")).decode()
        if sid:
            c.invoke("Pyro.Daemon", "get_next_stream_item", (sid,), {}, ser)
    return c, serial


def gen_cases(r, tier, reqlen, servertype=None):
    cases = []
    offsets = list(range(0, reqlen + 1))       # every byte offset of the request, both tiers
    for off in offsets:
        for how in ("fin", "rst"):
            cases.append({"ending": "offset", "offset": off, "how": how})
    for _ in range(4 if tier == "quick" else 40):
        cases.append({"ending": "orderly"})
        cases.append({"ending": "malformed", "how": r.choice(["magic", "version", "msgtype", "garbage", "oversize", "annotations"])})
        cases.append({"ending": "security"})
        cases.append({"ending": "callback"})
        cases.append({"ending": "rst-after-request"})
        cases.append({"ending": "refused-handshake"})
    # a large request (200 kB) cut short with much of it - more than one receive chunk of 60000 bytes, or less - still missing
    for off in (40, 140, 70000, 130000, 199000, 200100):
        for how in ("fin", "rst"):
            cases.append({"ending": "big-offset", "offset": off, "how": how})
    if servertype == "thread":
        # (thread server only: on the multiplex server the same thing ends the request loop, i.e. the daemon is no longer running)
        cases.append({"ending": "exit"})
        cases.append({"ending": "exit"})
    for c in cases:
        c["ntrack"] = r.choice([0, 1, 1, 2, 3, 5])
        c["nuntrack"] = r.choice([0, 0, 1, 2])
        c["session"] = r.random() < 0.5
        c["witnesses"] = r.choice([1, 1, 2, 3])
        c["streams"] = r.choice([0, 0, 1, 2])
        if c["ending"] in ("malformed", "security", "callback"):
            c["client_lingers"] = r.random() < 0.5       # the client neither reads nor closes until the cleanup has been judged
    r.shuffle(cases)
    return cases


def run_case(fx, world, c, rec, r, sername):
    P = fx.P
    ser = P.serializers.serializers[sername]
    pay = dict(c, servertype=fx.servertype, serializer=sername, commtimeout=P.config.COMMTIMEOUT, linger=P.config.ITER_STREAM_LINGER)
    rec.case(tuple(sorted((k, repr(v)) for k, v in pay.items())), nontrivial=c["ntrack"] > 0 or c["session"],
             sample=pay if rec.evaluations % 60 == 3 else None)
    if not fx.wait_until(lambda: fx.live_connection_count() == 0, 10.0):
        rec.inconc("connections of the previous case still occupy %s slot(s)" % fx.live_connection_count())
    base_live = fx.live_connection_count()
    witnesses = []
    try:
        for _ in range(c["witnesses"]):
            w, ws = open_victim(fx, ser, r.choice([1, 2]), 0, r.random() < 0.5, rec, r.choice([0, 1]))
            witnesses.append((w, ws))
        if c["ending"] == "refused-handshake":
            v = wire.RawClient(fx.location, timeout=8.0)
            m = v.handshake("no-such-object", ser)
            v.close()
            time.sleep(0.02)
            ok = fx.wait_until(lambda: fx.live_connection_count() == base_live + len(witnesses), 10.0)
            if not ok:
                rec.violation("refused-connection-keeps-slot", "refused handshake left a worker/selector slot occupied: live=%s expected=%s" % (
                    fx.live_connection_count(), base_live + len(witnesses)), pay)
            else:
                rec.count("ending_ok")
            cleanup(witnesses)
            return
        v, serial = open_victim(fx, ser, c["ntrack"], c["nuntrack"], c["session"], rec, c.get("streams", 0))
    except Exception as x:
        rec.inconc("could not set up connections: %r" % (x,))
        for w, _ in witnesses:
            w.close()
        return
    ent = world.entry(serial)
    req = wire.encode(wire.INVOKE, 0, 9, ser.serializer_id, ser.dumpsCall("svc", "noop", ("p" * 30,), {}))
    e = c["ending"]
    still_open = None
    try:
        if e == "offset":
            if c["offset"]:
                v.send(req[:c["offset"]])
            v.close(rst=(c["how"] == "rst"))
            rec.count("offset_endings")
        elif e == "big-offset":
            big = wire.encode(wire.INVOKE, 0, 9, ser.serializer_id, ser.dumpsCall("svc", "noop", ("p" * 200000,), {}))
            v.sock.settimeout(20)
            v.send(big[:min(c["offset"], len(big) - 1)])
            v.close(rst=(c["how"] == "rst"))
            rec.count("big_request_endings")
        elif e == "orderly":
            v.invoke("svc", "noop", ("x",), {}, ser)
            v.close()
        elif e == "rst-after-request":
            v.send(req)
            v.close(rst=True)
        elif e == "malformed":
            how = c["how"]
            bad = {"magic": req[:38] + b"\x00\x00" + req[40:], "version": req[:4] + b"\x00\x01" + req[6:], "msgtype": req[:6] + b"\x09" + req[7:],
                   "garbage": b"\x00\x01garbage" * 9, "oversize": wire.encode(wire.INVOKE, 0, 1, ser.serializer_id, b"x", data_len=0xFFFFFFF0),
                   "annotations": wire.encode(wire.INVOKE, 0, 1, ser.serializer_id, b"xxxxxxxxxxxx", ann_len=5, data_len=7)}[how]
            v.send(bad)
            if c.get("client_lingers"):
                still_open = v       # the daemon ends this connection; its cleanup is due whether or not the client ever reads or closes
            else:
                v.expect_eof(8.0)
                v.close()
        elif e == "security":
            data = ser.dumpsCall("svc", "noop", ({"__class__": "a__b.C"},), {})
            v.send(wire.encode(wire.INVOKE, 0, 3, ser.serializer_id, data))
            if c.get("client_lingers"):
                still_open = v
            else:
                v.expect_eof(8.0)
                v.close()
            rec.count("security_endings")
        elif e == "callback":
            if c.get("client_lingers"):
                v.invoke("svc", "cb_fail", (), {}, ser, read=False)
                still_open = v
            else:
                try:
                    v.invoke("svc", "cb_fail", (), {}, ser)
                except (EOFError, OSError):
                    pass
                v.expect_eof(8.0)
                v.close()
            rec.count("callback_endings")
        elif e == "exit":
            # the served method ends its thread (sys.exit): not an Exception, nothing catches it - the connection's cleanup happens on the way out
            v.invoke("svc", "exit_now", (), {}, ser, read=False)
            world.dead_slots += 1
            still_open = v
            rec.count("method_exit_endings")
        elif e == "timeout":
            v.send(req[:c["offset"]])
            # stall: the server-side COMMTIMEOUT must expire. The ending is the server's doing: once its request handling has given up on
            # the connection with a timeout (observed), the cleanup is due, with the client's socket still open
            if not fx.wait_until(lambda: serial in world.timeouts, P.config.COMMTIMEOUT * 8 + 6.0):
                rec.inconc("the server's request handling did not time out on the stalled connection within the watchdog")
                v.close()
                return
            still_open = v
            rec.count("timeout_endings")
    except Exception as x:
        rec.inconc("ending could not be applied: %r" % (x,))
        v.close()
    # ---- quiescence: the server-side handling of that connection has returned
    ok = fx.wait_until(lambda: hook_count(fx, serial) >= 1 and fx.live_connection_count() == base_live + len(witnesses), 10.0)
    faults = fixture.take_faults()
    # (the worker thread that a method ended with sys.exit() is the 'exit' ending itself, not a fault of the daemon)
    died = [t for k, t in faults if k == "thread-exception" and not (t.startswith("SystemExit") and "the remote method calls sys.exit()" in t)]
    if died:
        rec.violation("server-thread-fault", died[0], pay)
    hc = hook_count(fx, serial)
    if not ok:
        if hc == 0:
            rec.violation("disconnect-hook-not-called", "connection %d ended by %s: the disconnect hook was not called within 10 s (live=%s, expected %s)" % (
                serial, describe(c), fx.live_connection_count(), base_live + len(witnesses)), pay)
        else:
            rec.violation("slot-not-released", "connection %d ended by %s: worker/selector slot not released within 10 s (live=%s, expected %s)" % (
                serial, describe(c), fx.live_connection_count(), base_live + len(witnesses)), pay)
        if still_open is not None:
            still_open.close()
        cleanup(witnesses)
        return
    # the hook runs (and the selector slot is given up) just before the connection object is closed: give that last step its bounded time too
    fx.wait_until(lambda: all(res.closed >= 1 for res in ent["tracked"]) and (ent["conn"] is None or sock_closed(ent["conn"])), 10.0)
    time.sleep(0.005)
    hc = hook_count(fx, serial)
    bad = None
    if hc != 1:
        bad = ("disconnect-hook-count", "disconnect hook called %d times for connection %d (%s)" % (hc, serial, describe(c)))
    if not bad:
        for res in ent["tracked"]:
            if res.closed != 1:
                bad = ("tracked-resource-close-count", "resource %d tracked on connection %d was closed %d times after %s" % (res.rid, serial, res.closed, describe(c)))
                break
    if not bad:
        for res in ent["untracked"]:
            if res.closed != 0:
                bad = ("untracked-resource-closed", "resource %d (untracked before the end) was closed %d times" % (res.rid, res.closed))
                break
    conn = ent["conn"]
    if not bad and conn is not None:
        try:
            fd = conn.sock.fileno()
        except Exception:
            fd = -1
        if fd != -1:
            bad = ("server-socket-not-closed", "server-side socket of connection %d still open (fd %d) after %s" % (serial, fd, describe(c)))
        elif len(conn.tracked_resources) != 0:
            bad = ("tracked-set-not-cleared", "connection %d still tracks %d resources" % (serial, len(conn.tracked_resources)))
        elif conn.pyroInstances:
            bad = ("session-instances-kept", "connection %d still holds session instances %r" % (serial, list(conn.pyroInstances)))
    if not bad and fx.P.config.ITER_STREAM_LINGER == 0 and ent["conn"] is not None:
        left = [sid for sid, info in list(fx.daemon.streaming_responses.items()) if info[0] is ent["conn"]]
        if left:
            bad = ("streams-of-dead-connection-kept", "ITER_STREAM_LINGER=0 but %d stream(s) of connection %d are still in the daemon's table" % (len(left), serial))
    if not bad and c["session"]:
        ref = ent["session"]
        ent["conn"] = None
        del conn
        gc.collect()
        if ref is not None and ref() is not None:
            gc.collect()
            if ref() is not None:
                bad = ("session-instance-alive", "session instance of connection %d is still alive after the connection ended (%s)" % (serial, describe(c)))
        if not bad:
            rec.count("session_instances_dropped")
    if not bad:
        for k, t in faults:
            # only server-side sockets (local address = the daemon's port); the harness' own client sockets do not count
            if k == "resource-warning" and "socket" in t and not isinstance(fx.location, str) and ("laddr=('127.0.0.1', %d)" % fx.location[1]) in t:
                bad = ("socket-resource-warning", t)
                break
    # ---- connections that are still open, and resources tracked on them, are unaffected
    if not bad:
        for w, ws in witnesses:
            we = world.entry(ws)
            try:
                m = w.invoke("svc", "whoami", (), {}, ser)
                if ser.loads(m.data) != ws:
                    bad = ("witness-disturbed", "witness %d got a wrong reply %r" % (ws, ser.loads(m.data)))
            except Exception as x:
                bad = ("witness-disturbed", "witness connection %d broke: %r" % (ws, x))
            if not bad and hook_count(fx, ws) != 0:
                bad = ("witness-disturbed", "disconnect hook called for open witness %d" % ws)
            if not bad and any(res.closed for res in we["tracked"]):
                bad = ("witness-resource-closed", "a resource tracked on open connection %d was closed" % ws)
            if bad:
                break
        if not bad:
            rec.count("witness_unaffected")
    if bad:
        rec.violation(bad[0], bad[1], pay)
    else:
        rec.count("ending_ok")
        rec.count("resources_closed_once", len(ent["tracked"]))
    if still_open is not None:
        if e not in ("timeout", "exit"):
            rec.count("server_ended_with_lingering_client")
        # (an error reply may come first: security error, failing callback method)
        if not bad and (still_open.expect_eof(5.0) if e == "timeout" else still_open.drain_eof(5.0)) is not True:
            rec.violation("timed-out-connection-not-ended-for-client" if e == "timeout" else "server-ended-connection-not-ended-for-client",
                          "connection %d was ended by the server (%s), but its client saw no end of stream within 5 s" % (serial, describe(c)), pay)
        still_open.close()
    # witnesses end orderly: same accounting
    for w, ws in witnesses:
        w.close()
    fx.wait_until(lambda: fx.live_connection_count() == base_live, 10.0)     # the hook runs before the connection object is closed
    for w, ws in witnesses:
        we = world.entry(ws)
        okw = fx.wait_until(lambda: hook_count(fx, ws) >= 1 and all(res.closed >= 1 for res in we["tracked"]), 10.0)
        if not okw or hook_count(fx, ws) != 1 or any(res.closed != 1 for res in we["tracked"]):
            rec.violation("orderly-release-cleanup", "witness %d after orderly close: hook=%d closes=%r" % (ws, hook_count(fx, ws), [res.closed for res in we["tracked"]]), pay)
        we["conn"] = None
    fx.wait_until(lambda: fx.live_connection_count() == base_live, 10.0)


def slow_hook_case(fx, world, rec, r, sername):
    """several connections end at about the same time while the application's disconnect hook of one of them takes longer than
    COMMTIMEOUT: every one of them still gets its hook, once, and its cleanup"""
    P = fx.P
    ser = P.serializers.serializers[sername]
    pay = {"slow_hook": True, "servertype": fx.servertype, "serializer": sername, "commtimeout": P.config.COMMTIMEOUT}
    rec.case(("slow-hook", fx.servertype, sername, P.config.COMMTIMEOUT), nontrivial=True, sample=pay)
    fx.wait_until(lambda: fx.live_connection_count() == 0, 10.0)
    try:
        victims = [open_victim(fx, ser, r.choice([1, 2]), 0, False, rec) for _ in range(4)]
    except Exception as x:
        rec.inconc("could not set up connections: %r" % (x,))
        return
    slow_serial = victims[0][1]
    saved = fx.daemon.on_disconnect

    def hook(conn):
        if getattr(conn, "_vserial", None) == slow_serial:
            time.sleep(P.config.COMMTIMEOUT * 2.5 + 0.2)       # a hook that takes its time (it logs to a database, say)
    fx.daemon.on_disconnect = hook
    try:
        for c, _ in victims:
            c.close()
        ok = fx.wait_until(lambda: all(hook_count(fx, sn) >= 1 for _, sn in victims) and fx.live_connection_count() == 0, 15.0)
        fx.wait_until(lambda: all(res.closed >= 1 for _, sn in victims for res in world.entry(sn)["tracked"]), 10.0)
        time.sleep(0.01)
    finally:
        fx.daemon.on_disconnect = saved
    for _, sn in victims:
        hc = hook_count(fx, sn)
        closes = [res.closed for res in world.entry(sn)["tracked"]]
        if hc != 1:
            rec.violation("disconnect-hook-count" if hc else "disconnect-hook-not-called", "4 connections ended together while the hook of connection %d was busy for %.2f s (COMMTIMEOUT %.2f): "
                          "the hook ran %d time(s) for connection %d" % (slow_serial, P.config.COMMTIMEOUT * 2.5 + 0.2, P.config.COMMTIMEOUT, hc, sn), pay)
            return
        if any(n != 1 for n in closes):
            rec.violation("tracked-resource-close-count", "slow-hook case: resources of connection %d closed %r times" % (sn, closes), pay)
            return
        world.entry(sn)["conn"] = None
    if not ok:
        rec.violation("slot-not-released", "slow-hook case: %s slot(s) still occupied" % fx.live_connection_count(), pay)
        return
    rec.count("slow_hook_cases_ok")


# ---- churn: connections ending while others are being accepted (free-running threads, seeded yield injection) -------------------------
class Churner(threading.Thread):
    def __init__(self, fx, sername, plan):
        super().__init__(daemon=True)
        self.fx, self.sername, self.plan = fx, sername, plan
        self.serials = []       # (serial, ntrack, ending)
        self.dropped = []       # connections the daemon accepted and then dropped without an answer
        self.oneway_tracked = 0
        self.racing_first_trackings = 0
        self.error = None

    def run(self):
        P = self.fx.P
        ser = P.serializers.serializers[self.sername]
        try:
            for ntrack, ending in self.plan:
                c = wire.RawClient(self.fx.location, timeout=8.0)
                if ending == "instant":
                    # a connection that ends before it has said anything: its job is over almost as soon as the accept loop has handed it out
                    c.close(rst=(ntrack % 2 == 1))
                    continue
                try:
                    m = c.handshake("svc", ser)
                except (EOFError, OSError) as x:
                    self.dropped.append(repr(x))
                    c.close()
                    continue
                if m.type != wire.CONNECTOK:
                    c.close()
                    continue
                racing = ntrack == 2 and ending == "fin"
                if racing:
                    # the connection's FIRST two resources are tracked at about the same time from two threads: by a oneway call (served by a
                    # thread of its own) and by the ordinary call that follows it at once on the same connection
                    serial = ser.loads(c.invoke("svc", "whoami", (), {}, ser).data)
                    c.invoke("svc", "track_ow", (serial,), {}, ser, flags=wire.F_ONEWAY, read=False)
                    time.sleep((0.0, 0.002, 0.004, 0.006)[serial % 4])
                    r = c.invoke("svc", "setup", (ntrack, 0), {}, ser)
                    end = time.monotonic() + 8.0
                    while ser.loads(c.invoke("svc", "ow_done", (serial,), {}, ser).data) < 1:
                        if time.monotonic() > end:
                            raise RuntimeError("oneway call was not served within 8 s")
                        time.sleep(0.002)
                    self.oneway_tracked += 1
                    self.racing_first_trackings += 1
                else:
                    r = c.invoke("svc", "setup", (ntrack, 0), {}, ser)
                    serial = ser.loads(r.data)
                if not racing and ntrack >= 1 and ending in ("fin", "rst") and serial % 2 == 0:
                    # one more resource, tracked by a oneway call (served by a thread of its own); the connection ends once that call has been served
                    c.invoke("svc", "track_ow", (serial,), {}, ser, flags=wire.F_ONEWAY, read=False)
                    end = time.monotonic() + 8.0
                    while ser.loads(c.invoke("svc", "ow_done", (serial,), {}, ser).data) < 1:
                        if time.monotonic() > end:
                            raise RuntimeError("oneway call was not served within 8 s")
                        time.sleep(0.002)
                    self.oneway_tracked += 1
                self.serials.append((serial, ntrack, ending))
                if ending == "half":
                    c.send(wire.encode(wire.INVOKE, 0, 9, ser.serializer_id, b"x" * 30)[:21])
                c.close(rst=(ending == "rst"))
        except Exception as x:
            self.error = x


def run_churn(fx, world, rec, r, sername, nthreads, rounds, plans=None):
    if plans is None:
        plans = [[(r.choice([0, 1, 2]), r.choice(["fin", "fin", "rst", "half", "instant", "instant"])) for _ in range(rounds)] for _ in range(nthreads)]
    nthreads = len(plans)
    pay = {"churn": plans, "servertype": fx.servertype, "serializer": sername}
    ths = [Churner(fx, sername, pl) for pl in plans]
    for t in ths:
        t.start()
    for t in ths:
        t.join(60)
        if t.is_alive():
            rec.inconc("churn client did not finish within the watchdog")
            return False
    for t in ths:
        if t.error is not None:
            rec.inconc("churn client failed in the harness: %r" % (t.error,))
            return False
    quiet = fx.wait_until(lambda: fx.live_connection_count() == 0, 10.0)
    serials = [x for t in ths for x in t.serials]
    fx.wait_until(lambda: all(hook_count(fx, sn) >= 1 for sn, _, _ in serials), 10.0)
    # the hook runs just before the connection object is closed: give that last step its bounded time too
    fx.wait_until(lambda: all(world.entry(sn)["conn"] is None or sock_closed(world.entry(sn)["conn"]) for sn, _, _ in serials), 10.0)
    # (close() shuts the socket first and closes the tracked resources after that)
    fx.wait_until(lambda: all(res.closed >= 1 for sn, _, _ in serials for res in world.entry(sn)["tracked"]), 10.0)
    time.sleep(0.01)
    for t in ths:
        for i in range(len(t.plan)):
            rec.case(("churn", core.h64(repr(plans)), t.name, i, fx.servertype, sername), sample=pay if rec.evaluations % 400 == 0 else None)
    for kind, text in fixture.take_faults():
        if kind == "thread-exception":
            rec.violation("server-thread-fault", text, pay)
            return False
    if not quiet:
        rec.violation("slot-not-released", "after %d connections opened and ended by %d concurrent clients, %s worker/selector slot(s) stay occupied for 10 s although no connection is open" % (
            len(serials), nthreads, fx.live_connection_count()), pay)
        return False
    if fx.servertype == "thread":
        pool = fx.pool()
        dead = [w for w in list(pool.busy) + list(pool.idle) if w.ident is not None and not w.is_alive()]
        if dead:
            rec.violation("dead-worker-in-pool", "%d worker thread(s) that have exited are still accounted for in the pool (busy=%d idle=%d)" % (len(dead), len(pool.busy), len(pool.idle)), pay)
            return False
    for sn, ntrack, ending in serials:
        hc = hook_count(fx, sn)
        ent = world.entry(sn)
        closes = [res.closed for res in ent["tracked"]]
        if hc != 1:
            rec.violation("disconnect-hook-count" if hc else "disconnect-hook-not-called", "churn: disconnect hook called %d times for connection %d (ended by %s)" % (hc, sn, ending), pay)
            return False
        if any(n != 1 for n in closes):
            rec.violation("tracked-resource-close-count", "churn: resources tracked on connection %d (ended by %s) were closed %r times" % (sn, ending, closes), pay)
            return False
        if ent["conn"] is not None and not sock_closed(ent["conn"]):
            rec.violation("server-socket-not-closed", "churn: server-side socket of connection %d still open" % sn, pay)
            return False
        ent["conn"] = None
        rec.count("churn_connections_checked")
    rec.count("resources_tracked_by_oneway_calls", sum(t.oneway_tracked for t in ths))
    rec.count("racing_first_trackings", sum(t.racing_first_trackings for t in ths))
    for t in ths:
        if t.dropped:
            # not a clause of C13 by itself (C05/C18 territory); counted so that the evidence shows it
            rec.count("churn_connections_dropped_unanswered", len(t.dropped))
    return True


def sock_closed(conn):
    try:
        return conn.sock.fileno() == -1
    except Exception:
        return True


def cleanup(witnesses):
    for w, _ in witnesses:
        w.close()


def describe(c):
    return "%s%s" % (c["ending"], "".join(" %s=%r" % (k, c[k]) for k in ("offset", "how") if k in c))


def plan(tier, seed):
    shards = []
    for st in ("thread", "multiplex"):
        for sername in fixture.SERIALIZERS:
            for rep in range(1 if tier == "quick" else 4):
                shards.append({"servertype": st, "serializer": sername, "kind": "main", "rep": rep, "linger": 0.0 if (rep + len(sername)) % 2 else 30.0})
        shards.append({"servertype": st, "serializer": "serpent", "kind": "timeout"})
        # the same endings against a daemon that speaks TLS (config.SSL): the server-side socket is an ssl object
        for rep in range(1 if tier == "quick" else 3):
            shards.append({"servertype": st, "serializer": fixture.SERIALIZERS[(rep + len(st)) % 4], "kind": "main", "rep": 100 + rep, "linger": 0.0, "ssl": True})
        for rep in range(2 if tier == "quick" else 6):
            shards.append({"servertype": st, "serializer": "marshal", "kind": "churn", "rep": rep, "histories": 40 if tier == "quick" else 400})
    return shards


def run_shard(shard, rec):
    P = fixture.pyro()
    r = gen.rng(rec.seed, "c13", repr(sorted(shard.items())))
    sername = shard["serializer"]
    if shard["kind"] == "timeout":
        fx, world = make_env(P, shard["servertype"], 0.25, variant=fixture.variant_for(rec.seed, "c13", repr(sorted(shard.items()))))
        rec.count("fixture_variant:" + fx.variant)
        try:
            ser = P.serializers.serializers[sername]
            reqlen = len(wire.encode(wire.INVOKE, 0, 9, ser.serializer_id, ser.dumpsCall("svc", "noop", ("p" * 30,), {})))
            offs = [0, 1, 6, 39, 40, 41, reqlen - 1] if rec.tier == "quick" else list(range(0, reqlen, 3))
            if shard["servertype"] == "multiplex":
                offs = [o for o in offs if o >= 1]     # the multiplex server only reads (and can only time out) once a byte has arrived
            for off in offs:
                c = {"ending": "timeout", "offset": off, "ntrack": r.choice([1, 2, 3]), "nuntrack": r.choice([0, 1]), "session": r.random() < 0.5, "witnesses": 0}
                run_case(fx, world, c, rec, r, sername)
            for _ in range(2 if rec.tier == "quick" else 10):
                slow_hook_case(fx, world, rec, r, sername)
        finally:
            fx.stop()
        return
    if shard["kind"] == "churn":
        fx, world = make_env(P, shard["servertype"], 0.0, 30.0, pool=(1, 12), variant=fixture.variant_for(rec.seed, "c13", repr(sorted(shard.items()))))
        rec.count("fixture_variant:" + fx.variant)
        try:
            # (even repetitions inject in the transport servers only - the accept / hand-over / disconnect paths get all the delays; odd ones
            # also in the call context and the connection object, where per-connection state is created and torn down)
            inj_files = ("Pyro5/svr_threads.py", "Pyro5/svr_multiplex.py") + (("Pyro5/callcontext.py", "Pyro5/socketutil.py") if shard["rep"] % 2 else ())
            yieldinj.enable(inj_files, 0.2, rec.seed * 13 + shard["rep"], max_sleep=0.003,
                            delay_funcs=(("Pyro5/server.py", "run", 0.004),))      # (the thread of a oneway call gets going late)
            for h in range(shard["histories"]):
                if rec.should_stop():
                    break
                if not run_churn(fx, world, rec, r, sername, r.randrange(2, 5), r.randrange(3, 9)):
                    break
                if not fx.loop_alive():
                    rec.violation("daemon-loop-died", "request loop stopped: %r" % (fx.loop_exc,), None)
                    break
            n, lines = yieldinj.disable()
            rec.count("injected_yields", n)
        finally:
            yieldinj.disable()
            fx.stop()
        return
    fx, world = make_env(P, shard["servertype"], 0.0, shard.get("linger", 30.0), variant=fixture.variant_for(rec.seed, "c13", repr(sorted(shard.items()))), ssl=shard.get("ssl", False))
    rec.count("fixture_variant:" + fx.variant)
    if shard.get("ssl"):
        rec.count("tls_daemon_shards")
    try:
        ser = P.serializers.serializers[sername]
        reqlen = len(wire.encode(wire.INVOKE, 0, 9, ser.serializer_id, ser.dumpsCall("svc", "noop", ("p" * 30,), {})))
        cases = gen_cases(r, rec.tier, reqlen, shard["servertype"])
        if shard.get("ssl") and rec.tier == "quick":
            cases = [c for i, c in enumerate(cases) if i % 3 == 0 or c["ending"] != "offset"]      # (TLS handshakes are slow: a third of the byte offsets)
        for c in cases:
            if rec.should_stop():
                break
            run_case(fx, world, c, rec, r, sername)
            if not fx.loop_alive():
                rec.violation("daemon-loop-died", "request loop stopped: %r" % (fx.loop_exc,), c)
                break
        # final sweep: no connection ever saw its hook twice
        counts = {}
        for e in fx.daemon.evlog.of("disconnect"):
            counts[e[2]] = counts.get(e[2], 0) + 1
        for serial, n in counts.items():
            if n > 1 and serial is not None:
                rec.violation("disconnect-hook-count", "disconnect hook called %d times for connection %s (final sweep)" % (n, serial), None)
        rec.count("application_hooks_that_raised", world.hook_failures)
    finally:
        fx.stop()


def replay(payload, rec):
    P = fixture.pyro()
    c = dict(payload)
    st = c.pop("servertype")
    sername = c.pop("serializer")
    if "churn" in c:
        # free-running threads: the recorded plans are re-run (with yield injection) until the violation shows again or 60 attempts held
        fx, world = make_env(P, st, 0.0, 30.0, pool=(1, 12))
        try:
            yieldinj.enable(("Pyro5/svr_threads.py", "Pyro5/svr_multiplex.py"), 0.2, 1, max_sleep=0.003)
            for _ in range(60):
                if not run_churn(fx, world, rec, gen.rng(0, "replay"), sername, 0, 0, plans=[[tuple(x) for x in pl] for pl in c["churn"]]):
                    break
        finally:
            yieldinj.disable()
            fx.stop()
        return
    ct = c.pop("commtimeout", 0.0)
    fx, world = make_env(P, st, ct, c.pop("linger", 30.0))
    try:
        if c.get("slow_hook"):
            for _ in range(5):
                slow_hook_case(fx, world, rec, gen.rng(0, "replay"), sername)
            return
        run_case(fx, world, c, rec, gen.rng(0, "replay"), sername)
    finally:
        fx.stop()
