"""C01 - values cross the wire unchanged, identically for arguments and results.

Metamorphic oracle (no hand-written mapping table): for every value x and serializer S
  A(x) = what a server method receives for positional x, K(x) for keyword x, R(x) what a client receives for result x
  (1) x in the lossless core  =>  A(x) == K(x) == R(x) == x   (type-exact, compression on and off)
  (2) A(x) == K(x) == R(x) for every x (if one path refuses, every path must refuse)
  (3) R(R(x)) == R(x)
  (4) the mapping facts the statement names: tuple/set -> list under json and msgpack, bytes -> base64 dict under serpent.
Level 1 drives the codec pairs (dumpsCall/loadsCall vs dumps/loads); level 2 a real daemon through Proxy, BatchProxy and a
streamed result, with COMPRESSION on and off and payloads straddling the 100-byte threshold."""
import contextlib
import threading

from vlib import core, gen, fixture

PROPERTY = "C01"
LEVEL = "exploration"
RULE = ("hypothesis-generated values (derandomised from the seed) from the lossless core (None/bool/ints to +-2^2048/floats incl. "
        "inf,nan,-0.0/valid unicode incl. NUL, astral, combining/lists/str-keyed dicts, nesting to 12) and the extended domain (bytes, "
        "bytearray, complex, tuple, set, frozenset, uuid, Decimal, date, datetime, non-str dict keys), x 4 serializers; codec level: "
        "positional/keyword/nested/result paths; wire level: Proxy, BatchProxy, streamed item, both server types, COMPRESSION on/off, "
        "paddings sweeping the payload across the 100-byte threshold. distinct = canonical type-tagged form of the value x serializer "
        "x level; non-trivial = not a bare scalar None/bool")
ASSUMPTIONS = ["ints bounded by CPython's int<->str digit limit", "datetimes: naive, whole milliseconds, TZ=UTC",
               "values a serializer refuses are only required to be refused on every path alike"]
REQUIRED_REACH = ["wire_slow_link_cases", "decimal_uuid_text_checked", "shards_with_one_sided_replacements", "huge_int_cases", "concurrent_wire_calls", "shards_with_serpent_bytes_repr", "codec_core_ok", "codec_ext_ok", "wire_ok", "wire_batch_ok", "wire_stream_ok", "wire_compressed_request", "wire_compressed_reply", "wire_with_annotations", "codec_memoryview_same"]
SHARD_TIMEOUT = {"quick": 480, "thorough": 2400}
RAISED = object()


def plan(tier, seed):
    shards = []
    ncodec, nwire = (4, 1) if tier == "quick" else (12, 4)
    per_codec = 900 if tier == "quick" else 6000
    per_wire = 70 if tier == "quick" else 500
    for i in range(ncodec):
        shards.append({"kind": "codec", "i": i, "n": per_codec})
    for st in ("thread", "multiplex"):
        for comp in (False, True):
            for i in range(nwire):
                shards.append({"kind": "wire", "servertype": st, "compression": comp, "i": i, "n": per_wire})
    # the serpent option SERPENT_BYTES_REPR (bytes travel as bytes literals instead of base64 dicts): the mapping changes, and is again the
    # same for arguments and results
    shards.append({"kind": "codec", "i": 100, "n": per_codec // 3, "bytes_repr": True})
    # the application registers a type replacement with ONE serializer (json: Decimal, msgpack: UUID): the other serializers' mapping of
    # that type is what it always was
    shards.append({"kind": "codec", "i": 101, "n": per_codec // 3, "one_sided_replacements": True})
    for st in ("thread", "multiplex"):
        shards.append({"kind": "wire", "servertype": st, "compression": st == "thread", "i": 100, "n": per_wire, "bytes_repr": True})
    return shards


ONE_SIDED = [False]


def one_sided_image(v):
    """what the one-sided replacement shard registers: Decimal -> its negation (json only), UUID -> its bit-complement (msgpack only)"""
    import decimal
    import uuid
    if type(v) is decimal.Decimal:
        return v.copy_negate()
    return uuid.UUID(int=v.int ^ ((1 << 128) - 1))


def outcome(fn):
    try:
        return fn()
    except RecursionError:
        raise
    except Exception as x:
        return (RAISED, type(x).__name__, str(x)[:120])


def is_raised(o):
    return isinstance(o, tuple) and len(o) == 3 and o[0] is RAISED


def agree(a, b):
    if is_raised(a) or is_raised(b):
        return is_raised(a) and is_raised(b)
    return gen.deep_eq(a, b)


def codec_paths(ser, x):
    A = outcome(lambda: ser.loadsCall(ser.dumpsCall("obj", "meth", (x,), {}))[2][0])
    K = outcome(lambda: ser.loadsCall(ser.dumpsCall("obj", "meth", (), {"kw": x}))[3]["kw"])
    A2 = outcome(lambda: ser.loadsCall(ser.dumpsCall("obj", "meth", (1, x), {"z": None}))[2][1])
    R = outcome(lambda: ser.loads(ser.dumps(x)))
    return A, K, A2, R


def codec_paths_memoryview(ser, x):
    """the same decoders fed a memoryview: that is what the protocol layer hands them when a message carries annotations"""
    A = outcome(lambda: ser.loadsCall(memoryview(bytes(ser.dumpsCall("obj", "meth", (x,), {}))))[2][0])
    K = outcome(lambda: ser.loadsCall(memoryview(bytes(ser.dumpsCall("obj", "meth", (), {"kw": x}))))[3]["kw"])
    R = outcome(lambda: ser.loads(memoryview(bytes(ser.dumps(x)))))
    return A, K, R


def unsign_complex_zero(v):
    t = type(v)
    if t is complex:
        return complex(v.real + 0.0, v.imag + 0.0)       # -0.0 + 0.0 == 0.0
    if t in (list, tuple):
        return t(unsign_complex_zero(e) for e in v)
    if t in (set, frozenset):
        return t(unsign_complex_zero(e) for e in v)
    if t is dict:
        return {unsign_complex_zero(k): unsign_complex_zero(e) for k, e in v.items()}
    return v


def check_codec(sers, name, x, is_core, rec):
    ser = sers[name]
    A, K, A2, R = codec_paths(ser, x)
    import Pyro5 as _P5
    pay = ("codec", name, x, is_core) + (("serpent-bytes-repr",) if _P5.config.SERPENT_BYTES_REPR else ())
    show = lambda o: ("raises %s: %s" % (o[1], o[2])) if is_raised(o) else core.short(o, 200)
    mA, mK, mR = codec_paths_memoryview(ser, x)
    if not (agree(mA, A) and agree(mK, K) and agree(mR, R)):
        rec.violation("memoryview-payload-decodes-differently:%s" % name, "%s: value %s decodes from bytes as arg=%s kw=%s result=%s but from a memoryview of the same bytes "
                      "(a message with annotations) as arg=%s kw=%s result=%s" % (name, core.short(x, 160), show(A), show(K), show(R), show(mA), show(mK), show(mR)), pay)
        return
    rec.count("codec_memoryview_same")
    if is_core:
        for label, o in (("positional argument", A), ("keyword argument", K), ("second positional argument", A2), ("result", R)):
            if is_raised(o) or not gen.deep_eq(o, x):
                rec.violation("core-value-changed:%s:%s" % (name, "arg" if "argument" in label else "result"),
                              "%s: lossless-core value %s arrives as %s on the %s path" % (name, core.short(x, 200), show(o), label), pay)
                return
        rec.count("codec_core_ok")
        return
    if not (agree(A, R) and agree(K, R) and agree(A2, R)):
        rec.violation("arg-result-mapping-differs:%s" % name,
                      "%s: value %s -> positional %s | keyword %s | result %s" % (name, core.short(x, 200), show(A), show(K), show(R)), pay)
        return
    if is_raised(R):
        rec.count("codec_refused_consistently")
        return
    RR = outcome(lambda: ser.loads(ser.dumps(R)))
    if name == "serpent" and not is_raised(RR):
        # the serpent library writes complex numbers as an expression '(a+bj)', which does not keep the sign of zero parts (library behaviour,
        # not Pyro's mapping): one more pass can turn (-0+0j) into 0j. Zero signs inside complex values are not compared here.
        R, RR = unsign_complex_zero(R), unsign_complex_zero(RR)
    if not agree(RR, R) or is_raised(RR):
        rec.violation("mapping-not-idempotent:%s" % name, "%s: R(x)=%s but R(R(x))=%s for x=%s" % (name, show(R), show(RR), core.short(x, 200)), pay)
        return
    rec.count("codec_ext_ok")
    if all_native(name, x) and not gen.deep_eq(R, x):
        rec.violation("native-type-changed:%s" % name, "%s: value %s is built from natively supported types only but arrives as %s" % (
            name, core.short(x, 200), show(R)), pay)
        return
    # (4) the mapping facts named in the statement
    if name in ("json", "msgpack") and type(x) in (tuple, set, frozenset) and type(R) is not list:
        rec.violation("documented-mapping-broken:%s" % name, "%s: %s arrives as %s, expected a list" % (name, type(x).__name__, type(R).__name__), pay)
    if name in ("serpent", "json", "msgpack"):
        # decimal and uuid values travel as their text under the three text-minded serializers (Pyro's serializer table)
        import decimal as _dec
        import uuid as _uuid
        want_text = str(x)
        if ONE_SIDED[0] and ((name == "json" and type(x) is _dec.Decimal) or (name == "msgpack" and type(x) is _uuid.UUID)):
            want_text = str(one_sided_image(x))       # (what the application asked THIS serializer to do)
        if type(x) in (_dec.Decimal, _uuid.UUID) and (type(R) is not str or R != want_text):
            rec.violation("documented-mapping-broken:%s" % name, "%s: %s %s arrives as %s, expected its text %r" % (name, type(x).__name__, x, show(R), want_text), pay)
            return
        if type(x) in (_dec.Decimal, _uuid.UUID):
            rec.count("decimal_uuid_text_checked")
        # ... and the same one level down (the replacement machinery sees nested values through another door)
        if type(x) is list and len(x) == 1 and type(x[0]) in (_dec.Decimal, _uuid.UUID):
            inner = x[0]
            want_inner = str(inner)
            if ONE_SIDED[0] and ((name == "json" and type(inner) is _dec.Decimal) or (name == "msgpack" and type(inner) is _uuid.UUID)):
                want_inner = str(one_sided_image(inner))
            if R != [want_inner]:
                rec.violation("documented-mapping-broken:%s" % name, "%s: [%s %s] arrives as %s, expected [%r]" % (name, type(inner).__name__, inner, show(R), want_inner), pay)
                return
            rec.count("decimal_uuid_text_checked")
    if name == "serpent" and type(x) is bytes:
        import base64
        import Pyro5
        if Pyro5.config.SERPENT_BYTES_REPR:
            if type(R) is not bytes or R != x:
                rec.violation("documented-mapping-broken:serpent", "serpent with SERPENT_BYTES_REPR: bytes %r arrive as %s, expected the same bytes" % (x, show(R)), pay)
        elif not (type(R) is dict and R.get("encoding") == "base64" and base64.b64decode(R.get("data", "")) == x):
            rec.violation("documented-mapping-broken:serpent", "serpent: bytes %r arrive as %s, expected the base64 dict" % (x, show(R)), pay)


import datetime as _dt

NATIVE = {   # types a serializer carries natively: the mapping is the identity on values built only from these (calibrated on the tree)
    "serpent": {type(None), bool, int, float, str, list, dict, tuple, set},   # not complex: the serpent library drops the sign of zero parts
    "marshal": {type(None), bool, int, float, str, list, dict, complex, tuple, set, frozenset, bytes},
    "json": {type(None), bool, int, float, str, list, dict},
    "msgpack": {type(None), bool, int, float, str, list, dict, complex, bytes, _dt.date, _dt.datetime},
}
STRKEYS_ONLY = {"json", "msgpack"}


def all_native(name, x):
    t = type(x)
    if t not in NATIVE[name]:
        return False
    if t in (list, tuple, set, frozenset):
        if name == "serpent" and t is set and not x:
            return False        # serpent has no literal for the empty set
        return all(all_native(name, e) for e in x)
    if t is dict:
        for k, v in x.items():
            if type(k) is not str and (name in STRKEYS_ONLY or not all_native(name, k)):
                return False
            if not all_native(name, v):
                return False
    return True


class EchoService:
    """stashes what it receives in-process so the comparison is on objects, not reprs"""

    def __init__(self):
        self.store = {}
        self.received = {}
        self.lock = threading.Lock()


def make_service(P):
    svc = EchoService()

    @P.server.expose
    class Echo(object):
        def echo(self, key, *a, **kw):
            with svc.lock:
                svc.received[key] = (a, kw)
            return list(a)

        def get(self, key):
            return svc.store[key]

        def stream(self, key):
            v = svc.store[key]
            return iter([v, [v]])

        def getbare(self, key):
            return svc.store[key][1]

        def streambare(self, key):
            x = svc.store[key][1]
            return iter([x, "|", x])      # the value itself as a stream item (not wrapped), twice, around a marker

    return svc, Echo()


def consume(it):
    """drain a remote iterator and close it HERE, in the client thread: an un-exhausted iterator left to the cyclic GC may be finalised inside
    the multiplex server's own thread (client and daemon share this process), whose close() call then waits for that very thread"""
    try:
        return list(it)
    finally:
        it.close()


def check_wire(fx, svc, name, x, is_core, pad, rec, seq, mkproxy=None):
    P = fx.P
    key = "k%d" % seq
    svc.store[key] = [pad, x]
    pay = ("wire", name, x, is_core, fx.servertype, P.config.COMPRESSION, pad) + (("serpent-bytes-repr",) if P.config.SERPENT_BYTES_REPR else ())
    show = lambda o: ("raises %s: %s" % (o[1], o[2])) if is_raised(o) else core.short(o, 200)
    sent = [pad, x]
    # every other case travels in messages that carry annotations (request: client context; reply: Daemon.annotations())
    annotated = seq % 2 == 1
    P.callcontext.current_context.annotations = {"CLNT": b"c%d" % seq} if annotated else {}
    fx.daemon.reply_annotations = {"SRVR": b"s%d" % seq} if annotated else None
    if annotated:
        rec.count("wire_with_annotations")
    if mkproxy is not None:
        pctx = mkproxy(name)
    elif seq % 3 == 0:
        # one long-lived proxy whose serializer is switched between calls (a documented per-proxy setting): each call travels in the
        # serializer selected for it
        live = getattr(fx, "live_proxy", None)
        if live is None:
            live = fx.live_proxy = fx.proxy("echo", serializer="serpent")
            live._pyroBind()
        live._pyroSerializer = name
        pctx = contextlib.nullcontext(live)
        rec.count("wire_serializer_switched_on_live_proxy")
    else:
        pctx = fx.proxy("echo", serializer=name)
    with pctx as p:
        res = outcome(lambda: p.echo(key, sent, kw=sent))
        with svc.lock:
            recv = svc.received.pop(key, None)
        got = outcome(lambda: p.get(key))

        def do_batch():
            b = P.client.BatchProxy(p)
            b.get(key)
            b.echo(key, sent)
            b.echo(key + "#kw", sent, kw=sent)         # a call with keyword arguments ...
            b.echo(key + "#nokw", sent)                # ... followed by one without: it must receive none
            return list(b())
        bat = outcome(do_batch)
        with svc.lock:
            recv_b = svc.received.pop(key, None)
            recv_kw = svc.received.pop(key + "#kw", None)
            recv_nokw = svc.received.pop(key + "#nokw", None)
        if not is_raised(bat) and recv_nokw is not None and (recv_nokw[1] != {} or recv_kw is None or set(recv_kw[1]) != {"kw"} or len(recv_nokw[0]) != 1):
            rec.violation("batched-call-arguments-differ:%s" % name, "%s: inside one batch echo(v, kw=v) then echo(v): the second call received args=%s kwargs=%s, the first kwargs=%s" % (
                name, core.short(recv_nokw[0], 100), core.short(recv_nokw[1], 100), core.short(recv_kw[1] if recv_kw else None, 100)), pay)
            del svc.store[key]
            return
        strm = outcome(lambda: consume(p.stream(key)))
        # the bare value (not wrapped in a list) as result, as stream item and as positional / keyword argument
        bare = outcome(lambda: p.getbare(key))
        sbare = outcome(lambda: consume(p.streambare(key)))
        bres = outcome(lambda: p.echo(key, x, kw=x))
        with svc.lock:
            recv_bare = svc.received.pop(key, None)
    del svc.store[key]
    if is_core:
        for label, o, want in (("bare result", bare, x), ("bare streamed items", sbare, [x, "|", x]),
                               ("bare positional argument", recv_bare[0][0] if recv_bare and recv_bare[0] else (RAISED, "-", "not delivered"), x),
                               ("bare keyword argument", recv_bare[1].get("kw", (RAISED, "-", "missing")) if recv_bare else (RAISED, "-", "not delivered"), x)):
            if is_raised(o) or not gen.deep_eq(o, want):
                rec.violation("core-value-changed-on-wire:%s" % name, "%s (%s, compression=%s): core value %s arrives as %s as %s" % (
                    name, fx.servertype, P.config.COMPRESSION, core.short(want, 200), show(o), label), pay)
                return
    elif not is_raised(bare):
        if is_raised(sbare) or not gen.deep_eq(sbare, [bare, "|", bare]):
            rec.violation("arg-result-mapping-differs-on-wire:%s" % name, "%s: value %s arrives as %s as a bare result but streaming it item by item gives %s" % (
                name, core.short(x, 200), core.short(bare, 200), show(sbare)), pay)
            return
        if recv_bare is None or not gen.deep_eq(recv_bare[0][0], bare) or not gen.deep_eq(recv_bare[1].get("kw"), bare):
            rec.violation("arg-result-mapping-differs-on-wire:%s" % name, "%s: value %s arrives as %s as a bare result but as %s as bare arguments" % (
                name, core.short(x, 200), core.short(bare, 200), core.short(recv_bare, 200)), pay)
            return
    if is_core:
        if recv is None or is_raised(res):
            rec.violation("core-value-refused-on-wire:%s" % name, "%s: call with core value %s failed: %s" % (name, core.short(x), show(res)), pay)
            return
        a, kw = recv
        for label, o in (("positional argument", a[0] if a else None), ("keyword argument", kw.get("kw")), ("echoed result", res[0] if res else None),
                         ("result", got), ("batch result", bat[0] if not is_raised(bat) else bat),
                         ("batch argument", recv_b[0][0] if recv_b and recv_b[0] else None),
                         ("streamed item", strm[0] if not is_raised(strm) and strm else strm),
                         ("nested streamed item", strm[1][0] if not is_raised(strm) and len(strm) > 1 else strm)):
            if is_raised(o) or not gen.deep_eq(o, sent):
                rec.violation("core-value-changed-on-wire:%s" % name, "%s (%s, compression=%s): core value %s arrives as %s as %s" % (
                    name, fx.servertype, P.config.COMPRESSION, core.short(sent, 200), show(o), label), pay)
                return
        rec.count("wire_ok")
        rec.count("wire_batch_ok")
        rec.count("wire_stream_ok")
        return
    # extended domain: same mapping on every path, or refused on every path
    outs = {"echo": res, "get": got, "batch": bat, "stream": strm}
    if is_raised(got):
        if recv is not None or not all(is_raised(o) for o in outs.values()):
            rec.violation("arg-result-mapping-differs-on-wire:%s" % name, "%s: value %s refused as a result (%s) but accepted elsewhere: arg=%s batch=%s stream=%s" % (
                name, core.short(x, 200), show(got), "delivered" if recv is not None else show(res), show(bat), show(strm)), pay)
        else:
            rec.count("wire_refused_consistently")
        return
    if recv is None or is_raised(res) or is_raised(bat) or is_raised(strm):
        rec.violation("arg-result-mapping-differs-on-wire:%s" % name, "%s: value %s accepted as a result but: echo=%s batch=%s stream=%s" % (
            name, core.short(x, 200), show(res), show(bat), show(strm)), pay)
        return
    # ... and it is the mapping of the serializer that was selected for the call
    want = outcome(lambda: P.serializers.serializers[name].loads(P.serializers.serializers[name].dumps(sent)))
    if not is_raised(want) and not gen.deep_eq(got, want):
        rec.violation("wire-mapping-is-not-the-selected-serializers:%s" % name, "%s selected for the call: value %s arrives as %s, the %s codec maps it to %s" % (
            name, core.short(sent, 200), core.short(got, 200), name, core.short(want, 200)), pay)
        return
    a, kw = recv
    for label, o in (("positional argument", a[0]), ("keyword argument", kw.get("kw")), ("echoed result", res[0]), ("batch result", bat[0]),
                     ("batch argument", recv_b[0][0] if recv_b and recv_b[0] else None), ("streamed item", strm[0]), ("nested streamed item", strm[1][0])):
        if not gen.deep_eq(o, got):
            rec.violation("arg-result-mapping-differs-on-wire:%s" % name, "%s: value %s arrives as %s as a result but as %s as %s" % (
                name, core.short(sent, 200), core.short(got, 200), core.short(o, 200), label), pay)
            return
    rec.count("wire_ok")
    rec.count("wire_batch_ok")
    rec.count("wire_stream_ok")


def concurrent_wire_phase(fx, svc, rec, r):
    """several clients at once (thread server: their messages are serialised and parsed by different threads at the same moment), every one
    sending and receiving values that take the serializers' fallback hooks (sets, ints beyond 64 bit, complex, dates, uuid, decimal): each call
    still delivers its own value, mapped as the serializer maps it when nobody else is around"""
    import datetime
    import decimal
    import uuid
    from vlib import yieldinj
    P = fx.P
    sers = P.serializers.serializers
    values = [{1, 2, 3}, 2 ** 70 + 1, [-(2 ** 90), {"k": 2 ** 65}], (1, "t", 2.5), {"s": {4, 5}, "t": (6,)}, complex(1, -2), [datetime.date(2020, 2, 29)], uuid.UUID(int=12345),
              decimal.Decimal("1.25"), frozenset(["a"]), [1, [2, [3, {"x": {7}}]]], "plain", {"n": None, "l": [True, 1.5]}]
    problems = []
    lock = threading.Lock()

    def client(tid, name):
        ser = sers[name]
        try:
            with fx.proxy("echo", serializer=name, timeout=20.0) as p:
                for n in range(25):
                    v = values[(tid * 7 + n) % len(values)]
                    tag = "c%d-%d" % (tid, n)
                    want_res = outcome(lambda: ser.loads(ser.dumps([tag, v])))
                    want_arg = outcome(lambda: ser.loadsCall(ser.dumpsCall("o", "m", (tag, v), {}))[2])
                    key = "conc-%s-%s" % (name, tag)
                    got = outcome(lambda: p.echo(key, tag, v))
                    with svc.lock:
                        recv = svc.received.pop(key, None)
                    if is_raised(want_res) or is_raised(want_arg):
                        continue          # (a value this serializer refuses: not part of this phase)
                    bad = None
                    if is_raised(got) or not gen.deep_eq(got, want_res):
                        bad = "returned %s, on its own the serializer maps the result to %s" % (core.short(got, 150), core.short(want_res, 150))
                    elif recv is None or not gen.deep_eq(list(recv[0]), list(want_arg)):
                        bad = "the method received %s, on its own the serializer maps the arguments to %s" % (core.short(recv, 150), core.short(want_arg, 150))
                    with lock:
                        rec.count("concurrent_wire_calls")
                        if bad:
                            problems.append("%s client %d call %d echo(%s): %s" % (name, tid, n, core.short(v, 80), bad))
        except Exception as x:
            with lock:
                problems.append("%s client %d could not work: %r" % (name, tid, x))
    yieldinj.enable(("Pyro5/serializers.py",), 0.15, rec.seed * 29 + 5, max_sleep=0.0005)
    try:
        ts = [threading.Thread(target=client, args=(i, fixture.SERIALIZERS[i % 4] if i < 4 else "msgpack"), daemon=True) for i in range(7)]
        for t in ts:
            t.start()
        for t in ts:
            t.join(120)
    finally:
        n_inj, _ = yieldinj.disable()
        rec.count("injected_yields", n_inj)
    rec.case(("concurrent-wire", fx.servertype, P.config.COMPRESSION), nontrivial=True)
    if any(t.is_alive() for t in ts):
        rec.inconc("concurrent wire phase did not finish")
    elif problems:
        rec.violation("value-changed-under-concurrency", "%d of the calls made by 7 concurrent clients did not get their own value; first: %s" % (len(problems), problems[0]), None)


def huge_int_phase(fx, svc, rec):
    """integers FAR beyond 64 bits: more decimal digits than the interpreter is willing to print (int/str conversion limit, 4300 digits). A
    serializer that ships integers in binary (marshal) carries them on every path; one that writes decimal text refuses them - on every path.
    (Nothing here prints such a number: comparisons are on the int objects.)"""
    P = fx.P
    values = {"10**4400": 10 ** 4400, "-(10**5000)+7": -(10 ** 5000) + 7}
    for name in fixture.SERIALIZERS:
        for label, v in values.items():
            for shape in ("bare", "nested"):
                x = v if shape == "bare" else [1, {"k": v}]
                key = "huge-%s-%s-%s" % (name, label, shape)
                outs = {}
                with fx.proxy("echo", serializer=name, timeout=20.0) as p:
                    for path in ("arg", "kw", "result", "batch"):
                        try:
                            if path == "arg":
                                p.echo(key, x)
                                with svc.lock:
                                    got = svc.received.pop(key)[0][0]
                            elif path == "kw":
                                p.echo(key, k=x)
                                with svc.lock:
                                    got = svc.received.pop(key)[1]["k"]
                            elif path == "result":
                                svc.store[key] = x
                                got = p.get(key)
                            else:
                                svc.store[key] = x
                                b = P.client.BatchProxy(p)
                                b.get(key)
                                got = list(b())[0]
                            outs[path] = "same" if got == x and type(got) is type(x) else "changed"
                        except Exception as e:
                            outs[path] = "raises " + type(e).__name__
                rec.case(("hugeint", name, label, shape, fx.servertype), nontrivial=True)
                rec.count("huge_int_cases")
                kinds = set(outs.values())
                if "changed" in kinds or (len(kinds) > 1) or (name == "marshal" and kinds != {"same"}):
                    rec.violation("arg-result-mapping-differs-on-wire:%s" % name, "%s, the integer %s (%s): positional argument -> %s, keyword argument -> %s, result -> %s, batch result -> %s" % (
                        name, label, shape, outs["arg"], outs["kw"], outs["result"], outs["batch"]), None)
                    return


def nontrivial(x):
    return not (x is None or isinstance(x, bool))


def run_shard(shard, rec):
    P = fixture.pyro()
    sers = P.serializers.serializers
    seed = rec.seed * 100 + shard["i"]
    r = gen.rng(rec.seed, "c01", shard["kind"], shard["i"])
    P.config.SERPENT_BYTES_REPR = bool(shard.get("bytes_repr"))
    if shard.get("bytes_repr"):
        rec.count("shards_with_serpent_bytes_repr")
    if shard.get("one_sided_replacements"):
        import decimal as _dec
        import uuid as _uuid
        # (a replacement function has to return something the serializer's default() hook knows: same-type images)
        P.serializers.JsonSerializer.register_type_replacement(_dec.Decimal, one_sided_image)
        P.serializers.MsgpackSerializer.register_type_replacement(_uuid.UUID, one_sided_image)
        ONE_SIDED[0] = True
        rec.count("shards_with_one_sided_replacements")
    if shard["kind"] == "codec":
        def core_case(x):
            for name in fixture.SERIALIZERS:
                rec.case(("codec", name, "core", gen.canon(x)), nontrivial=nontrivial(x),
                         sample={"serializer": name, "domain": "core", "value": core.short(x, 200)} if rec.evaluations % 1500 == 3 else None)
                check_codec(sers, name, x, True, rec)

        def ext_case(x):
            for name in fixture.SERIALIZERS:
                rec.case(("codec", name, "ext", gen.canon(x)), nontrivial=nontrivial(x),
                         sample={"serializer": name, "domain": "extended", "value": core.short(x, 200)} if rec.evaluations % 1500 == 7 else None)
                check_codec(sers, name, x, False, rec)
        gen.draw_many(gen.core_values(), shard["n"], seed, core_case)
        gen.draw_many(gen.ext_values(), shard["n"], seed + 1, ext_case)
        for d in list(range(1, 13)) + [40, 65, 70, 100, 140]:      # "arbitrarily nested": also far beyond what a generator reaches by chance
            for _ in range(4 if d < 13 else 6):
                core_case(gen.deep_core(d, r))
        for d in (66, 90, 140):
            v = float("nan")
            for i in range(d):
                v = [v] if i % 2 else {"k": v}
            core_case(v)
            rec.count("deeply_nested_values")
        for v in [2 ** 63, -2 ** 63 - 1, 2 ** 64, -2 ** 64, 2 ** 2047, -(2 ** 2047), [2 ** 70], {"k": -2 ** 99}, float("nan"), [float("nan")], (float("nan"),),
                  {"a": (float("nan"), 1)}, [(float("inf"), [float("-inf")])], -0.0, [-0.0], "\x00", "a\x00b", "퟿", "", "", [[]], [{}], {"": ""}]:
            (core_case if not has_tuple(v) else ext_case)(v)
        import decimal as _dec2
        import uuid as _uuid2
        for v in [_dec2.Decimal("1.5"), _dec2.Decimal("12"), _dec2.Decimal("-0.000"), _dec2.Decimal("1E+30"), _dec2.Decimal("NaN"), _dec2.Decimal("-Infinity"),
                  _uuid2.UUID(int=0), _uuid2.UUID(int=r.getrandbits(128)), _uuid2.UUID("12345678-1234-5678-1234-567812345678")]:
            ext_case(v)
            ext_case([v])
        # Pyro's own value type (every serializer carries it as a class dict): same mapping on every path, at every nesting position
        U = P.core.URI
        for text in ("PYRO:obj@host:1", "PYRO:o.b-j@[::1]:65535", "PYRONAME:some.name", "PYRONAME:n@ns:9090", "PYRO:x@./u:/tmp/sock", "PYROMETA:a,b"):
            for wrap in (lambda u: u, lambda u: [u], lambda u: {"k": u}, lambda u: [1, {"a": [u, None]}], lambda u: (u, "t"), lambda u: {"u": {"v": u}, "w": [u]}):
                ext_case(wrap(U(text)))
                rec.count("codec_uri_values")
        return
    # wire level
    fx = fixture.Fixture(servertype=shard["servertype"], COMPRESSION=shard["compression"], COMMTIMEOUT=0.0, ITER_STREAMING=True)
    try:
        svc, obj = make_service(P)
        fx.register(obj, "echo")
        seqc = [0]
        # count compressed requests / replies by watching the wire flags through a public hook: wrap SendingMessage from the harness
        orig = P.protocol.SendingMessage.__init__

        def counting_init(self, msgtype, flags, seq, serializer_id, payload, annotations=None):
            orig(self, msgtype, flags, seq, serializer_id, payload, annotations)
            if self.flags & P.protocol.FLAGS_COMPRESSED:
                rec.count("wire_compressed_request" if msgtype == P.protocol.MSG_INVOKE else "wire_compressed_reply")
        P.protocol.SendingMessage.__init__ = counting_init

        def core_case(x, pad=None):
            for name in fixture.SERIALIZERS:
                seqc[0] += 1
                pd = pad if pad is not None else "p" * r.choice([0, 0, 1, 10, 40, 70, 90])
                rec.case(("wire", name, shard["servertype"], shard["compression"], len(pd), gen.canon(x)), nontrivial=nontrivial(x),
                         sample={"serializer": name, "level": "wire", "value": core.short(x, 120), "pad": len(pd)} if rec.evaluations % 150 == 3 else None)
                check_wire(fx, svc, name, x, True, pd, rec, seqc[0])

        def ext_case(x):
            for name in fixture.SERIALIZERS:
                seqc[0] += 1
                pd = "p" * r.choice([0, 0, 1, 10, 40, 70, 90])
                rec.case(("wire", name, shard["servertype"], shard["compression"], len(pd), "ext", gen.canon(x)), nontrivial=nontrivial(x))
                check_wire(fx, svc, name, x, False, pd, rec, seqc[0])
        if shard["i"] == 0:
            for padlen in range(0, 131, 3):        # sweep request and reply payload sizes across the 100-byte threshold
                core_case({"v": [1, "é", None]}, "q" * padlen)
            for v in [2 ** 63, -2 ** 63 - 1, 2 ** 200, float("nan"), -0.0, "\x00", [float("inf")]]:
                core_case(v)
            for d in (30, 70, 100, 140):
                for _ in range(3):
                    core_case(gen.deep_core(d, r))
                v = float("nan")
                for i in range(d):
                    v = [v] if i % 2 else {"k": v}
                core_case(v)
                rec.count("deeply_nested_values")
        gen.draw_many(gen.core_values(12), shard["n"], seed + 5, core_case)
        gen.draw_many(gen.ext_values(8), shard["n"] // 2, seed + 6, ext_case)
        if shard["i"] < 2:
            # a slow link: the proxy has a timeout (its socket is in timeout mode, data goes out through the send loop made for that) and a
            # small kernel send buffer, so that large requests leave in many partial sends; the values are large lossless-core values
            import socket as _socket

            def slow_proxy(sername):
                sp = fx.proxy("echo", serializer=sername, timeout=12.0)
                sp._pyroBind()
                sp._pyroConnection.sock.setsockopt(_socket.SOL_SOCKET, _socket.SO_SNDBUF, 4096)
                return sp
            nv = len(rec.violations)
            for big in ("é" * 70000, {"k%d" % i: [i, "v" * 20, None, 1.5, 2 ** 70 + i] for i in range(2500)}):
                for name in fixture.SERIALIZERS:
                    if len(rec.violations) > nv:
                        break            # (every further case would wait for its timeout as well)
                    seqc[0] += 1
                    rec.case(("wire-slow-link", name, shard["servertype"], shard["compression"], seqc[0]), nontrivial=True)
                    check_wire(fx, svc, name, big, True, "", rec, seqc[0], mkproxy=slow_proxy)
                    rec.count("wire_slow_link_cases")
        if shard["servertype"] == "thread":
            concurrent_wire_phase(fx, svc, rec, r)
        if shard["i"] == 0:
            huge_int_phase(fx, svc, rec)
        for kind, text in fixture.take_faults():
            rec.violation("server-thread-fault", "%s: %s" % (kind, text), None)
    finally:
        fx.stop()


def has_tuple(v):
    if isinstance(v, tuple):
        return True
    if isinstance(v, list):
        return any(has_tuple(x) for x in v)
    if isinstance(v, dict):
        return any(has_tuple(x) for x in v.values())
    return False


def replay(payload, rec):
    P = fixture.pyro()
    sers = P.serializers.serializers
    rec.case(("replay", repr(payload)[:200]))
    if payload[-1] == "serpent-bytes-repr":
        P.config.SERPENT_BYTES_REPR = True
        payload = payload[:-1]
    if payload[0] == "codec":
        _, name, x, is_core = payload
        print("replay codec %s: paths -> %r" % (name, [core.short(o, 150) for o in codec_paths(sers[name], x)]))
        check_codec(sers, name, x, is_core, rec)
    else:
        _, name, x, is_core, servertype, comp, pad = payload
        fx = fixture.Fixture(servertype=servertype, COMPRESSION=comp)
        try:
            svc, obj = make_service(P)
            fx.register(obj, "echo")
            check_wire(fx, svc, name, x, is_core, pad, rec, 1)
        finally:
            fx.stop()
