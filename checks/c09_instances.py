"""C09 - instance modes: one per daemon, one per connection, or one per call.

Every call returns (instance serial, connection serial); serials come from a counter in __new__. The three sentences
of the statement are checked directly on the constructor/creator log. Part (a): socket level, with barrier-released
racing first calls on 'single' classes whose constructor is legitimately slow. Part (b): the real Daemon._getInstance
under the controlled line-level scheduler (E5), all schedules to a preemption bound."""
import gc
import itertools
import threading
import time
import weakref

from vlib import core, gen, fixture, sched

PROPERTY = "C09"
LEVEL = "exploration"
RULE = ("(a) histories of 2-8 connections opening, calling and closing against registered classes of each mode x instance shapes {truthy, falsy via "
        "__len__, falsy via __bool__, __eq__ always True with constant __hash__} x creator {none, ok, raising, wrong type}; first calls on "
        "'single' classes released by a barrier with a 1-10 ms constructor; both server types. (b) 2-3 controlled threads calling the real "
        "Daemon._getInstance: every schedule up to a preemption bound, then random walks. (c) the same class registered in two daemons of one "
        "process and in a third started later: instances per daemon / per (daemon, connection). distinct = (mode, shape, creator, history/schedule); "
        "non-trivial = more than one connection or thread involved")
ASSUMPTIONS = ["a slow constructor (sleep) is a legitimate application behaviour that widens the race window without touching Pyro",
               "scheduling points = source lines of Daemon._getInstance (and its nested createInstance) only"]
REQUIRED_REACH = ["classes_registered_again_after_unregistering", "shutdown_cases_ok", "connected_socket_ok", "failing_disconnect_hooks", "single_ok", "session_ok", "percall_ok", "creator_counts_ok", "failing_creator_ok", "racing_first_calls", "session_instances_dropped", "schedules_explored", "multi_daemon_ok", "oneway_first_requests", "registered_class_inherits_behavior", "registration_changes_ok", "slow_constructor_with_commtimeout"]
SHARD_TIMEOUT = {"quick": 480, "thorough": 2800}
SHAPES = ["truthy", "falsy_len", "falsy_bool", "eq_always", "unhashable"]
CREATORS = ["none", "ok", "raises", "raises_type", "wrongtype", "subclass"]     # subclass: the creator returns an instance of a subclass (allowed by the daemon's isinstance check)


class Book:
    """constructor / creator log of one generated class (monitor state under its own lock)"""

    def __init__(self):
        self.lock = threading.Lock()
        self.serial = itertools.count(1)
        self.created = []         # serials handed out by __new__
        self.creator_calls = 0
        self.creator_results = 0
        self.serving = []         # (instance serial, conn serial, call no)
        self.refs = {}            # instance serial -> weakref
        self.oneway_done = 0
        self.creator_without_class = 0


def make_class(P, mode, shape, creator, slow=0.0, inherit=False):
    book = Book()
    ctx = P.callcontext.current_context

    class Inst(object):
        def __new__(cls, *a, **k):
            self = object.__new__(cls)
            with book.lock:
                self.serial = next(book.serial)
                book.created.append(self.serial)
                book.refs[self.serial] = weakref.ref(self)
            return self

        def __init__(self):
            if slow:
                time.sleep(slow)      # a legitimately slow constructor

        def who(self, callno=None):
            conn = getattr(ctx.client, "_vserial", None)
            with book.lock:
                book.serving.append((self.serial, conn, callno))
            return [self.serial, conn]

        def boom(self):
            # a call that fails: the failure (and whatever the daemon keeps of it) must not keep this instance alive
            raise ValueError("this call fails", self.serial)

        def fire(self, callno=None):
            # (made oneway below) which instance serves a connection's oneway call is part of the same accounting
            conn = getattr(ctx.client, "_vserial", None)
            with book.lock:
                book.serving.append((self.serial, conn, "oneway"))
                book.oneway_done += 1

    if shape == "falsy_len":
        Inst.__len__ = lambda self: 0
    elif shape == "falsy_bool":
        Inst.__bool__ = lambda self: False
    elif shape == "unhashable":
        # a container-like class: equality by content, hence no hash at all
        Inst.__eq__ = lambda self, other: self is other
        Inst.__hash__ = None
    elif shape == "eq_always":
        Inst.__eq__ = lambda self, other: True
        Inst.__hash__ = lambda self: 7
    Inst.fire = P.server.oneway(Inst.fire)
    Inst = P.server.expose(Inst)

    subcls = []

    class Impostor(object):
        def who(self, callno=None):
            return ["impostor", None]

        def boom(self):
            return "impostor"

        def fire(self, callno=None):
            pass
    impostor_cls = [P.server.expose(Impostor)]

    def mk(cls=None):
        with book.lock:
            book.creator_calls += 1
            if cls is None:
                book.creator_without_class += 1
        if creator == "raises":
            raise RuntimeError("creator failed")
        if creator == "raises_type":
            raise TypeError("creator failed with a TypeError of its own")
        if creator == "wrongtype":
            # an object of an unrelated class that happens to offer the same methods (a stand-in, a mock, another service): it is not an
            # instance of the registered class, so it must never serve a call
            return impostor_cls[0]()
        if creator == "subclass":
            if not subcls:
                subcls.append(type("SubOf" + cls.__name__, (cls,), {}))
            obj = subcls[0]()
        else:
            obj = cls()
        with book.lock:
            book.creator_results += 1
        return obj
    Inst = P.server.behavior(instance_mode=mode, instance_creator=None if creator == "none" else mk)(Inst)
    if inherit:
        # the class that gets registered is a plain subclass: it inherits exposure, instance mode and creator from its decorated base
        Inst = type("Registered" + Inst.__name__, (Inst,), {})
    return Inst, book


def socket_case(fx, mode, shape, creator, nconn, ncalls, rec, r, sername, race, inherit=None, slow_override=None, hook_raises=None, rereg=None):
    P = fx.P
    if hook_raises is None:
        hook_raises = mode == "session" and r.random() < 0.35
    if hook_raises:
        # the application's own clientDisconnect hook fails (the servers log that and go on): the connection has ended all the same
        rec.count("failing_disconnect_hooks")

        def failing_hook(conn):
            raise RuntimeError("application clientDisconnect hook failed")
        fx.daemon.on_disconnect = failing_hook
    if inherit is None:
        inherit = r.random() < 0.3
    if inherit:
        rec.count("registered_class_inherits_behavior")
    slow = r.choice([0.001, 0.004, 0.01]) if race else (r.choice([0.0, 0.06, 0.1]) if mode == "session" else 0.0)      # (Nagle + delayed ACK put ~40 ms between a oneway request and the next one)
    if slow_override is not None:
        slow = slow_override
    cls, book = make_class(P, mode, shape, creator, slow, inherit)
    objid = "cls%d" % r.randrange(10 ** 9)
    fx.daemon.register(cls, objid)
    if rereg is None:
        rereg = r.choice(["no", "no", "no", "no", "no", "no", "no", "by-class", "by-class", "by-id"])
    if rereg != "no":
        # the class was registered before, taken out (by class object or by id) and is registered again, as servers do that reload their
        # services: it is still the class its decorators made it - same instance mode, same creator
        rec.count("classes_registered_again_after_unregistering")
        fx.daemon.unregister(cls if rereg == "by-class" else objid)
        fx.daemon.register(cls, objid)
    pay = {"mode": mode, "shape": shape, "creator": creator, "nconn": nconn, "ncalls": ncalls, "race": race, "servertype": fx.servertype, "serializer": sername, "inherit": inherit, "slow": slow_override, "commtimeout": P.config.COMMTIMEOUT, "hook_raises": hook_raises, "rereg": rereg}
    rec.case(("sock", mode, shape, creator, nconn, ncalls, race, fx.servertype, sername, inherit), nontrivial=nconn > 1, sample=pay if rec.evaluations % 40 == 3 else None)
    results = {}
    errors = {}
    barrier = threading.Barrier(nconn)
    oneway_sent = [0]
    olock = threading.Lock()

    def client(i):
        try:
            p = fx.proxy(objid, serializer=sername, timeout=15.0)
            p._pyroBind()
            out = []
            if race:
                barrier.wait(10)
                rec.count("racing_first_calls")
            if mode == "session" and i % 2 == 1 and creator in ("none", "ok", "subclass"):
                # the connection's very first request is a oneway call, the next request follows at once
                p.fire(0)
                with olock:
                    oneway_sent[0] += 1
            for c in range(ncalls):
                try:
                    out.append(tuple(p.who(c)))
                except Exception as x:
                    out.append(("exc", type(x).__name__))
            results[i] = out
            if mode == "session" and creator in ("none", "ok", "subclass"):
                try:
                    p.boom()
                except ValueError:
                    rec.count("failing_calls_on_session_instances")
                except Exception:
                    pass
            if i % 2 == 0:
                if i % 4 == 0 and p._pyroConnection is not None:
                    # every other closing client goes away abortively (RST): the connection has ended all the same
                    import socket as _s
                    import struct as _st
                    p._pyroConnection.sock.setsockopt(_s.SOL_SOCKET, _s.SO_LINGER, _st.pack("ii", 1, 0))
                    rec.count("abortive_closes")
                p._pyroRelease()
            else:
                results[("keep", i)] = p
        except Exception as x:
            errors[i] = x
    if race:
        ts = [threading.Thread(target=client, args=(i,), daemon=True) for i in range(nconn)]
        for t in ts:
            t.start()
        for t in ts:
            t.join(30)
    else:
        order = list(range(nconn))
        for i in order:
            t = threading.Thread(target=client, args=(i,), daemon=True)     # own thread = own proxy owner; sequential connections
            t.start()
            t.join(30)
    try:
        if errors:
            rec.inconc("client failed in the harness: %r" % (list(errors.values())[0],))
            return
        calls = [(i, c, res) for i in range(nconn) for c, res in enumerate(results.get(i, []))]
        ok_calls = [(i, c, res) for i, c, res in calls if res[0] != "exc"]
        failing = creator in ("raises", "raises_type", "wrongtype")
        if book.creator_without_class:
            rec.violation("creator-call-count", "%s/%s: the instance creator was invoked %d time(s) without the class argument" % (mode, shape, book.creator_without_class), pay)
            return
        with book.lock:
            created, ccalls, cres, serving = list(book.created), book.creator_calls, book.creator_results, list(book.serving)
        if failing:
            if ok_calls:
                rec.violation("call-served-despite-failing-creator", "%s/%s: creator %s yet calls were served: %r" % (mode, shape, creator, ok_calls[:3]), pay)
                return
            if ccalls != len(calls):
                rec.violation("creator-call-count", "%s/%s: failing creator invoked %d times for %d creation attempts" % (mode, shape, ccalls, len(calls)), pay)
                return
            rec.count("failing_creator_ok")
            return
        if len(ok_calls) != len(calls):
            failed = [c for c in calls if c[2][0] == "exc"]
            if all(c[2][1] not in ("CommunicationError", "ConnectionClosedError", "TimeoutError", "ProtocolError") for c in failed):
                # not a transport problem: the daemon answered these calls with an error although class, constructor and creator are in order -
                # whatever the instances look like, they are created according to the mode and serve their calls
                rec.violation("valid-class-not-served:" + shape, "%s/%s/%s: %d of %d calls were answered with %r; %d instances were constructed meanwhile, %d creator calls" % (
                    mode, shape, creator, len(failed), len(calls), sorted({c[2][1] for c in failed}), len(created), ccalls), pay)
                return
            rec.inconc("calls failed unexpectedly: %r" % (failed[:2],))
            return
        if oneway_sent[0]:
            fx.wait_until(lambda: book.oneway_done >= oneway_sent[0], 10.0)
            with book.lock:
                created, ccalls, cres, serving = list(book.created), book.creator_calls, book.creator_results, list(book.serving)
            rec.count("oneway_first_requests", oneway_sent[0])
        insts = {res[0] for _, _, res in ok_calls}
        by_conn = {}
        for i, c, res in ok_calls:
            by_conn.setdefault(res[1], set()).add(res[0])
        for inst, conn, what in serving:
            if what == "oneway":
                by_conn.setdefault(conn, set()).add(inst)
        if mode == "single":
            if len(insts) != 1 or len(created) != 1:
                rec.violation("single-mode-multiple-instances:" + ("race" if race and shape == "truthy" else shape), "single/%s/%s (%d connections%s): %d instances were constructed and %d distinct instances served calls: %r" % (
                    shape, creator, nconn, ", racing first calls" if race else "", len(created), len(insts), sorted(insts)), pay)
                return
            rec.count("single_ok")
        elif mode == "session":
            bad = [(conn, s) for conn, s in by_conn.items() if len(s) != 1]
            if bad:
                rec.violation("session-mode-multiple-instances-per-connection:" + shape, "session/%s/%s: connection %r was served by instances %r" % (shape, creator, bad[0][0], sorted(bad[0][1])), pay)
                return
            owners = {}
            for conn, s in by_conn.items():
                for inst in s:
                    owners.setdefault(inst, set()).add(conn)
            shared = [(inst, c) for inst, c in owners.items() if len(c) > 1]
            if shared:
                rec.violation("session-instance-shared-between-connections", "session/%s/%s: instance %r served connections %r" % (shape, creator, shared[0][0], sorted(shared[0][1])), pay)
                return
            if len(created) != len(by_conn):
                rec.violation("session-mode-instance-count:" + shape, "session/%s/%s: %d instances constructed for %d connections" % (shape, creator, len(created), len(by_conn)), pay)
                return
            rec.count("session_ok")
        else:
            if len(insts) != len(ok_calls) or len(created) != len(ok_calls):
                rec.violation("percall-instance-reused", "percall/%s/%s: %d calls, %d distinct instances, %d constructed" % (shape, creator, len(ok_calls), len(insts), len(created)), pay)
                return
            rec.count("percall_ok")
        if creator in ("ok", "subclass"):
            if ccalls != len(created) or cres != len(created):
                rec.violation("creator-call-count", "%s/%s: creator invoked %d times for %d instances created" % (mode, shape, ccalls, len(created)), pay)
                return
            rec.count("creator_counts_ok")
        # session instances are dropped when their connection ends
        if mode == "session":
            closed_conns = set()
            for i in range(nconn):
                if i % 2 == 0 and results.get(i):
                    closed_conns.add(results[i][0][1])
            fx.wait_until(lambda: all(any(e[2] == c for e in fx.daemon.evlog.of("disconnect")) for c in closed_conns), 10.0)
            time.sleep(0.01)
            gc.collect()
            for conn in closed_conns:
                for inst in by_conn.get(conn, ()):
                    ref = book.refs.get(inst)
                    if ref is not None and ref() is not None:
                        gc.collect()
                        if ref() is not None:
                            rec.violation("session-instance-kept-after-disconnect", "session/%s: instance %d of closed connection %r is still alive" % (shape, inst, conn), pay)
                            return
            # and those of connections still open are still there and still the same
            for key, p in list(results.items()):
                if isinstance(key, tuple):
                    def again(p=p, i=key[1]):
                        try:
                            p._pyroClaimOwnership()
                            res = tuple(p.who(99))
                            if res[0] not in by_conn.get(res[1], ()):
                                rec.violation("session-instance-replaced", "session/%s: open connection %r now served by instance %r (before: %r)" % (shape, res[1], res[0], by_conn.get(res[1])), pay)
                        except Exception as x:
                            rec.inconc("follow-up call failed: %r" % (x,))
                    t = threading.Thread(target=again)
                    t.start()
                    t.join(20)
            rec.count("session_instances_dropped")
    finally:
        for key, p in list(results.items()):
            if isinstance(key, tuple):
                try:
                    p._pyroClaimOwnership()
                    p._pyroRelease()
                except Exception:
                    pass
        fx.daemon.on_disconnect = None
        fx.daemon.unregister(objid)


def connected_socket_case(P, mode, shape, creator, rec, r, sername):
    """a daemon on a socket pair the application connected itself (Daemon(connected_socket=...)), whose request loop the application leaves
    (loopCondition) and enters again while the connection stays open: still ONE connection, so one session instance, one single instance,
    a fresh one per call - and one creator call per instance"""
    import socket as _s
    cls, book = make_class(P, mode, shape, creator)
    s1, s2 = _s.socketpair()
    s1.settimeout(20)
    s2.settimeout(20)
    rounds, per_round = r.choice([2, 3]), r.choice([1, 2, 3])
    pay = {"connected_socket": True, "mode": mode, "shape": shape, "creator": creator, "rounds": rounds, "per_round": per_round, "serializer": sername}
    rec.case(("connsock", mode, shape, creator, rounds, per_round, sername), nontrivial=True, sample=pay if rec.evaluations % 20 == 3 else None)
    d = P.server.Daemon(connected_socket=s1)
    d.register(cls, "cs")
    done = [threading.Event() for _ in range(rounds)]
    errs = []

    def server():
        try:
            for k in range(rounds):
                limit = (k + 1) * per_round
                d.requestLoop(loopCondition=lambda: len(book.serving) < limit)       # serve this round's calls, leave the loop, come back
                done[k].set()
        except Exception as x:
            errs.append(x)
            for e in done:
                e.set()
    t = threading.Thread(target=server, daemon=True)
    t.start()
    got = []
    try:
        p = P.client.Proxy("cs", connected_socket=s2)
        p._pyroSerializer = sername
        for k in range(rounds):
            for c in range(per_round):
                got.append(tuple(p.who(c)))
            if not done[k].wait(20):
                rec.inconc("connected-socket daemon did not leave its request loop")
                return
    except Exception as x:
        rec.inconc("connected-socket case: a call failed in the harness: %r" % (x,))
        return
    finally:
        t.join(20)
        try:
            d.close()
        except Exception:
            pass
        s1.close()
        s2.close()
    if errs:
        rec.inconc("connected-socket case: server side error %r" % (errs[0],))
        return
    insts = [g[0] for g in got]
    with book.lock:
        created, ccalls = list(book.created), book.creator_calls
    if mode in ("single", "session") and (len(set(insts)) != 1 or len(created) != 1):
        rec.violation(("single-mode-multiple-instances:" if mode == "single" else "session-mode-multiple-instances-per-connection:") + "connected-socket",
                      "%s/%s on a daemon with a pre-connected socket, request loop entered %d times on the one connection: %d instances were constructed, calls served by %r" % (
                          mode, shape, rounds, len(created), insts), pay)
        return
    if mode == "percall" and (len(set(insts)) != len(insts) or len(created) != len(insts)):
        rec.violation("percall-instance-reused", "percall/%s on a pre-connected socket: %d calls, instances %r, %d constructed" % (shape, len(insts), insts, len(created)), pay)
        return
    if creator in ("ok", "subclass") and ccalls != len(created):
        rec.violation("creator-call-count", "%s/%s on a pre-connected socket: creator invoked %d times for %d instances" % (mode, shape, ccalls, len(created)), pay)
        return
    rec.count("connected_socket_ok")


def shutdown_case(P, shape, creator, rec, r, sername):
    """the daemon is shut down while a client is connected: the thread-pool server goes on serving that connection until the client leaves.
    Calls made on it after the shutdown are served by THE single instance (or fail), never by a second one"""
    fx = fixture.Fixture(servertype="thread", COMMTIMEOUT=0.0, THREADPOOL_SIZE=8, THREADPOOL_SIZE_MIN=2)
    cls, book = make_class(P, "single", shape, creator)
    pay = {"shutdown_case": True, "shape": shape, "creator": creator, "serializer": sername}
    rec.case(("shutdown", shape, creator, sername), nontrivial=True, sample=pay if rec.evaluations % 10 == 3 else None)
    fx.daemon.register(cls, "single")
    how = r.choice(["shutdown", "close"])
    got, errs = [], []
    try:
        p = fx.proxy("single", serializer=sername, timeout=8.0)
        q = fx.proxy("single", serializer=sername, timeout=8.0)
        got.append(tuple(p.who(0)))
        got.append(tuple(q.who(0)))
        t = threading.Thread(target=(fx.daemon.shutdown if how == "shutdown" else fx.daemon.close), daemon=True)
        t.start()
        t.join(20)
        for c in range(1, 4):
            for px in (p, q):
                try:
                    got.append(tuple(px.who(c)))
                except P.errors.CommunicationError as x:
                    errs.append(x)
        for px in (p, q):
            px._pyroRelease()
    except Exception as x:
        rec.inconc("shutdown case failed in the harness: %r" % (x,))
        return
    finally:
        fx.stop()
    insts = sorted({g[0] for g in got})
    with book.lock:
        created, ccalls = list(book.created), book.creator_calls
    if len(insts) != 1 or len(created) != 1:
        rec.violation("single-mode-multiple-instances:after-shutdown", "single/%s/%s: two clients were connected when the daemon was %s; their later calls on those connections were served by instances %r "
                      "(%d constructed, %d calls failed with a communication error)" % (shape, creator, "shut down" if how == "shutdown" else "closed", insts, len(created), len(errs)), pay)
        return
    if creator in ("ok", "subclass") and ccalls != 1:
        rec.violation("creator-call-count", "single/%s: creator invoked %d times around a daemon %s" % (shape, ccalls, how), pay)
        return
    rec.count("shutdown_cases_ok")
    rec.count("calls_served_after_shutdown", max(0, len(got) - 2))


def registration_change_case(fx, shape, creator, rec, r, sername):
    """'single': one instance per daemon, whatever happens to the class's registrations meanwhile - registered under two ids, one of them
    unregistered while a connection is open, all of them unregistered and the class registered again"""
    P = fx.P
    cls, book = make_class(P, "single", shape, creator, 0.0, inherit=r.random() < 0.3)
    n = r.randrange(10 ** 9)
    ida, idb, idc = "rc%da" % n, "rc%db" % n, "rc%dc" % n
    pay = {"regchange": True, "shape": shape, "creator": creator, "serializer": sername, "servertype": fx.servertype}
    rec.case(("regchange", shape, creator, sername, fx.servertype), nontrivial=True, sample=pay if rec.evaluations % 40 == 9 else None)
    served = []
    try:
        fx.daemon.register(cls, ida)
        fx.daemon.register(cls, idb, force=True)
        with fx.proxy(ida, serializer=sername, timeout=15.0) as pa, fx.proxy(idb, serializer=sername, timeout=15.0) as pb:
            served.append(("a", pa.who()[0]))
            served.append(("b", pb.who()[0]))
            fx.daemon.unregister(ida)
            served.append(("b, after a was unregistered", pb.who()[0]))
            with fx.proxy(idb, serializer=sername, timeout=15.0) as pb2:
                served.append(("b, new connection", pb2.who()[0]))
        fx.daemon.unregister(idb)
        fx.daemon.register(cls, idc)
        with fx.proxy(idc, serializer=sername, timeout=15.0) as pc:
            served.append(("c, registered after a and b were gone", pc.who()[0]))
    except Exception as x:
        rec.inconc("registration-change history failed in the harness: %r" % (x,))
        return
    finally:
        for i in (ida, idb, idc):
            try:
                fx.daemon.unregister(i)
            except Exception:
                pass
    with book.lock:
        created, ccalls = list(book.created), book.creator_calls
    if len({sn for _, sn in served}) != 1 or len(created) != 1:
        rec.violation("single-mode-multiple-instances:registration-change", "single/%s/%s: one daemon, calls were served by %r; %d instance(s) constructed" % (
            shape, creator, served, len(created)), pay)
        return
    if creator in ("ok", "subclass") and ccalls != 1:
        rec.violation("creator-call-count", "single/%s: creator called %d times for one instance (registrations changed meanwhile)" % (shape, ccalls), pay)
        return
    rec.count("registration_changes_ok")


def multi_daemon_case(fxs, make_fx, mode, shape, creator, rec, r, sername):
    """'one instance per DAEMON': the same class registered in several daemons of one process (side by side, and one started after another
    was shut down); every call returns (instance serial, connection serial)"""
    P = fxs[0].P
    cls, book = make_class(P, mode, shape, creator, 0.0)
    objid = "mcls%d" % r.randrange(10 ** 9)
    pay = {"multi": True, "mode": mode, "shape": shape, "creator": creator, "serializer": sername, "servertype": fxs[0].servertype}
    rec.case(("multi", mode, shape, creator, sername, fxs[0].servertype), nontrivial=True, sample=pay if rec.evaluations % 40 == 7 else None)
    served = {}       # daemon index -> list of (instance serial, connection serial)
    errors = []

    def calls_on(k, fx, nconn, ncalls):
        def client():
            try:
                for c in range(nconn):
                    with fx.proxy(objid, serializer=sername, timeout=15.0) as p:
                        for i in range(ncalls):
                            served.setdefault(k, []).append(tuple(p.who(i)))
            except Exception as x:
                errors.append(x)
        t = threading.Thread(target=client, daemon=True)
        t.start()
        t.join(30)
    late = None
    try:
        for fx in fxs:
            fx.daemon.register(cls, objid)
        order = [0, 1, 0, 1] if r.random() < 0.5 else [1, 0, 0, 1]
        for k in order:
            calls_on(k, fxs[k], r.randrange(1, 3), r.randrange(1, 3))
        # a daemon started later in the same process (after the others served the class) gets its own instance too
        late = make_fx()
        late.daemon.register(cls, objid)
        calls_on(2, late, 2, 2)
        if errors:
            rec.inconc("client failed in the harness: %r" % (errors[0],))
            return
        with book.lock:
            created, ccalls = list(book.created), book.creator_calls
        per_daemon = {k: {i for i, _ in v} for k, v in served.items()}
        if mode == "single":
            bad = {k: sorted(v) for k, v in per_daemon.items() if len(v) != 1}
            if bad:
                rec.violation("single-mode-multiple-instances:" + shape, "single/%s: daemon(s) served one class by several instances: %r" % (shape, bad), pay)
                return
            owners = {}
            for k, v in per_daemon.items():
                owners.setdefault(next(iter(v)), []).append(k)
            shared = {i: ks for i, ks in owners.items() if len(ks) > 1}
            if shared or len(created) != len(per_daemon):
                rec.violation("single-instance-shared-between-daemons", "single/%s/%s: %d daemons of one process serve the same class, %d instance(s) were constructed; "
                              "instance -> daemons served: %r (one instance per daemon expected)" % (shape, creator, len(per_daemon), len(created), owners), pay)
                return
            if creator in ("ok", "subclass") and ccalls != len(per_daemon):
                rec.violation("creator-call-count", "single/%s: creator invoked %d times for %d daemons" % (shape, ccalls, len(per_daemon)), pay)
                return
        elif mode == "session":
            conns = {}
            for k, v in served.items():
                for inst, conn in v:
                    conns.setdefault((k, conn), set()).add(inst)
            owners = {}
            for key, insts in conns.items():
                for inst in insts:
                    owners.setdefault(inst, set()).add(key)
            if any(len(v) != 1 for v in conns.values()) or any(len(v) != 1 for v in owners.values()) or len(created) != len(conns):
                rec.violation("session-instance-shared-between-connections", "session/%s over several daemons: connection -> instances %r; %d constructed" % (shape, conns, len(created)), pay)
                return
        else:
            n = sum(len(v) for v in served.values())
            if len(created) != n or len({i for v in served.values() for i, _ in v}) != n:
                rec.violation("percall-instance-reused", "percall/%s over several daemons: %d calls, %d constructed" % (shape, n, len(created)), pay)
                return
        rec.count("multi_daemon_ok")
    finally:
        for fx in fxs:
            try:
                fx.daemon.unregister(objid)
            except Exception:
                pass
        if late is not None:
            late.stop()


# ---- part (b): controlled scheduler on Daemon._getInstance ------------------------------------------------
class FakeConn:
    def __init__(self, n):
        self.pyroInstances = {}
        self._vserial = n


def sched_case(P, mode, shape, creator, nthreads, choices, rec, strategy):
    """one controlled execution; returns (trace hash, violation or None, number of scheduling points)"""
    cls, book = make_class(P, mode, shape, creator, 0.0)
    d = P.server.Daemon.__new__(P.server.Daemon)          # the instance logic needs only these two attributes
    d._pyroInstances = {}
    sc = sched.Scheduler(choices=choices, strategy=strategy)
    d.create_single_instance_lock = sc.Lock()
    conns = [FakeConn(i) for i in range(nthreads)]
    got = {}

    def body(i):
        try:
            inst = d._getInstance(cls, conns[i] if mode != "single" else conns[i])
            got[i] = inst.serial
        except Exception as x:
            got[i] = ("exc", type(x).__name__)
    code_objs = sched.code_objects_of(P.server.Daemon._getInstance)
    res = sc.run([lambda i=i: body(i) for i in range(nthreads)], code_objs)
    return sc, res, got, book


def check_sched(P, mode, shape, creator, nthreads, rec, sc, res, got, book, pay):
    if res.deadlock:
        rec.violation("getinstance-deadlock", "all controlled threads blocked: %r" % (res.blocked,), pay)
        return False
    if res.timeout:
        rec.inconc("controlled execution hit the wall-clock watchdog")
        return True
    failing = creator in ("raises", "wrongtype")
    vals = [got.get(i) for i in range(nthreads)]
    if failing:
        if any(not isinstance(v, tuple) for v in vals) or book.creator_calls != nthreads:
            rec.violation("creator-call-count", "failing creator: results %r, creator calls %d for %d attempts" % (vals, book.creator_calls, nthreads), pay)
            return False
        return True
    if any(isinstance(v, tuple) or v is None for v in vals):
        rec.inconc("unexpected failure in _getInstance: %r" % (vals,))
        return True
    if mode == "single" and (len(set(vals)) != 1 or len(book.created) != 1):
        rec.violation("single-mode-multiple-instances:" + ("race" if shape == "truthy" else shape), "single/%s: threads got instances %r, %d constructed; schedule %r" % (shape, vals, len(book.created), res.trace[:60]), pay)
        return False
    if mode == "session" and (len(set(vals)) != nthreads or len(book.created) != nthreads):
        rec.violation("session-mode-instance-count:" + shape, "session/%s: %d connections got instances %r, %d constructed" % (shape, nthreads, vals, len(book.created)), pay)
        return False
    if creator in ("ok", "subclass") and book.creator_calls != len(book.created):
        rec.violation("creator-call-count", "creator invoked %d times for %d instances" % (book.creator_calls, len(book.created)), pay)
        return False
    return True


def explore(P, mode, shape, creator, nthreads, bound, nrandom, rec, r):
    seen = set()

    def one(choices, strategy):
        sc, res, got, book = sched_case(P, mode, shape, creator, nthreads, choices, rec, strategy)
        h = core.h64(repr(res.trace))
        pay = {"sched": True, "mode": mode, "shape": shape, "creator": creator, "nthreads": nthreads, "choices": res.choices_made}
        rec.case(("sched", mode, shape, creator, nthreads, h), nontrivial=True,
                 sample={"mode": mode, "shape": shape, "threads": nthreads, "schedule": res.trace[:40]} if rec.evaluations % 800 == 5 else None)
        if h not in seen:
            seen.add(h)
            rec.count("schedules_explored")
        rec.count("scheduling_points", len(res.trace))
        check_sched(P, mode, shape, creator, nthreads, rec, sc, res, got, book, pay)
        return res
    sched.dfs(one, bound, max_runs=4000 if rec.tier == "quick" else 60000, stop=lambda: rec.should_stop(8))
    for k in range(nrandom):
        if rec.should_stop(8):
            break
        one(None, ("random", r.getrandbits(32)))


def plan(tier, seed):
    shards = []
    for st in ("thread", "multiplex"):
        for mode in ("single", "session", "percall"):
            shards.append({"kind": "socket", "servertype": st, "mode": mode, "reps": 1 if tier == "quick" else 6})
    for mode in ("single", "session"):
        for nthreads in (2, 3):
            shards.append({"kind": "sched", "mode": mode, "nthreads": nthreads, "bound": (2 if nthreads == 2 else 1) if tier == "quick" else (3 if nthreads == 2 else 2),
                           "nrandom": 100 if tier == "quick" else 3000})
    return shards


def run_shard(shard, rec):
    P = fixture.pyro()
    r = gen.rng(rec.seed, "c09", repr(sorted(shard.items())))
    if shard["kind"] == "sched":
        for shape in SHAPES:
            for creator in (["none", "ok", "subclass"] if shard["mode"] == "single" else ["none", "subclass"]) + (["raises"] if shape == "truthy" else []):
                explore(P, shard["mode"], shape, creator, shard["nthreads"], shard["bound"], shard["nrandom"], rec, r)
        return
    make_fx = lambda: fixture.Fixture(servertype=shard["servertype"], COMMTIMEOUT=0.0, THREADPOOL_SIZE=40, THREADPOOL_SIZE_MIN=2, variant=fixture.variant_for(rec.seed, "c09", repr(sorted(shard.items()))))
    fx = make_fx()
    fx2 = make_fx()
    try:
        mode = shard["mode"]
        for rep in range(shard["reps"]):
            for shape in SHAPES:
                for creator in ("none", "ok"):
                    connected_socket_case(P, mode, shape, creator, rec, r, r.choice(fixture.SERIALIZERS))
            for shape in SHAPES:
                for creator in ("none", "ok", "subclass"):
                    multi_daemon_case([fx, fx2], make_fx, mode, shape, creator, rec, r, r.choice(fixture.SERIALIZERS))
                    if mode == "single":
                        registration_change_case(fx, shape, creator, rec, r, r.choice(fixture.SERIALIZERS))
                        if shard["servertype"] == "thread" and creator != "subclass" and shape in ("truthy", "falsy_len"):
                            shutdown_case(P, shape, creator, rec, r, r.choice(fixture.SERIALIZERS))
            for shape in SHAPES:
                for creator in CREATORS:
                    for race in ((True, False) if mode == "single" else (False,)):
                        if rec.should_stop(10):
                            return
                        nconn = r.randrange(2, 9) if race else r.randrange(2, 5)
                        socket_case(fx, mode, shape, creator, nconn, r.randrange(1, 4), rec, r, r.choice(fixture.SERIALIZERS), race)
        if mode == "single":
            # a daemon with a communication timeout, and a constructor that takes longer than that: racing first calls still get one instance
            fx.stop()
            fx = fixture.Fixture(servertype=shard["servertype"], COMMTIMEOUT=0.25, THREADPOOL_SIZE=40, THREADPOOL_SIZE_MIN=2)
            for creator in ("none", "ok"):
                socket_case(fx, "single", "truthy", creator, 3, 1, rec, r, r.choice(fixture.SERIALIZERS), True, inherit=False, slow_override=0.7)
                rec.count("slow_constructor_with_commtimeout")
        for kind, text in fixture.take_faults():
            if kind == "thread-exception":
                rec.violation("server-thread-fault", text, None)
    finally:
        fx.stop()
        fx2.stop()


def replay(payload, rec):
    P = fixture.pyro()
    r = gen.rng(0, "replay")
    if payload.get("regchange"):
        fx = fixture.Fixture(servertype=payload["servertype"], COMMTIMEOUT=0.0, THREADPOOL_SIZE=40, THREADPOOL_SIZE_MIN=2)
        try:
            registration_change_case(fx, payload["shape"], payload["creator"], rec, r, payload["serializer"])
        finally:
            fx.stop()
        return
    if payload.get("sched"):
        sc, res, got, book = sched_case(P, payload["mode"], payload["shape"], payload["creator"], payload["nthreads"], payload["choices"], rec, None)
        rec.case(("replay", repr(payload)[:100]))
        print("schedule:", res.trace)
        check_sched(P, payload["mode"], payload["shape"], payload["creator"], payload["nthreads"], rec, sc, res, got, book, payload)
        return
    if payload.get("shutdown_case"):
        shutdown_case(P, payload["shape"], payload["creator"], rec, r, payload["serializer"])
        return
    if payload.get("connected_socket"):
        connected_socket_case(P, payload["mode"], payload["shape"], payload["creator"], rec, r, payload["serializer"])
        return
    if payload.get("multi"):
        make_fx = lambda: fixture.Fixture(servertype=payload["servertype"], COMMTIMEOUT=0.0, THREADPOOL_SIZE=40, THREADPOOL_SIZE_MIN=2)
        fxs = [make_fx(), make_fx()]
        try:
            multi_daemon_case(fxs, make_fx, payload["mode"], payload["shape"], payload["creator"], rec, r, payload["serializer"])
        finally:
            for f in fxs:
                f.stop()
        return
    fx = fixture.Fixture(servertype=payload["servertype"], COMMTIMEOUT=payload.get("commtimeout", 0.0), THREADPOOL_SIZE=40, THREADPOOL_SIZE_MIN=2)
    try:
        socket_case(fx, payload["mode"], payload["shape"], payload["creator"], payload["nconn"], payload["ncalls"], rec, r, payload["serializer"], payload["race"], payload.get("inherit", False),
                    slow_override=payload.get("slow"), hook_raises=payload.get("hook_raises", False), rereg=payload.get("rereg", "no"))
    finally:
        fx.stop()
