"""Harness-local bait classes for C04: importable, no double underscore in the dotted name.
Nothing may ever import this module or touch these classes during decoding."""
LOG = []


class Bait(object):
    def __new__(cls, *a, **k):
        LOG.append(("new", a, k))
        return object.__new__(cls)

    def __init__(self, *a, **k):
        LOG.append(("init", a, k))

    def __setstate__(self, state):
        LOG.append(("setstate", state))

    def __reduce__(self):
        LOG.append(("reduce",))
        return (Bait, ())


class BaitError(Exception):
    def __init__(self, *a):
        LOG.append(("baiterror-init", a))
        super().__init__(*a)


LOG.append(("imported",))
