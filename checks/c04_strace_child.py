"""child of the C04 strace pass: decodes a seeded batch of hostile payloads between two marker syscalls (no audit hook here:
the OS-level trace is an independent second opinion)."""
import sys


def marker(name):
    try:
        open("/nonexistent/C04-" + name)
    except OSError:
        pass


def main():
    seed, n = int(sys.argv[1]), int(sys.argv[2])
    from checks import c04_deser as c
    from vlib import gen, fixture
    env = c.setup()
    P = env[0]
    r = gen.rng(seed, "c04-strace")
    for name in fixture.SERIALIZERS:
        s = P.serializers.serializers[name]
        s.loads(s.dumps({"a": [1, "é", 2.5, None]}))
        try:
            s.loads(s.dumps(ValueError("x")))
            s.loads(s.dumps(P.core.URI("PYRO:o@h:1")))
            s.loads(s.dumps(P.client.Proxy("PYRO:o@h:1")))
        except Exception:
            pass
    cases = []
    for j in range(n):
        sername = fixture.SERIALIZERS[j % 4]
        tree, call, must_raise, ntags = c.make_case(P, r, sername)
        try:
            cases.append((sername, call, c.encode(sername, tree, call)))
        except Exception:
            pass
    import warnings
    warnings.simplefilter("ignore")
    marker("BEGIN")
    decoded = 0
    for sername, call, data in cases:
        ser = P.serializers.serializers[sername]
        try:
            ser.loadsCall(data) if call else ser.loads(data)
        except BaseException:
            pass
        decoded += 1
    marker("END")
    print("decoded", decoded)


if __name__ == "__main__":
    main()
