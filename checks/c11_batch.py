"""C11 - a batch behaves like the same calls made one after another.

Differential: the same call list is executed (i) as a batch on object X and (ii) one by one through Proxy._pyroInvoke on
an identical fresh object Y of the same daemon (so unexposed and private names reach the server gate exactly as they do
inside a batch). Compared: result lists up to the first failure, the failure (class, args; at its position or at
submission), and dump() of both objects afterwards. Oneway batches: None, then dump() over the same connection."""
import threading
import time

from vlib import core, gen, fixture

PROPERTY = "C11"
LEVEL = "exploration"
RULE = ("call lists of length 0..12 over a stateful reference object (counter, list, dict) mixing succeeding methods, methods raising "
        "ValueError/KeyError/TypeError/custom PyroError, an unexposed method, a private method and a missing name, with the first failure "
        "at every position, varying positional/keyword arguments; normal and oneway batch; 4 serializers; both server types. distinct = "
        "(call list, mode, serializer, server); non-trivial = list has >= 2 calls")
ASSUMPTIONS = ["oneway-marked methods and iterator-returning methods are not batched (documented as unsupported)",
               "an exposure failure may surface at submission instead of at its position (the statement allows both)"]
REQUIRED_REACH = ["batches_submitted_by_other_thread", "shards_with_translating_error_handler", "deferred_result_reading", "copied_batchproxy_equal", "impatient_batch_state_equal", "batch_equal", "failure_at_position", "failure_at_submit", "oneway_equal", "state_compared", "reused_batchproxy_equal", "forgotten_oneway_batch_equal", "long_batches"]
SHARD_TIMEOUT = {"quick": 480, "thorough": 2400}


class AppError(Exception):
    """an application-defined exception that travels through converters the application registered (the sanctioned extension point);
    its wire form carries a class tag only, no Pyro exception marker"""
    pass


STRUCT_EXC = [lambda: KeyError((2, 3)), lambda: LookupError("empty cells", {(7, 7)}), lambda: ValueError([1, (2, 3)], {"k": (1, 2)}), lambda: KeyError(frozenset([1])),
              lambda: IndexError((), [], {}), lambda: ValueError(("nested", ("deeper", (1,)))), lambda: RuntimeError(b"bytes", 2 ** 70, 1.5, None, True)]


def register_converters(P):
    SB = P.serializers.SerializerBase
    SB.register_class_to_dict(AppError, lambda e: {"__class__": "c11.AppError", "args": list(e.args)})
    SB.register_dict_to_class("c11.AppError", lambda name, d: AppError(*d["args"]))


def make_ref_class(P):
    @P.server.expose
    class Ref(object):
        def __init__(self):
            self.counter = 0
            self.items = []
            self.table = {}
            self.calls = 0

        def inc(self, n=1):
            self.calls += 1
            self.counter += n
            return self.counter

        # remote methods with names a container-like or proxy-like object commonly has (and a batch proxy might one day grow itself):
        # in a batch they are calls on the REMOTE object like any other
        def clear(self):
            self.calls += 1
            n = len(self.items)
            del self.items[:]
            return n

        def close(self):
            self.calls += 1
            self.table["closed"] = self.table.get("closed", 0) + 1
            return "closed"

        def copy(self):
            self.calls += 1
            import copy as _copy
            return _copy.deepcopy(self.items)        # (a snapshot: results that share mutable state with the object are the alias probe's business)

        def update(self, **kw):
            self.calls += 1
            self.table.update(kw)
            return sorted(self.table)

        def submit(self, x=None):
            self.calls += 1
            self.items.append(["submitted", x])
            return len(self.items)

        def reset(self):
            self.calls += 1
            self.counter = 0
            return 0

        def send(self, x):
            self.calls += 1
            self.items.append(["sent", x])

        def results(self):
            self.calls += 1
            return self.counter

        def append(self, x, twice=False):
            self.calls += 1
            self.items.append(x)
            if twice:
                self.items.append(x)
            return len(self.items)

        def amend(self, i, v):
            # changes a stored argument in place (what an application does with the lists and dicts it was handed)
            self.calls += 1
            if 0 <= i < len(self.items) and isinstance(self.items[i], list):
                self.items[i].append(v)
                return len(self.items[i])
            return -1

        def put(self, k, v):
            self.calls += 1
            self.table[k] = v
            return None

        def get(self, k):
            self.calls += 1
            return self.table[k]          # KeyError for a missing key

        def concat(self, *parts, sep=""):
            self.calls += 1
            return sep.join(parts)

        def fail_value(self, msg):
            self.calls += 1
            self.items.append("before-fail")
            raise ValueError(msg, len(self.items))

        def fail_pyro(self, msg):
            self.calls += 1
            raise P.errors.NamingError(msg)

        def fail_struct(self, i):
            # exceptions whose arguments are containers: they reach the caller the same way from a batch as from a single call
            self.calls += 1
            raise STRUCT_EXC[i % len(STRUCT_EXC)]()

        def fail_app(self, msg):
            self.calls += 1
            raise AppError(msg, self.calls)

        def slow(self, t):
            self.calls += 1
            time.sleep(t)
            self.items.append("slow-done")

        def peek(self):
            return self.items           # (a reference to the object's own mutable state: used by the aliasing probe only)

        def dump(self):
            import copy
            return copy.deepcopy(self._dump())

        def _dump(self):
            return {"counter": self.counter, "items": list(self.items), "table": dict(self.table), "calls": self.calls}

        @P.server.expose
        def nothing(self):
            self.calls += 1

        def _priv(self, *a):
            self.calls += 1000
            return "private!"

    def hidden(self, *a):       # attached after decoration: never exposed
        self.calls += 1000
        return "hidden!"
    Ref.hidden = hidden
    return Ref


def gen_calls(r, n, fail_at):
    calls = []
    shared = [1, {"k": "v"}]        # one client-side object handed to several calls of the sequence: every call receives its own copy
    for i in range(n):
        if i == fail_at:
            k = r.randrange(12)
            calls.append([("fail_struct", (r.randrange(7),), {}), ("fail_struct", (r.randrange(7),), {}), ("fail_struct", (r.randrange(7),), {}), ("fail_app", ("app%d" % i,), {}), ("fail_value", ("boom%d" % i,), {}), ("fail_pyro", ("naming%d" % i,), {}), ("get", ("missing%d" % i,), {}), ("inc", ("notanumber",), {}),
                          ("hidden", (1,), {}), ("_priv", (), {}), ("doesnotexist", (1, 2), {}), ("append", (), {})][k])
            continue
        k = r.randrange(11)
        if k >= 9:
            calls.append(r.choice([("clear", (), {}), ("close", (), {}), ("copy", (), {}), ("update", (), {"a": i}), ("submit", (i,), {}), ("reset", (), {}), ("send", ("s%d" % i,), {}), ("results", (), {})]))
        elif k == 7:
            calls.append(("append", (shared,), {}))
        elif k == 8:
            calls.append(("amend", (r.randrange(0, 4), "m%d" % i), {}))
        elif k == 0:
            calls.append(("inc", (r.choice([1, 2, -5, 2 ** 70]),), {}))
        elif k == 1:
            calls.append(("inc", (), {"n": r.randrange(10)}))
        elif k == 2:
            calls.append(("append", (r.choice(["x", None, 1.5, [1, {"k": "v"}], "é"]),), {"twice": r.random() < 0.3}))
        elif k == 3:
            calls.append(("put", ("key%d" % r.randrange(3), r.choice([1, "v", [1, 2]])), {}))
        elif k == 4:
            calls.append(("concat", tuple(r.choice(["a", "b", "é"]) for _ in range(r.randrange(0, 4))), {"sep": r.choice(["", "-"])}))
        elif k == 5:
            calls.append(("nothing", (), {}))
        else:
            calls.append(("dump", (), {}))
    return calls


def run_sequential(P, py, calls):
    results = []
    for name, args, kwargs in calls:
        try:
            results.append(py._pyroInvoke(name, args, kwargs))
        except Exception as x:
            return results, x
    return results, None


def run_batch(P, px, calls, oneway, b=None):
    b = b if b is not None else P.client.BatchProxy(px)
    for name, args, kwargs in calls:
        getattr(b, name)(*args, **kwargs)
    results = []
    try:
        it = b(oneway=oneway)
    except Exception as x:
        return results, x, "submit", None
    if oneway:
        return None, None, None, it
    try:
        for v in it:
            results.append(v)
    except Exception as x:
        return results, x, "position", None
    return results, None, None, None


def same_exc(a, b):
    return type(a) is type(b) and gen.deep_eq(a.args, b.args)


def check_forget(fx, Ref, calls, sername, rec, n):
    """fire and forget: a oneway batch whose proxy is released straight after submission, while the daemon is still busy with the first
    (slow) call; the object's state is then read over another connection and compared with the same calls made one by one"""
    P = fx.P
    idx, idy = "fx%d" % n, "fy%d" % n
    X, Y = Ref(), Ref()
    fx.daemon.register(X, idx)
    fx.daemon.register(Y, idy)
    pay = {"calls": calls, "oneway": True, "forget": True, "serializer": sername, "servertype": fx.servertype}
    rec.case(("forget", repr(calls), sername, fx.servertype), nontrivial=len(calls) >= 2, sample=pay if rec.evaluations % 100 == 5 else None)
    try:
        with fx.proxy(idy, serializer=sername) as py:
            run_sequential(P, py, calls)
            dumpy = py._pyroInvoke("dump", (), {})
        px = fx.proxy(idx, serializer=sername)
        try:
            bres, bexc, where, ret = run_batch(P, px, calls, True)
        finally:
            px._pyroRelease()
        if bexc is not None or ret is not None:
            if sername == "marshal" and type(bexc) is ValueError and "unmarshallable" in str(bexc):
                rec.violation("marshal-batch-member-exception-unmarshallable", "marshal oneway batch: %r" % (bexc,), pay)
            else:
                rec.violation("oneway-batch-returns-something", "oneway batch returned %r / raised %r" % (ret, bexc), pay)
            return
        deadline = time.monotonic() + 5.0
        with fx.proxy(idx, serializer=sername) as pz:
            while True:
                dumpx = pz._pyroInvoke("dump", (), {})
                if gen.deep_eq(dumpx, dumpy) or time.monotonic() > deadline:
                    break
                time.sleep(0.02)
            if gen.deep_eq(dumpx, dumpy):
                time.sleep(0.03)          # nothing more may happen afterwards either
                dumpx = pz._pyroInvoke("dump", (), {})
    except Exception as x:
        rec.inconc("harness call failed: %r" % (x,))
        return
    finally:
        fx.daemon.unregister(X)
        fx.daemon.unregister(Y)
    if not gen.deep_eq(dumpx, dumpy):
        rec.violation("oneway-batch-state-differs", "oneway batch %r, proxy released straight after submitting: the object is (5 s later at most) %r; after the same calls "
                      "one by one it is %r" % (calls, dumpx, dumpy), pay)
        return
    rec.count("forgotten_oneway_batch_equal")
    rec.count("state_compared")


def check_impatient(fx, Ref, sername, rec, n, retries):
    """a client with retries enabled (MAX_RETRIES / _pyroMaxRetries > 0) and a timeout that every single call meets but the batch as a whole
    does not: made one by one, every call runs once; the batch, whatever the client is told in the end, has the same effect on the object"""
    P = fx.P
    idx, idy = "ix%d" % n, "iy%d" % n
    X, Y = Ref(), Ref()
    fx.daemon.register(X, idx)
    fx.daemon.register(Y, idy)
    timeout, nap = 0.9, 0.32
    calls = [("inc", (1,), {}), ("slow", (nap,), {}), ("append", ("a",), {}), ("slow", (nap,), {}), ("inc", (5,), {}), ("slow", (nap,), {}), ("put", ("k", "v"), {})]
    pay = {"impatient": True, "retries": retries, "serializer": sername, "servertype": fx.servertype}
    rec.case(("impatient", retries, sername, fx.servertype), nontrivial=True, sample=pay)
    dumpx = dumpy = None
    try:
        with fx.proxy(idy, serializer=sername, timeout=timeout, retries=retries) as py:
            t0 = time.monotonic()
            sres, sexc = run_sequential(P, py, calls)
            py._pyroTimeout = 10.0
            dumpy = py._pyroInvoke("dump", (), {})
        if sexc is not None or dumpy["calls"] != len(calls):
            rec.inconc("impatient client: the one-by-one run itself did not go cleanly (%r, %r calls): machine too slow for this case" % (sexc, dumpy["calls"]))
            return
        px = fx.proxy(idx, serializer=sername, timeout=timeout, retries=retries)
        try:
            bres, bexc, where, ret = run_batch(P, px, calls, False)
        finally:
            px._pyroRelease()
        if bexc is not None and not isinstance(bexc, P.errors.CommunicationError):
            rec.violation("batch-exception-differs", "impatient client (timeout %.1f s, %d retries): the batch raised %r" % (timeout, retries, bexc), pay)
            return
        rec.count("impatient_batches_timed_out" if bexc is not None else "impatient_batches_completed")
        # the daemon goes on with the batch after the client has given up: wait until the object has stopped changing
        deadline = time.monotonic() + 12.0
        with fx.proxy(idx, serializer=sername, timeout=10.0) as pz:
            last, stable_since = None, time.monotonic()
            while time.monotonic() < deadline:
                dumpx = pz._pyroInvoke("dump", (), {})
                if not gen.deep_eq(dumpx, last):
                    last, stable_since = dumpx, time.monotonic()
                elif time.monotonic() - stable_since > 3 * nap + 0.6 and dumpx["calls"] >= len(calls):
                    break
                time.sleep(0.05)
    except Exception as x:
        rec.inconc("harness call failed: %r" % (x,))
        return
    finally:
        fx.daemon.unregister(X)
        fx.daemon.unregister(Y)
    if not gen.deep_eq(dumpx, dumpy):
        rec.violation("batch-state-differs:impatient-client", "client with timeout %.1f s and %d retries, 7 calls of which three take %.2f s each: one by one every call ran once and the object is %r; "
                      "after the batch (client was told %r) it is %r" % (timeout, retries, nap, dumpy, bexc, dumpx), pay)
        return
    rec.count("impatient_batch_state_equal")
    rec.count("state_compared")


def alias_probe(fx, Ref, sername, rec, n):
    """a result that refers to mutable state of the object, followed in the same batch by a call that changes that state"""
    P = fx.P
    calls = [("append", ([1],), {}), ("peek", (), {}), ("amend", (0, "x"), {}), ("peek", (), {})]
    idx, idy = "ax%d" % n, "ay%d" % n
    X, Y = Ref(), Ref()
    fx.daemon.register(X, idx)
    fx.daemon.register(Y, idy)
    pay = {"calls": calls, "oneway": False, "alias_probe": True, "serializer": sername, "servertype": fx.servertype}
    rec.case(("alias-probe", sername, fx.servertype), nontrivial=True)
    try:
        with fx.proxy(idx, serializer=sername) as px, fx.proxy(idy, serializer=sername) as py:
            sres, sexc = run_sequential(P, py, calls)
            bres, bexc, where, ret = run_batch(P, px, calls, False)
    except Exception as x:
        rec.inconc("harness call failed: %r" % (x,))
        return
    finally:
        fx.daemon.unregister(X)
        fx.daemon.unregister(Y)
    if sexc is not None or bexc is not None:
        rec.inconc("aliasing probe raised: %r / %r" % (sexc, bexc))
        return
    if not gen.deep_eq(bres, sres):
        rec.violation("batch-result-reflects-later-call", "calls %r: one by one the results are %r; as a batch %r (the second result was serialized after the third call had changed "
                      "the list it refers to)" % (calls, sres, bres), pay)
    else:
        rec.count("alias_probe_equal")


def check_case(fx, Ref, calls, oneway, sername, rec, n, other_thread=False):
    P = fx.P
    idx, idy = "x%d" % n, "y%d" % n
    if other_thread:
        # two features at once: the object is the per-connection instance of a class registered in (the default) session mode, and the batch
        # is submitted by another thread than the one the proxy belongs to (submitting hands the proxy over, as every call does)
        X, Y = type("RefS", (Ref,), {}), type("RefS", (Ref,), {})      # (same name: error texts mention it)
        rec.count("batches_submitted_by_other_thread")
    else:
        X, Y = Ref(), Ref()
    fx.daemon.register(X, idx)
    fx.daemon.register(Y, idy)
    pay = {"calls": calls, "oneway": oneway, "serializer": sername, "servertype": fx.servertype, "other_thread": other_thread}
    rec.case((repr(calls), oneway, sername, fx.servertype), nontrivial=len(calls) >= 2, sample=pay if rec.evaluations % 300 == 5 else None)
    try:
        with fx.proxy(idx, serializer=sername) as px, fx.proxy(idy, serializer=sername) as py:
            sres, sexc = run_sequential(P, py, calls)
            if other_thread:
                px._pyroBind()
                box = []
                t = threading.Thread(target=lambda: box.append(run_batch(P, px, calls, oneway)), daemon=True)
                t.start()
                t.join(60)
                if not box:
                    rec.inconc("batch submitted from another thread did not return within the watchdog")
                    return
                bres, bexc, where, ret = box[0]
                px._pyroClaimOwnership()
            else:
                bres, bexc, where, ret = run_batch(P, px, calls, oneway)
            dumpx = px._pyroInvoke("dump", (), {})      # same connection as the batch
            dumpy = py._pyroInvoke("dump", (), {})
    except Exception as x:
        rec.inconc("harness call failed: %r" % (x,))
        return
    finally:
        fx.daemon.unregister(X)
        fx.daemon.unregister(Y)
    # dump() itself counts as a call in 'calls': the two extra dump calls are symmetric
    if oneway:
        if ret is not None or bexc is not None:
            if bexc is not None and sername == "marshal" and type(bexc) is ValueError and "unmarshallable" in str(bexc):
                rec.violation("marshal-batch-member-exception-unmarshallable", "marshal oneway batch: %r" % (bexc,), pay)
                return
            rec.violation("oneway-batch-returns-something", "oneway batch returned %r / raised %r" % (ret, bexc), pay)
            return
        if not gen.deep_eq(dumpx, dumpy):
            rec.violation("oneway-batch-state-differs", "after oneway batch %r the object is %r; after the same calls one by one it is %r" % (calls, dumpx, dumpy), pay)
            return
        rec.count("oneway_equal")
        rec.count("state_compared")
        return
    if sername == "marshal" and bexc is not None and type(bexc) is ValueError and bexc.args == ("unmarshallable object",) and sexc is not None:
        rec.violation("marshal-batch-member-exception-unmarshallable", "marshal: failing batch member's exception arrives as %r (sequential run raised %r)" % (bexc, sexc), pay)
        return
    if (sexc is None) != (bexc is None) or (sexc is not None and not same_exc(sexc, bexc)):
        rec.violation("batch-failure-differs", "calls %r: sequential run raised %r after %d results; batch raised %r (%s) after %d results" % (
            calls, sexc, len(sres), bexc, where, len(bres)), pay)
        return
    if where == "submit":
        rec.count("failure_at_submit")
    else:
        if not gen.deep_eq(bres, sres):
            rec.violation("batch-results-differ", "calls %r: sequential results %r, batch results %r" % (calls, sres, bres), pay)
            return
        if bexc is not None:
            rec.count("failure_at_position")
    if not gen.deep_eq(dumpx, dumpy):
        rec.violation("batch-state-differs", "calls %r: object after batch %r, after sequential run %r" % (calls, dumpx, dumpy), pay)
        return
    rec.count("state_compared")
    rec.count("batch_equal")


SUBMIT_FAILURES = ("hidden", "_priv", "doesnotexist")


def check_reuse(fx, Ref, batches, sername, rec, n, deferred=False):
    """several batches submitted through ONE BatchProxy (re-use is a documented feature) against the same calls made one by one:
    every batch must consist of exactly the calls queued since the previous submission"""
    P = fx.P
    idx, idy = "rx%d" % n, "ry%d" % n
    X, Y = Ref(), Ref()
    fx.daemon.register(X, idx)
    fx.daemon.register(Y, idy)
    pay = {"batches": batches, "serializer": sername, "servertype": fx.servertype, "deferred": deferred}
    rec.case(("reuse", repr(batches), sername, fx.servertype, deferred), nontrivial=True, sample=pay if rec.evaluations % 300 == 7 else None)
    outcomes = []
    try:
        with fx.proxy(idx, serializer=sername) as px, fx.proxy(idy, serializer=sername) as py:
            b = P.client.BatchProxy(px)
            if deferred:
                # "submit everything, then read everything": each batch runs when it is submitted; its results are read only after all
                # batches have been submitted through the same BatchProxy
                rec.count("deferred_result_reading")
                pending = []
                for calls, oneway in batches:
                    sres, sexc = run_sequential(P, py, calls)
                    for name, args, kwargs in calls:
                        getattr(b, name)(*args, **kwargs)
                    try:
                        it, subexc = b(oneway=oneway), None
                    except Exception as x:
                        it, subexc = None, x
                    dumpx = px._pyroInvoke("dump", (), {})
                    dumpy = py._pyroInvoke("dump", (), {})
                    pending.append((calls, oneway, sres, sexc, it, subexc, dumpx, dumpy))
                for calls, oneway, sres, sexc, it, subexc, dumpx, dumpy in pending:
                    bres, bexc, where, ret = [], subexc, ("submit" if subexc is not None else None), None
                    if subexc is None and oneway:
                        bres, ret = None, it
                    elif subexc is None:
                        try:
                            for v in it:
                                bres.append(v)
                        except Exception as x:
                            bexc, where = x, "position"
                    outcomes.append((calls, oneway, sres, sexc, bres, bexc, where, ret, dumpx, dumpy))
            for calls, oneway in ([] if deferred else batches):
                sres, sexc = run_sequential(P, py, calls)
                bres, bexc, where, ret = run_batch(P, px, calls, oneway, b)
                dumpx = px._pyroInvoke("dump", (), {})
                dumpy = py._pyroInvoke("dump", (), {})
                outcomes.append((calls, oneway, sres, sexc, bres, bexc, where, ret, dumpx, dumpy))
    except Exception as x:
        rec.inconc("harness call failed: %r" % (x,))
        return
    finally:
        fx.daemon.unregister(X)
        fx.daemon.unregister(Y)
    for k, (calls, oneway, sres, sexc, bres, bexc, where, ret, dumpx, dumpy) in enumerate(outcomes):
        if sername == "marshal" and bexc is not None and type(bexc) is ValueError and "unmarshallable" in str(bexc):
            rec.violation("marshal-batch-member-exception-unmarshallable", "marshal: batch %d of a re-used BatchProxy: %r" % (k, bexc), pay)
            return
        what = None
        if oneway:
            if ret is not None or bexc is not None:
                what = "oneway batch returned %r / raised %r" % (ret, bexc)
        elif (sexc is None) != (bexc is None) or (sexc is not None and not same_exc(sexc, bexc)):
            what = "one by one raised %r after %d results; the batch raised %r (%s) after %d results" % (sexc, len(sres), bexc, where, len(bres))
        elif where != "submit" and not gen.deep_eq(bres, sres):
            what = "one by one results %r, batch results %r" % (sres, bres)
        if what is None and not gen.deep_eq(dumpx, dumpy):
            what = "object after the batch %r, after the same calls one by one %r" % (dumpx, dumpy)
        if what is not None:
            rec.violation("reused-batchproxy-batch-differs" if k else "batch-results-differ",
                          "batch %d of %d submitted through one BatchProxy (%s; earlier batches: %r): %s" % (
                              k + 1, len(outcomes), "oneway" if oneway else "normal", [(len(c), "oneway" if o else "normal") for c, o in batches[:k]], what), pay)
            return
    rec.count("reused_batchproxy_equal")


def check_copied(fx, Ref, prefix, own1, own2, first, sername, rec, n):
    """copy.copy() of a half-built BatchProxy: the copy starts with the calls queued so far, from then on the two are separate batches. Each
    of them, when submitted, is exactly its own calls - compared with the same calls made one by one, in submission order"""
    import copy
    P = fx.P
    idx, idy = "cx%d" % n, "cy%d" % n
    X, Y = Ref(), Ref()
    fx.daemon.register(X, idx)
    fx.daemon.register(Y, idy)
    pay = {"copied": True, "prefix": prefix, "own1": own1, "own2": own2, "first": first, "serializer": sername, "servertype": fx.servertype}
    rec.case(("copied", repr((prefix, own1, own2, first)), sername, fx.servertype), nontrivial=True, sample=pay if rec.evaluations % 200 == 9 else None)
    outcomes = []
    try:
        with fx.proxy(idx, serializer=sername) as px, fx.proxy(idy, serializer=sername) as py:
            b1 = P.client.BatchProxy(px)
            for name, args, kwargs in prefix:
                getattr(b1, name)(*args, **kwargs)
            b2 = copy.copy(b1)
            # further calls queued alternately on the original and on the copy
            for k in range(max(len(own1), len(own2))):
                if k < len(own1):
                    name, args, kwargs = own1[k]
                    getattr(b1, name)(*args, **kwargs)
                if k < len(own2):
                    name, args, kwargs = own2[k]
                    getattr(b2, name)(*args, **kwargs)
            order = [(b1, prefix + own1, "original"), (b2, prefix + own2, "copy")]
            if first == "copy":
                order.reverse()
            for b, calls, which in order:
                sres, sexc = run_sequential(P, py, calls)
                bres, bexc, where, ret = run_batch(P, px, [], False, b)
                dumpx = px._pyroInvoke("dump", (), {})
                dumpy = py._pyroInvoke("dump", (), {})
                outcomes.append((which, calls, sres, sexc, bres, bexc, where, dumpx, dumpy))
    except Exception as x:
        rec.inconc("harness call failed: %r" % (x,))
        return
    finally:
        fx.daemon.unregister(X)
        fx.daemon.unregister(Y)
    for which, calls, sres, sexc, bres, bexc, where, dumpx, dumpy in outcomes:
        if sername == "marshal" and bexc is not None and type(bexc) is ValueError and "unmarshallable" in str(bexc):
            rec.violation("marshal-batch-member-exception-unmarshallable", "marshal: copied BatchProxy: %r" % (bexc,), pay)
            return
        what = None
        if (sexc is None) != (bexc is None) or (sexc is not None and not same_exc(sexc, bexc)):
            what = "one by one raised %r after %d results; the batch raised %r (%s) after %d results" % (sexc, len(sres), bexc, where, len(bres))
        elif where != "submit" and not gen.deep_eq(bres, sres):
            what = "one by one results %r, batch results %r" % (sres, bres)
        if what is None and not gen.deep_eq(dumpx, dumpy):
            what = "object after the batch %r, after the same calls one by one %r" % (dumpx, dumpy)
        if what is not None:
            rec.violation("copied-batchproxy-batch-differs", "a BatchProxy with %d queued calls was copied, then %d more calls were queued on the original and %d on the copy; the %s (submitted %s) holds %r: %s" % (
                len(prefix), len(own1), len(own2), which, "first" if which == first else "second", [c[0] for c in calls], what), pay)
            return
    rec.count("copied_batchproxy_equal")


def plan(tier, seed):
    shards = []
    per = 60 if tier == "quick" else 500
    for st in ("thread", "multiplex"):
        for sername in fixture.SERIALIZERS:
            shards.append({"servertype": st, "serializer": sername, "n": per})
    return shards


def run_shard(shard, rec):
    P = fixture.pyro()
    Ref = make_ref_class(P)
    register_converters(P)
    r = gen.rng(rec.seed, "c11", shard["servertype"], shard["serializer"])
    fx = fixture.Fixture(servertype=shard["servertype"], COMMTIMEOUT=0.0, variant=fixture.variant_for(rec.seed, "c11", repr(sorted(shard.items()))))
    rec.count("fixture_variant:" + fx.variant)
    if (len(shard["serializer"]) + len(shard["servertype"]) + rec.seed) % 2:
        # the daemon's documented extension point for failing calls, used the way applications use it: a handler that TRANSLATES some
        # exceptions (internal detail -> what the API promises) by raising another one. Whatever it does for a call made on its own, it does
        # for the same call as a batch member (the sequential run on the identical object is the reference, as everywhere in this check)
        def translating_handler(daemon, client, method, vargs, kwargs, exception):
            rec.count("error_handler_calls")
            if type(exception) in (ValueError, P.errors.NamingError):
                raise PermissionError("translated", type(exception).__name__, [repr(a) for a in exception.args])
        fx.daemon.methodcall_error_handler = translating_handler
        rec.count("shards_with_translating_error_handler")
    try:
        n = 0
        alias_probe(fx, Ref, shard["serializer"], rec, 0)
        check_impatient(fx, Ref, shard["serializer"], rec, 0, 1 + (len(shard["serializer"]) + len(shard["servertype"])) % 2)
        # a few long batches (the quantifier's N is not small: anything that treats a long batch differently - slicing, buffering - shows here)
        for fail_at in (None, 0, 3, 63, 64, 70, 129):
            if rec.should_stop(30):
                break
            length = r.choice([65, 100, 130, 200])
            calls = gen_calls(r, length, fail_at if fail_at is None or fail_at < length else length - 1)
            n += 1
            check_case(fx, Ref, calls, fail_at in (3, 70), shard["serializer"], rec, n)
            rec.count("long_batches")
        for _ in range(shard["n"]):
            length = r.randrange(0, 13)
            for fail_at in [None] + list(range(length)):
                if fail_at is not None and r.random() < (0.5 if rec.tier == "quick" else 0.0) and length > 4:
                    continue
                if rec.should_stop(30):
                    break
                calls = gen_calls(r, length, fail_at)
                n += 1
                check_case(fx, Ref, calls, r.random() < 0.3, shard["serializer"], rec, n, other_thread=n % 6 == 0)
                if r.random() < 0.12:
                    n += 1
                    check_forget(fx, Ref, [("slow", (r.choice([0.01, 0.04]),), {})] + calls, shard["serializer"], rec, n)
        for _ in range(max(10, shard["n"] // 2)):
            if rec.should_stop(30):
                break
            batches = []
            for k in range(r.randrange(2, 4)):
                length = r.randrange(1, 6)
                # any batch may fail, at a position or at submission (unexposed / private / missing name): the BatchProxy is cleared all the same
                batches.append((gen_calls(r, length, r.choice([None, None] + list(range(length)))), r.random() < 0.4))
            n += 1
            check_reuse(fx, Ref, batches, shard["serializer"], rec, n, deferred=r.random() < 0.4)
        for _ in range(max(8, shard["n"] // 3)):
            if rec.should_stop(30):
                break
            n += 1
            mk = lambda k: gen_calls(r, k, r.choice([None, None, None] + list(range(k))) if k else None)
            check_copied(fx, Ref, mk(r.randrange(0, 4)), mk(r.randrange(0, 4)), mk(r.randrange(0, 4)), r.choice(["original", "copy"]), shard["serializer"], rec, n)
        for kind, text in fixture.take_faults():
            if kind == "thread-exception":
                rec.violation("server-thread-fault", text, None)
    finally:
        fx.stop()


def replay(payload, rec):
    P = fixture.pyro()
    Ref = make_ref_class(P)
    register_converters(P)
    fx = fixture.Fixture(servertype=payload["servertype"], COMMTIMEOUT=0.0)
    try:
        if "batches" in payload:
            check_reuse(fx, Ref, [(c, o) for c, o in payload["batches"]], payload["serializer"], rec, 1, deferred=payload.get("deferred", False))
        elif payload.get("copied"):
            tup = lambda calls: [(c[0], tuple(c[1]), c[2]) for c in calls]
            check_copied(fx, Ref, tup(payload["prefix"]), tup(payload["own1"]), tup(payload["own2"]), payload["first"], payload["serializer"], rec, 1)
        elif payload.get("impatient"):
            check_impatient(fx, Ref, payload["serializer"], rec, 1, payload["retries"])
        elif payload.get("alias_probe"):
            alias_probe(fx, Ref, payload["serializer"], rec, 1)
        elif payload.get("forget"):
            check_forget(fx, Ref, payload["calls"], payload["serializer"], rec, 1)
        else:
            check_case(fx, Ref, payload["calls"], payload["oneway"], payload["serializer"], rec, 1, other_thread=payload.get("other_thread", False))
    finally:
        fx.stop()
