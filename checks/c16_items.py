"""Harness classes for C16 whose instances may travel by value: importable module, no double underscore in the dotted name."""
import itertools

_serial = itertools.count(1)
CALLS = []          # (serial, method) - which object's code ran


class Item(object):
    def __init__(self, label):
        self.serial = next(_serial)
        self.label = label

    def who(self):
        CALLS.append((self.serial, "who"))
        return self.serial


class EqItem(Item):
    """value equality: every EqItem equals (and hashes like) every other one; the registry goes by identity all the same"""

    def __eq__(self, other):
        return type(other) is EqItem

    def __ne__(self, other):
        return not self.__eq__(other)

    def __hash__(self):
        return 1234567


class Other(object):
    """falsy (an empty container): its truth value must make no difference to the registry"""

    def __init__(self, label):
        self.serial = next(_serial)
        self.label = label

    def __len__(self):
        return 0

    def who(self):
        CALLS.append((self.serial, "who"))
        return self.serial


class KlassA(object):
    def who(self):
        CALLS.append(("KlassA", "who"))
        return "class:KlassA"


class KlassB(object):
    def who(self):
        CALLS.append(("KlassB", "who"))
        return "class:KlassB"


class NoWeak(int):
    """an object that cannot be weakly referenced (instances of int subclasses cannot): registering it with weak=True must fail - and change nothing"""

    def who(self):
        CALLS.append(("NoWeak", "who"))
        return "noweak"
