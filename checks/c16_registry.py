"""C16 - daemon registry: an id reaches exactly its object, for as long as registered.

A registry model (id -> object) is stepped with generated histories of register / unregister / uriFor / proxyFor /
call-by-id (raw client) / return-object / del+gc steps against a live daemon; every object logs calls under its own
serial; returned objects are classified at the caller (Proxy => call through it and check whose log moved; data =>
must carry the object's own attributes)."""
import gc
import weakref
import time

from vlib import core, gen, fixture, wire
from checks import c16_items as items

PROPERTY = "C16"
LEVEL = "exploration"
RULE = ("histories of ~14 steps over a pool of 5 objects and 2 classes: register (explicit ids incl. 'Pyro.Daemon', colliding, empty, non-str; generated ids; "
        "force; weak), unregister (by object, by id, None, the daemon's own id), uriFor, proxyFor, call-by-id through the raw client, DaemonObject."
        "registered(), return-object through a hub method with serpent/json/msgpack/marshal, del + gc.collect(); both server types. distinct = (history "
        "hash, step); non-trivial = the step involves an id or object that is or was registered")
ASSUMPTIONS = ["harness classes that travel by value live in an importable module without '__' and the caller registers a dict-to-class converter (the sanctioned extension point)",
               "forced replacement of an id is an explicit request, not a silent one", "for an object forcibly registered under two ids only id->object dispatch and the reported id set are checked",
               "marshal has no type-replacement hook by design: by-value only"]
REQUIRED_REACH = ["slotted_objects_ok", "returned_as_proxy_after_converter_churn", "steps_ok", "calls_dispatched", "unknown_id_refused", "returned_as_proxy", "returned_by_value", "duplicates_refused", "weak_collected", "registered_listing_ok", "combined_daemon_rounds"]
SHARD_TIMEOUT = {"quick": 480, "thorough": 2800}
AUTO = ("serpent", "json", "msgpack")


class RegModel:
    def __init__(self):
        self.ids = {}          # id -> {"obj": object, "weak": bool}
        self.last = {}         # id(obj) -> id assigned last (the one stored on the object)
        self.ambiguous = set() # objects that were forcibly registered under a second id: behaviour beyond id->object dispatch is undefined

    def ids_of(self, obj):
        return [i for i, e in self.ids.items() if deref(e) is obj]

    def note_double(self, obj):
        self.ambiguous.add(id(obj))

    def refresh(self, obj):
        """an object that is left with exactly one registration, under the id it was given last (the one stored on it), is an ordinary
        registered object again"""
        ids = self.ids_of(obj)
        if len(ids) == 1 and ids[0] == self.last.get(id(obj)):
            self.ambiguous.discard(id(obj))


def deref(e):
    """the model never holds a strong reference to a weakly registered object"""
    o = e["obj"]
    return o() if e["weak"] else o


def setup_env(P, servertype, variant=None):
    for cls in (items.Item, items.EqItem, items.Other, items.KlassA, items.KlassB):
        P.server.expose(cls)
    fx = fixture.Fixture(servertype=servertype, COMMTIMEOUT=0.0, variant=variant)
    pool = [items.Item("i0"), items.EqItem("e1"), items.Other("o2"), items.EqItem("e3"), items.Other("o4")]     # (1 and 3 are equal by value, not identical)

    @P.server.expose
    class Hub(object):
        def give(self, k):
            return pool[k]

        def give_nested(self, k):
            return [pool[k], {"x": pool[k]}]
    fx.register(Hub(), "hub")

    def conv(classname, d):
        return {"byvalue": True, "serial": d.get("serial"), "label": d.get("label"), "classname": classname}
    for cn in ("checks.c16_items.Item", "checks.c16_items.EqItem", "checks.c16_items.Other"):
        P.serializers.SerializerBase.register_dict_to_class(cn, conv)
    # a second daemon in the same process that (un)registers objects of the very same classes now and then: what one daemon does with
    # its registry must not change how the other daemon's registered objects travel
    fx.sibling = fixture.Fixture(servertype=servertype, COMMTIMEOUT=0.0)
    fx.sibling_objs = []
    return fx, pool


def gen_history(r, n):
    steps = []
    idpool = ["alpha", "beta", "gamma", "Pyro.Daemon", "hub", "", "obj_fixed"]
    if r.random() < 0.1:
        # a forced re-registration of the SAME object under the SAME id that flips the weak flag, then the program drops its own reference
        a = r.choice([0, 1, 2, 3, 4])
        w = r.random() < 0.5
        steps.append(("register", a, "alpha", False, w))
        steps.append(("register", a, "alpha", True, not w))
        steps.append(("call", "alpha"))
        steps.append(("del", a))
        steps.append(("call", "alpha"))
        steps.append(("listing",))
    elif r.random() < 0.15:
        # forced re-registration chain: an object moves to a new id, its old alias is taken over (or dropped), then the object is used
        a, b = r.choice([(0, 1), (1, 3), (2, 4), (3, 2)])
        ser = r.choice(fixture.SERIALIZERS)
        steps.append(("register", a, "alpha", False, False))
        steps.append(("register", a, "beta", True, False))
        steps.append(r.choice([("register", b, "alpha", True, False), ("unregister_id", "alpha")]))
        steps.append(("urifor", a))
        steps.append(("give", a, ser, False))
        steps.append(("call", "beta"))
        steps.append(("listing",))
    elif r.random() < 0.4:
        # interaction prefix: two objects of ONE class (weakly / strongly / under generated ids), one of them leaves, the other one is returned
        same = r.choice([(0, 1), (1, 3), (3, 0), (2, 4), (4, 2)])
        a, b = same
        ser = r.choice(fixture.SERIALIZERS)
        steps.append(("register", a, r.choice(["alpha", None]), False, r.random() < 0.6))
        steps.append(("register", b, r.choice(["beta", None]), False, r.random() < 0.3))
        steps.append(r.choice([("unregister_obj", b), ("unregister_id", "beta"), ("unregister_id", "@gen"), ("del", b)]))
        if r.random() < 0.4:
            steps.append(("sibling", "reg-item" if a in (0, 1, 3) else "reg-other"))
        steps.append(("give", a, ser, False))
        steps.append(("give", "@reg", ser, r.random() < 0.3))
    if r.random() < 0.1:
        # hot swap: the object is registered in another daemon of this process, taken over by ours under the SAME id (forced), then the other
        # daemon is closed; from then on the object is ours like any other registered object
        a = r.choice([0, 1, 2, 3, 4])
        steps.append(("old_register", a, "alpha"))
        steps.append(("register", a, "alpha", True, False))
        steps.append(("old_close", r.choice(["close", "shutdown", "with"])))
        steps.append(("give", a, r.choice(fixture.SERIALIZERS), False))
        steps.append(("urifor", a))
        steps.append(("call", "alpha"))
        steps.append(("listing",))
    if r.random() < 0.12:
        # a registration that FAILS half-way (the object cannot be weakly referenced), forced onto an id somebody else holds
        a = r.choice([0, 1, 2, 3, 4])
        steps.append(("register", a, "alpha", False, r.random() < 0.3))
        steps.append(("register_noweak", "alpha", True))
        steps.append(("call", "alpha"))
        steps.append(("give", a, r.choice(fixture.SERIALIZERS), False))
        steps.append(("listing",))
    for _ in range(n):
        k = r.random()
        target = r.choice([0, 1, 2, 3, 4, "A", "B"])
        if k < 0.3:
            oid = r.choice(idpool + [None, None, None, 5, ["x"]])
            steps.append(("register", target, oid, r.random() < 0.25, r.random() < 0.3))
        elif k < 0.40:
            steps.append(("unregister_obj", target))
        elif k < 0.42:
            steps.append(("unregister_daemon_obj",))
        elif k < 0.54:
            steps.append(("unregister_id", r.choice(idpool + ["@gen", "nosuch", None])))
        elif k < 0.6:
            steps.append(("urifor", r.choice([target, "alpha", "nosuch"])))
        elif k < 0.66:
            steps.append(("proxyfor", r.choice([target, "alpha", "nosuch", "@gen"])))
        elif k < 0.8:
            steps.append(("call", r.choice(idpool[:3] + ["@gen", "nosuch", "obj_fixed"])))
        elif k < 0.93:
            # "@reg": an object that is registered at that moment (chosen when the step runs), so that the auto-proxy path is exercised often
            steps.append(("give", r.choice([0, 1, 2, 3, 4, "@reg", "@reg", "@reg", "@reg"]), r.choice(fixture.SERIALIZERS), r.random() < 0.2))
        elif k < 0.955:
            steps.append(("del", r.choice([0, 1, 2, 3, 4])))
        elif k < 0.97:
            steps.append(("sibling", r.choice(["reg-item", "reg-other", "unreg", "reg-item"])))
        elif k < 0.985:
            steps.append(("register_noweak", r.choice(["alpha", "beta", "gamma", None, "obj_fixed"]), r.random() < 0.7))
        else:
            steps.append(("listing",))
    steps.append(("listing",))
    return steps


def run_history(fx, pool, hist, rec, hh):
    P = fx.P
    d = fx.daemon
    fx.old_daemons = []
    model = RegModel()
    klass = {"A": items.KlassA, "B": items.KlassB}
    gen_ids = []
    pay = {"history": hist, "servertype": fx.servertype}
    raw = wire.RawClient(fx.location, timeout=10.0)
    ser = P.serializers.serializers["serpent"]
    raw.handshake("hub", ser)

    def obj_of(t):
        return klass[t] if isinstance(t, str) else pool[t]

    def fail(mech, msg, step):
        rec.violation(mech, "step %d %r: %s" % (step, hist[step], msg), dict(pay, step=step))
        return False
    try:
        for step, st in enumerate(hist):
            obj = arg = e = cur = res = p = u = displaced = None      # the harness itself must not keep weakly registered objects alive
            kind = st[0]
            rec.case((hh, step), nontrivial=True, sample={"step": [repr(x) for x in st], "registered": sorted(model.ids)} if rec.evaluations % 700 == 9 else None)
            if kind == "register":
                _, t, oid, force, weak = st
                obj = obj_of(t)
                is_cls = isinstance(t, str)
                exp = None
                if oid and not isinstance(oid, str):
                    exp = "TypeError"
                elif is_cls and weak:
                    exp = "TypeError"
                elif not force and model.ids_of(obj) and id(obj) not in model.ambiguous:
                    exp = "DaemonError"
                elif not force and oid and oid in (set(model.ids) | {"Pyro.Daemon", "hub"}):
                    exp = "DaemonError"
                if force and oid in ("Pyro.Daemon", "hub"):
                    continue          # replacing the daemon's own object or the harness hub on request is not exercised
                try:
                    uri = d.register(obj, oid, force=force, weak=weak)
                    got = None
                except Exception as x:
                    got = type(x).__name__
                if exp is None and got is not None and id(obj) in model.ambiguous:
                    continue
                if exp == "DaemonError":
                    if got is None:
                        # undo, so that the rest of the history stays meaningful, then report
                        return fail("duplicate-registration-accepted:" + ("weak-object" if any(model.ids[i]["weak"] for i in model.ids_of(obj)) else ("object" if model.ids_of(obj) else "id")),
                                    "a second registration (%s) was accepted without force; registered before: %r" % (
                                        "same object under ids %r" % model.ids_of(obj) if model.ids_of(obj) else "id %r already taken" % oid, sorted(model.ids)), step)
                    rec.count("duplicates_refused")
                    continue
                if exp == "TypeError":
                    if got is None:
                        return fail("invalid-registration-accepted", "register(id=%r, weak=%r, class=%r) was accepted" % (oid, weak, is_cls), step)
                    continue
                if got is not None:
                    return fail("valid-registration-refused", "register(id=%r, force=%r, weak=%r) raised %s; registered: %r" % (oid, force, weak, got, sorted(model.ids)), step)
                eff = uri.object
                if oid and eff != oid:
                    return fail("registered-under-other-id", "asked for id %r, uri says %r" % (oid, eff), step)
                if not oid and (eff in model.ids or eff in ("Pyro.Daemon", "hub")) and (eff not in model.ids or deref(model.ids[eff]) is not obj):
                    # a registration that names no id gets a generated one: it can never land on an id somebody else holds
                    return fail("registration-without-id-took-over-id", "register(<object>, no id, force=%r, weak=%r) was given the id %r, which is held by another registration (registered: %r)" % (
                        force, weak, eff, sorted(model.ids)), step)
                if not oid:
                    gen_ids.append(eff)
                displaced = deref(model.ids[eff]) if eff in model.ids else None
                if displaced is obj:
                    displaced = None
                if displaced is not None:
                    # displaced by a forced registration: if that was the id stored on it, it keeps a stale id attribute (undefined from here
                    # on); if it was an older alias, the object simply has one registration less
                    model.note_double(displaced)
                import weakref as _wr
                model.ids[eff] = {"obj": _wr.ref(obj) if weak else obj, "weak": weak}
                model.last[id(obj)] = eff
                if len(model.ids_of(obj)) > 1:
                    model.note_double(obj)
                else:
                    model.refresh(obj)
                if displaced is not None:
                    model.refresh(displaced)
                displaced = None
            elif kind == "old_register":
                old = P.server.Daemon(host="127.0.0.1", port=0)
                fx.old_daemons.append(old)
                old.register(obj_of(st[1]), st[2])
                rec.count("handover_histories")
            elif kind == "old_close":
                while fx.old_daemons:
                    old = fx.old_daemons.pop()
                    if st[1] == "close":
                        old.close()
                    elif st[1] == "shutdown":
                        old.shutdown()
                        old.close()
                    else:
                        with old:
                            pass
                old = None
            elif kind == "register_noweak":
                _, oid, force = st
                obj = items.NoWeak(7)
                try:
                    d.register(obj, oid, force=force, weak=True)
                    got = None
                except Exception as x:
                    got = type(x).__name__
                if got is None:
                    return fail("invalid-registration-accepted", "register(<object that cannot be weakly referenced>, %r, force=%r, weak=True) was accepted" % (oid, force), step)
                rec.count("failed_registrations")
                # a registration that failed has no effect: the table is compared below, after every step
            elif kind == "unregister_obj":
                obj = obj_of(st[1])
                ids_before = model.ids_of(obj)
                stale = vars(obj).get("_pyroId")
                if stale is not None and stale not in ids_before and stale in model.ids:
                    # the object still carries the id it was unregistered *by id* from, and that id now belongs to another object
                    return fail("unregistered-by-id-object-keeps-pyro-attributes", "unregister(object) would remove id %r, which this object lost earlier (unregister by id) and which now belongs to another object" % stale, step)
                try:
                    d.unregister(obj)
                except Exception as x:
                    if ids_before and id(obj) not in model.ambiguous:
                        return fail("unregister-raises", "unregister(object registered as %r) raised %r" % (ids_before, x), step)
                if id(obj) in model.ambiguous:
                    # forcibly registered under two ids: which registration unregister(object) removes is not defined; follow the daemon
                    for i in ids_before:
                        cur = d.objectsById.get(i)
                        cur = cur() if type(cur).__name__ in ("ReferenceType", "weakref") else cur
                        if cur is not obj:
                            model.ids.pop(i, None)
                elif ids_before:
                    victim = model.last.get(id(obj)) if model.last.get(id(obj)) in ids_before else ids_before[-1]
                    if victim in ("Pyro.Daemon",):
                        continue
                    model.ids.pop(victim, None)
            elif kind == "sibling":
                d2 = fx.sibling.daemon
                if st[1] == "unreg":
                    if fx.sibling_objs:
                        d2.unregister(fx.sibling_objs.pop())
                else:
                    o2 = (items.Item if st[1] == "reg-item" else items.Other)("sib%d" % step)
                    d2.register(o2)
                    fx.sibling_objs.append(o2)
                    o2 = None
                rec.count("sibling_daemon_steps")
            elif kind == "unregister_daemon_obj":
                # the daemon's own object, handed to unregister as an OBJECT (by id is a separate step): ignored or refused, never removed
                dobj = d.objectsById.get("Pyro.Daemon")
                try:
                    d.unregister(dobj)
                except Exception:
                    pass
                now = d.objectsById.get("Pyro.Daemon")
                if now is None or now is not dobj or getattr(dobj, "_pyroId", None) != "Pyro.Daemon":
                    return fail("daemon-object-unregistered", "unregister(<the daemon's own object>) removed or damaged it: registry now holds %r under 'Pyro.Daemon', "
                                "its _pyroId is %r" % (now, getattr(dobj, "_pyroId", None)), step)
                rec.count("daemon_object_kept")
            elif kind == "unregister_id":
                oid = st[1]
                if oid == "@gen":
                    if not gen_ids:
                        continue
                    oid = gen_ids[-1]
                if oid == "hub":
                    continue      # the harness' own hub object stays
                try:
                    d.unregister(oid)
                    got = None
                except Exception as x:
                    got = type(x).__name__
                if oid is None:
                    if got != "ValueError":
                        return fail("unregister-none-accepted", "unregister(None) -> %r" % got, step)
                    continue
                if got is not None:
                    return fail("unregister-raises", "unregister(%r) raised %s" % (oid, got), step)
                if oid not in ("Pyro.Daemon", "hub"):
                    e = model.ids.pop(oid, None)
                    cur = deref(e) if e is not None else None
                    if cur is not None:
                        model.refresh(cur)       # lost an older alias only: an ordinary registered object again
                    e = cur = None
            elif kind == "urifor":
                x = st[1]
                if isinstance(x, (int,)) or x in ("A", "B"):
                    obj = obj_of(x)
                    if id(obj) in model.ambiguous:
                        continue
                    ids = model.ids_of(obj)
                    try:
                        u = d.uriFor(obj)
                        if not ids and "_pyroId" in vars(obj):
                            return fail("unregistered-by-id-object-keeps-pyro-attributes", "uriFor(object unregistered by id) still answers with its stale id: %s" % u, step)
                        if not ids:
                            return fail("urifor-unregistered-object", "uriFor(unregistered object) returned %s" % u, step)
                        if u.object not in ids:
                            return fail("urifor-wrong-id", "uriFor(object registered as %r) -> %s" % (ids, u), step)
                    except P.errors.DaemonError:
                        if ids:
                            return fail("urifor-refuses-registered-object", "uriFor(object registered as %r) raised DaemonError" % ids, step)
                else:
                    u = d.uriFor(x)
                    if u.object != x:
                        return fail("urifor-wrong-id", "uriFor(%r) -> %s" % (x, u), step)
            elif kind == "proxyfor":
                x = st[1]
                if x == "@gen":
                    if not gen_ids:
                        continue
                    x = gen_ids[-1]
                if isinstance(x, int) or x in ("A", "B"):
                    obj = obj_of(x)
                    if id(obj) in model.ambiguous:
                        continue
                    ids = model.ids_of(obj)
                    arg = obj
                else:
                    ids = [x] if x in model.ids else []
                    arg = x
                try:
                    p = d.proxyFor(arg)
                    ok = True
                    puri = p._pyroUri
                    p._pyroRelease()
                except P.errors.DaemonError:
                    ok = False
                if ok and not ids and arg is not None and not isinstance(arg, str) and "_pyroId" in vars(arg):
                    return fail("unregistered-by-id-object-keeps-pyro-attributes", "proxyFor(object unregistered by id) still answers with its stale id: %s" % puri, step)
                if ok and not ids:
                    return fail("proxyfor-unregistered", "proxyFor(%r) succeeded for something that is not registered" % (x,), step)
                if not ok and ids:
                    return fail("proxyfor-refuses-registered", "proxyFor(%r) raised DaemonError although registered as %r" % (x, ids), step)
                if ok and puri.object not in ids:
                    return fail("proxyfor-wrong-id", "proxyFor(%r) -> %s, registered ids %r" % (x, puri, ids), step)
            elif kind == "call":
                oid = st[1]
                if oid == "@gen":
                    if not gen_ids:
                        continue
                    oid = gen_ids[r_pick(len(gen_ids), step)]
                del items.CALLS[:]
                m = raw.invoke(oid, "who", (), {}, ser)
                val = ser.loads(m.data)
                e = model.ids.get(oid)
                if e is None:
                    if not (m.flags & wire.F_EXC) or items.CALLS:
                        return fail("call-to-unknown-id-served", "id %r is not registered, yet the call returned %r (log %r)" % (oid, val, items.CALLS), step)
                    rec.count("unknown_id_refused")
                else:
                    obj = deref(e)
                    want = ("class:" + obj.__name__) if isinstance(obj, type) else obj.serial
                    if (m.flags & wire.F_EXC) or val != want:
                        return fail("call-reaches-wrong-object", "call to id %r returned %r; the object registered there has serial %r (log %r)" % (oid, val, want, items.CALLS), step)
                    rec.count("calls_dispatched")
            elif kind == "give":
                _, k, sername, nested = st
                if k == "@reg":
                    cands = [j for j in range(len(pool)) if len(model.ids_of(pool[j])) == 1 and id(pool[j]) not in model.ambiguous]
                    k = cands[step % len(cands)] if cands else step % len(pool)
                if sername == "marshal":
                    nested = False      # marshal converts only the top-level object; a nested ordinary object cannot be marshalled either
                obj = pool[k]
                ids = model.ids_of(obj)
                if len(ids) > 1 or id(obj) in model.ambiguous:
                    continue        # forcibly registered under two ids: auto-proxy behaviour is not defined by the statement
                del items.CALLS[:]
                with fx.proxy("hub", serializer=sername, timeout=10.0) as hub:
                    try:
                        res = hub.give_nested(k)[0] if nested else hub.give(k)
                    except Exception as x:
                        if not ids:
                            return fail(classify_byvalue_failure(obj, x), "an object that is not registered (any more) was returned from a remote method and the call failed with %r instead of delivering it by value" % (x,), step)
                        return fail("returning-registered-object-fails", "returning the object registered as %r failed: %r" % (ids, x), step)
                    if isinstance(res, P.client.Proxy):
                        if not ids:
                            res._pyroRelease()
                            if "_pyroId" in vars(obj):
                                return fail("unregistered-by-id-object-keeps-pyro-attributes", "object was unregistered by id but still carries _pyroId=%r (now someone else's id): it arrived as proxy %s" % (vars(obj)["_pyroId"], res._pyroUri), step)
                            return fail("unregistered-object-arrives-as-proxy", "object is not registered, yet arrived as proxy %s" % res._pyroUri, step)
                        try:
                            who = res.who()
                        except Exception as x:
                            return fail("auto-proxy-unusable", "proxy %s for the returned object failed: %r" % (res._pyroUri, x), step)
                        finally:
                            res._pyroRelease()
                        if who != obj.serial or res._pyroUri.object not in ids:
                            return fail("auto-proxy-reaches-other-object", "returned object (serial %d, ids %r) arrived as proxy %s whose calls reach serial %r" % (obj.serial, ids, res._pyroUri, who), step)
                        rec.count("returned_as_proxy")
                    else:
                        if ids and sername in AUTO:
                            return fail(classify_not_proxied(obj), "object registered as %r was returned through %s and arrived by value (%s) instead of as a proxy" % (ids, sername, core.short(res, 120)), step)
                        if not (isinstance(res, dict) and res.get("serial") == obj.serial):
                            return fail("by-value-copy-wrong", "expected a copy of serial %d, got %s" % (obj.serial, core.short(res, 150)), step)
                        rec.count("returned_by_value")
            elif kind == "del":
                k = st[1]
                obj = pool[k]
                ids = model.ids_of(obj)
                weak_ids = [i for i in ids if model.ids[i]["weak"]]
                strong = [i for i in ids if not model.ids[i]["weak"]]
                pool[k] = type(obj)("re%d" % step)
                del obj
                gc.collect()
                if weak_ids and not strong:
                    for i in weak_ids:
                        model.ids.pop(i, None)
                    rec.count("weak_collected")
            elif kind == "listing":
                m = raw.invoke("Pyro.Daemon", "registered", (), {}, ser)
                got = set(ser.loads(m.data))
                want = set(model.ids) | {"Pyro.Daemon", "hub"}
                if got != want:
                    return fail(classify_listing(got, want, model), "daemon reports ids %r, registered per model %r (difference %r)" % (sorted(got), sorted(want), sorted(got ^ want)), step)
                rec.count("registered_listing_ok")
            # a weakly registered object can also die because this step took away its last strong holder (e.g. a forced registration displaced
            # its one strong registration): the daemon's finalizer forgets the id, and so does the model
            obj = arg = e = cur = res = p = u = displaced = None
            for i, ent in list(model.ids.items()):
                if ent["weak"] and ent["obj"]() is None:
                    gc.collect()
                    model.ids.pop(i, None)
                    rec.count("weak_collected")
            ent = None
            # cheap invariant after every step: the id -> object table
            for i in list(model.ids):
                if d.objectsById.get(i) is None:
                    return fail(classify_missing(i, None, hist, step), "id %r should be registered but the daemon does not know it" % i, step)
                cur, e = d.objectsById.get(i), deref(model.ids[i])
                if isinstance(cur, weakref.ref):
                    cur = cur()
                if cur is not None and e is not None and cur is not e:
                    cur = e = None
                    return fail("id-maps-to-other-object", "the daemon's table holds another object under id %r than the one registered last under it" % i, step)
                cur = e = None
            rec.count("steps_ok")
        return True
    finally:
        raw.close()
        while getattr(fx, "old_daemons", None):
            try:
                fx.old_daemons.pop().close()
            except Exception:
                pass
        # leave the daemon clean for the next history
        for i in list(d.objectsById):
            if i not in ("Pyro.Daemon", "hub"):
                try:
                    d.unregister(i)
                except Exception:
                    pass
        for k in range(len(pool)):
            o = pool[k]
            for a in ("_pyroId", "_pyroDaemon"):
                if a in vars(o):
                    delattr(o, a)
        for c in (items.KlassA, items.KlassB):
            for a in ("_pyroId", "_pyroDaemon"):
                if a in vars(c):
                    delattr(c, a)
        gc.collect()


def r_pick(n, step):
    return (step * 7919) % n


def pool_hub(fx):
    return fx.daemon.objectsById.get("hub")


def classify_byvalue_failure(obj, x):
    if type(x).__name__ == "DaemonError" and "_pyroId" in vars(obj):
        return "unregistered-by-id-object-keeps-pyro-attributes"
    return "unregistered-object-cannot-travel-by-value"


def classify_not_proxied(obj):
    if "_pyroDaemon" in vars(obj) and vars(obj)["_pyroDaemon"] is None:
        return "by-value-transfer-severs-registered-object"
    return "registered-object-not-proxied"


def classify_listing(got, want, model):
    return "registered-listing-differs"


def classify_missing(i, e, hist, step):
    if any(s[0] == "del" for s in hist[:step + 1]):
        return "weak-finalizer-unregisters-reused-id"
    return "registered-id-lost"


def combined_phase(P, rec, r, rounds):
    """Daemon.combine(): two daemons share one request loop (multiplex server). Each keeps its own registry: requests that arrive at both at
    the same moment are each answered by the daemon they were sent to - same id, different objects; each daemon lists its own ids."""
    import threading
    one = fixture.Fixture(servertype="multiplex", COMMTIMEOUT=0.0)
    two = fixture.Fixture(servertype="multiplex", COMMTIMEOUT=0.0, start_loop=False)
    gate = threading.Event()
    entered = threading.Event()
    sent = [0]
    sent_lock = threading.Lock()

    def counting(conn):
        orig = conn.send

        def send(data):
            orig(data)
            with sent_lock:
                sent[0] += 1
        conn.send = send

    @P.server.expose
    class Holder(object):
        def hold(self):
            entered.set()
            gate.wait(8)        # parks the (single) loop thread: whatever arrives meanwhile is ready in the same select round afterwards
            return "held"
    try:
        a, b = items.Item("comb-one"), items.Item("comb-two")
        one.register(a, "shared")
        two.register(b, "shared")
        one.register(items.Item("x"), "only-in-one")
        two.register(items.Item("y"), "only-in-two")
        one.register(Holder(), "holder")
        one.daemon.combine(two.daemon)
        want = {1: (a.serial, {"Pyro.Daemon", "shared", "only-in-one", "holder"}), 2: (b.serial, {"Pyro.Daemon", "shared", "only-in-two"})}
        proxies = {1: one.proxy("shared", timeout=10.0), 2: two.proxy("shared", timeout=10.0)}
        dproxies = {1: one.proxy("Pyro.Daemon", timeout=10.0), 2: two.proxy("Pyro.Daemon", timeout=10.0)}
        for k in (1, 2):
            proxies[k]._pyroBind()
            dproxies[k]._pyroBind()
            counting(proxies[k]._pyroConnection)
            counting(dproxies[k]._pyroConnection)
        for rnd in range(rounds):
            pay = {"combined": True, "round": rnd}
            rec.case(("combined", rnd), nontrivial=True)
            gate.clear()
            entered.clear()
            sent[0] = 0
            results = {}
            hp = one.proxy("holder", timeout=10.0)
            ht = threading.Thread(target=lambda: (hp._pyroClaimOwnership(), hp.hold()), daemon=True)      # (a proxy belongs to the thread that uses it)
            ht.start()
            if not entered.wait(8):           # the loop thread is parked inside hold() ...
                rec.inconc("combined daemons: the loop thread could not be parked")
                return

            def call(k, what):
                try:
                    results[(k, what)] = proxies[k].who() if what == "who" else set(dproxies[k].registered())
                except Exception as x:
                    results[(k, what)] = x
            # each proxy belongs to the thread that uses it: hand them over
            ts = []
            for k in (1, 2):
                for what in ("who", "reg"):
                    t = threading.Thread(target=lambda k=k, what=what: ((proxies if what == "who" else dproxies)[k]._pyroClaimOwnership(), call(k, what)), daemon=True)
                    ts.append(t)
                    t.start()
            one.wait_until(lambda: sent[0] >= 4, 8.0)        # ... all four requests are on their way (no guess about how long that takes) ...
            time.sleep(0.02)
            gate.set()                                       # ... and are found ready in one select round
            for t in ts + [ht]:
                t.join(10)
            hp._pyroClaimOwnership()
            hp._pyroRelease()
            for k in (1, 2):
                who, reg = results.get((k, "who")), results.get((k, "reg"))
                if who != want[k][0]:
                    rec.violation("call-reaches-wrong-object", "two combined daemons, requests ready at the same moment: the call to id 'shared' sent to daemon %d returned %r; "
                                  "the object registered there has serial %d (the other daemon's: %d)" % (k, who, want[k][0], want[3 - k][0]), pay)
                    return
                if reg != want[k][1]:
                    rec.violation("listing-differs-from-registry", "two combined daemons: registered() sent to daemon %d returned %r, its registry holds %r" % (
                        k, sorted(reg) if isinstance(reg, set) else reg, sorted(want[k][1])), pay)
                    return
            rec.count("combined_daemon_rounds")
    except Exception as x:
        rec.inconc("combined-daemons phase failed in the harness: %r" % (x,))
    finally:
        gate.set()
        one.stop()
        two.stop()


def converter_churn_phase(P, servertype, rec, r):
    """The daemon's auto-proxy hook shares the serializers' per-type registries with the application: a by-value converter registered for
    a class and taken away again later (SerializerBase.register_class_to_dict / unregister_class_to_dict, both documented) leaves those
    registries without any entry for the type. Every registration the daemon accepts afterwards is a registered object like any other:
    returned from a method it arrives as a proxy that reaches that very object."""
    @P.server.expose
    class Thing(object):
        def __init__(self, n):
            self.n = n

        def hello(self):
            return "thing %d" % self.n

    things = {}

    @P.server.expose
    class Giver(object):
        def give(self, i):
            return things[i]

    fx = fixture.Fixture(servertype=servertype, COMMTIMEOUT=0.0)
    try:
        fx.register(Giver(), "giver")

        def check(i, sername, stage):
            pay = {"churn": True, "servertype": servertype}
            rec.case(("churn", servertype, sername, stage, i), nontrivial=True)
            with fx.proxy("giver", serializer=sername) as g:
                try:
                    res = g.give(i)
                except Exception as x:
                    rec.violation("registered-object-not-proxied", "%s: %s: returning registered object %d raised %r" % (stage, sername, i, x), pay)
                    return False
            if not isinstance(res, P.client.Proxy):
                rec.violation("registered-object-not-proxied", "%s: %s: registered object %d arrives as %s" % (stage, sername, i, core.short(res, 100)), pay)
                return False
            with res:
                res._pyroSerializer = sername
                if res.hello() != "thing %d" % i:
                    rec.violation("proxy-reaches-other-object", "%s: %s: the proxy for object %d answers %r" % (stage, sername, i, res.hello()), pay)
                    return False
            rec.count("returned_as_proxy_after_converter_churn")
            return True
        SB = P.serializers.SerializerBase
        n = 0
        for rounds in range(3):
            things[n] = Thing(n)
            fx.register(things[n], weak=rounds == 1)
            for sername in ("serpent", "json", "msgpack"):          # (marshal has no per-type hook by design: by value only)
                if not all(check(i, sername, "round %d, after registering object %d" % (rounds, n)) for i in things):
                    return
            # the application's by-value converter comes and goes
            SB.register_class_to_dict(Thing, lambda o: {"__class__": "c16.Thing", "n": o.n})
            SB.unregister_class_to_dict(Thing)
            n += 1
    finally:
        try:
            P.serializers.SerializerBase.unregister_class_to_dict(Thing)
        except Exception:
            pass
        fx.stop()


def slotted_phase(P, servertype, rec, r):
    """Registered objects without an instance __dict__ (a class with __slots__ that reserves room for the two attributes the daemon puts
    on a registered object - what the register code itself caters for): registration, unregistration by object and the by-value transfer
    afterwards work as for any other object, and a second unregistration of the same object is refused without touching whoever holds
    the id now."""
    @P.server.expose
    class Slotted(object):
        __slots__ = ("n", "_pyroId", "_pyroDaemon", "__weakref__")

        def __init__(self, n):
            self.n = n

        def hello(self):
            return "slotted %d" % self.n

        def __getstate__(self):
            return {"n": self.n}

    @P.server.expose
    class Plain(object):
        def hello(self):
            return "plain"

    things = {}

    @P.server.expose
    class Giver(object):
        def give(self, i):
            return things[i]

    fx = fixture.Fixture(servertype=servertype, COMMTIMEOUT=0.0)
    pay = {"slotted": True, "servertype": servertype}
    try:
        fx.register(Giver(), "giver")
        for k, how in enumerate(("by-object", "by-id", "by-object")):
            oid = "slot.%d" % k
            obj = things[k] = Slotted(k)
            fx.register(obj, oid, weak=(k == 2))
            for sername in ("serpent", "json", "msgpack"):
                rec.case(("slotted", servertype, sername, k, how), nontrivial=True)
                with fx.proxy("giver", serializer=sername) as g:
                    res = g.give(k)
                    if not isinstance(res, P.client.Proxy):
                        rec.violation("registered-object-not-proxied", "a registered object without __dict__ (slots) arrives as %s under %s" % (core.short(res, 80), sername), pay)
                        return
                    with res:
                        res._pyroSerializer = sername
                        if res.hello() != "slotted %d" % k:
                            rec.violation("proxy-reaches-other-object", "the proxy for slotted object %d answers %r" % (k, res.hello()), pay)
                            return
            fx.daemon.unregister(obj if how == "by-object" else oid)
            for sername in ("serpent", "json", "msgpack"):
                with fx.proxy("giver", serializer=sername) as g:
                    try:
                        res = g.give(k)
                    except Exception as x:
                        res = x
                    by_value = res == {"n": k} or (isinstance(res, P.errors.SerializeError) and "unsupported serialized class" in str(res) and "Slotted" in str(res))
                    # (its state arrives as plain data, or as a class dict that the receiver has no converter for: both are 'by value')
                    if how == "by-object" and not by_value:
                        # (after unregistration by id the object still carries its marks on the pinned tree: only 'by object' is judged here)
                        rec.violation("unregistered-object-not-by-value", "slotted object %d was unregistered %s; returned from a method under %s it arrives as %s, expected its state {'n': %d}" % (
                            k, how, sername, core.short(res, 160), k), pay)
                        return
            if how == "by-object":
                # somebody else takes the id; the old holder is unregistered AGAIN (a cleanup path running twice)
                other = Plain()
                fx.register(other, oid)
                try:
                    fx.daemon.unregister(obj)
                    refused = False
                except P.errors.DaemonError:
                    refused = True
                with fx.proxy(oid) as q:
                    try:
                        ans = q.hello()
                    except Exception as x:
                        ans = repr(x)
                listed = oid in fx.daemon.objectsById
                if ans != "plain" or not listed:
                    rec.violation("unregister-removed-other-object", "object %r was unregistered twice; the second time (refused: %s) the id belonged to another object, which now answers %r (listed: %s)" % (
                        oid, refused, ans, listed), pay)
                    return
                fx.daemon.unregister(other)
            rec.count("slotted_objects_ok")
    finally:
        fx.stop()


def plan(tier, seed):
    n = 8 if tier == "quick" else 16
    return [{"i": i, "servertype": "thread" if i % 2 == 0 else "multiplex", "histories": 200 if tier == "quick" else 1500} for i in range(n)]


def run_shard(shard, rec):
    P = fixture.pyro()
    r = gen.rng(rec.seed, "c16", shard["i"])
    fx, pool = setup_env(P, shard["servertype"], fixture.variant_for(rec.seed, "c16", repr(sorted(shard.items()))))
    rec.count("fixture_variant:" + fx.variant)
    try:
        for h in range(shard["histories"]):
            if rec.should_stop(10):
                break
            hist = gen_history(r, r.randrange(8, 18))
            run_history(fx, pool, hist, rec, "%d-%d" % (shard["i"], h))
        for kind, text in fixture.take_faults():
            if kind == "thread-exception":
                rec.violation("server-thread-fault", text, None)
    finally:
        fx.sibling.stop()
        fx.stop()
    if shard["i"] < 2:
        converter_churn_phase(P, shard["servertype"], rec, r)
        slotted_phase(P, shard["servertype"], rec, r)
    if shard["servertype"] == "multiplex":
        combined_phase(P, rec, r, 4 if rec.tier == "quick" else 40)
    else:
        rec.count("combined_daemon_rounds", 0)


def replay(payload, rec):
    P = fixture.pyro()
    if payload.get("slotted"):
        slotted_phase(P, payload.get("servertype", "thread"), rec, gen.rng(rec.seed, "replay"))
        return
    if payload.get("churn"):
        converter_churn_phase(P, payload.get("servertype", "thread"), rec, gen.rng(rec.seed, "replay"))
        return
    if payload.get("combined"):
        combined_phase(P, rec, gen.rng(rec.seed, "replay"), 10)
        return
    fx, pool = setup_env(P, payload.get("servertype", "thread"))
    try:
        for i, s in enumerate(payload["history"]):
            print(i, s)
        run_history(fx, pool, payload["history"], rec, "replay")
    finally:
        fx.sibling.stop()
        fx.stop()
