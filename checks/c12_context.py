"""C12 - per-call context never leaks between calls or clients.

Every request carries a unique token in its request annotation TOKN and in its correlation id; methods record the
context they see and set the response annotation RESP=<token> (both idioms: rebinding and in-place update); clients and
a raw client (for PING / CONNECT replies) record the annotations of every reply."""
import threading
import time
import uuid

from vlib import core, gen, fixture, wire, yieldinj

PROPERTY = "C12"
LEVEL = "exploration"
RULE = ("histories of 2-6 clients (threads, one proxy each, reconnecting now and then) issuing returning / raising / oneway / batch / property get / "
        "property set calls, raw PINGs and fresh raw handshakes in seeded interleavings; methods set RESP in both idioms; multiplex server and "
        "thread pool with THREADPOOL_SIZE_MIN=1 (workers reused by successive connections); a sequential phase forces worker reuse after a "
        "raising call. distinct = (history hash, server, serializer); one evaluation = one request; non-trivial = the request reached a method")
ASSUMPTIONS = ["oneway completions are awaited (10 s watchdog, expiry = inconclusive)", "peer address compared with the client's getsockname() (TCP loopback)"]
REQUIRED_REACH = ["oneway_batch_calls", "nested_call_replies_clean", "stream_items_context_checked", "injected_yields", "snapshots_checked", "replies_checked", "raising_calls", "oneway_calls", "batch_calls", "ping_replies", "handshake_replies", "worker_reuse_handshakes", "idless_requests", "reply_correlation_ids_checked", "refused_handshake_replies", "bare_requests", "handshake_tokens_checked"]
SHARD_TIMEOUT = {"quick": 480, "thorough": 2800}
OPS = ["ret", "noresp", "noresp", "rais", "rais", "ow", "batch", "batch_rais", "batch_ow", "propget", "propset", "ping", "handshake", "reconnect", "propget_rais", "badhandshake", "bare", "bare", "barepoll", "ow_rst"]
# "ow_rst": a oneway call whose connection the client resets right after sending (the request may or may not get served)
# "bare": a request that carries no annotation at all; "barepoll": the same, to a method that writes into its own request-annotation dict


class ServerLog:
    def __init__(self):
        self.lock = threading.Lock()
        self.snap = {}
        self.done = {}
        self.raw_sem = threading.Semaphore(1)      # one raw (ping/handshake) connection at a time: bounds the worker demand on the pool
        self.nclients = 1
        self.sent_corr = {}        # correlation id (bytes) a client sent -> token of that request
        self.generated = {}        # correlation id a method saw while serving an id-less request -> token

    def sent(self, corr, token):
        with self.lock:
            self.sent_corr[corr.bytes] = token

    def foreign_corr(self, corr_bytes, token):
        """the token of a DIFFERENT request that this correlation id belongs to (sent by it, or generated for it), else None"""
        with self.lock:
            t = self.sent_corr.get(corr_bytes)
            if t is not None and t != token:
                return t
            t = self.generated.setdefault(corr_bytes, token)
            return t if t != token else None

    def record(self, token, snap):
        with self.lock:
            self.snap.setdefault(token, []).append(snap)

    def event(self, token):
        with self.lock:
            return self.done.setdefault(token, threading.Event())


def make_env(P, servertype, pool, variant=None):
    slog = ServerLog()
    ctx = P.callcontext.current_context

    def snapshot(token, idiom):
        ann = {k: bytes(v) for k, v in (ctx.annotations or {}).items()}
        s = {"serial": getattr(ctx.client, "_vserial", None), "addr": ctx.client_sock_addr, "TOKN": ann.get("TOKN"), "corr": ctx.correlation_id, "ann_keys": sorted(ann),
             "seq": ctx.seq, "flags": ctx.msg_flags, "ser": ctx.serializer_id, "pre_resp": dict(ctx.response_annotations)}
        slog.record(token, s)
        if idiom is None:
            pass
        elif idiom == "rebind":
            ctx.response_annotations = {"RESP": token.encode()}
        else:
            ctx.response_annotations["RESP"] = token.encode()

    @P.server.expose
    class Svc(object):
        def whoami(self):
            return ctx.client._vserial

        def ret(self, token, idiom):
            snapshot(token, idiom)
            slog.event(token).set()      # (a member of a oneway batch: completion is observed here)
            return token

        def poll(self, token, idiom):
            snapshot(token, idiom)
            ctx.annotations["POLL"] = token.encode()      # a method may scribble in the annotation dict of ITS OWN request (Pyro's blob forwarding does)
            return token

        def noresp(self, token, idiom):
            snapshot(token, None)        # sets no response annotation: its reply must carry none
            return token

        def rais(self, token, idiom):
            snapshot(token, idiom)
            raise ValueError(token)

        @P.server.oneway
        def ow(self, token, idiom):
            # long enough for the caller's next request to arrive on the same connection meanwhile (Nagle + delayed ACK: ~40 ms)
            time.sleep(0.06 if hash(token) % 3 == 0 else 0.002)
            snapshot(token, idiom)
            slog.event(token).set()

        def items(self, n):
            # a streamed result: the body of this generator runs piece by piece, each piece while the request that fetches the next item is
            # being served - the context it reads is that of THAT request
            for k in range(n):
                ann = {kk: bytes(v) for kk, v in (ctx.annotations or {}).items()}
                yield [k, getattr(ctx.client, "_vserial", None), list(ctx.client_sock_addr) if ctx.client_sock_addr else None, (ann.get("TOKN") or b"").decode(), str(ctx.correlation_id), ctx.seq]

        @property
        def prop(self):
            tok = bytes((ctx.annotations or {}).get("TOKN", b"")).decode()
            snapshot(tok, "rebind" if hash(tok) % 2 else "inplace")
            if tok.endswith("!"):
                raise KeyError(tok)
            return tok

        @prop.setter
        def prop(self, v):
            snapshot(v[0], v[1])

    fx = fixture.Fixture(servertype=servertype, COMMTIMEOUT=0.0, THREADPOOL_SIZE=pool, THREADPOOL_SIZE_MIN=1, variant=variant)
    fx.register(Svc(), "svc")
    # daemon-wide annotations from a long-lived dict of the application (the documented Daemon.annotations() override point)
    fx.daemon.reply_annotations = {"DMON": b"static"}

    # the application's handshake validator hands every new connection a token through the response annotations of the handshake answer
    def issue_token(conn, data):
        ctx.response_annotations = dict(ctx.response_annotations, HSHK=b"token-of-connection-%d" % conn._vserial)
        return "hello"
    fx.daemon.hs_validator = issue_token
    return fx, slog


class Client(threading.Thread):
    def __init__(self, fx, slog, cid, ops, sername, barrier):
        super().__init__(name="client-%d" % cid, daemon=True)
        self.fx, self.slog, self.cid, self.ops, self.sername, self.barrier = fx, slog, cid, ops, sername, barrier
        self.records = []      # dicts
        self.error = None

    def run(self):
        P = self.fx.P
        ctx = P.callcontext.current_context
        ser = P.serializers.serializers[self.sername]
        try:
            p = self.fx.proxy("svc", serializer=self.sername, timeout=10.0)
            p._pyroBind()
            serial = p.whoami()
            self.barrier.wait(10)
            n = 0
            pending_ow = []
            for step in self.ops:
                op, idiom = step[0], step[1]
                has_corr = step[2] if len(step) > 2 else True
                n += 1
                token = "c%d-%d-%s" % (self.cid, n, uuid.uuid4().hex)
                if op == "propget_rais":
                    token += "!"
                corr = uuid.uuid4() if has_corr else None     # id-less requests: the server must generate a fresh id, never reuse a foreign one
                rec = {"op": op, "token": token, "idiom": idiom, "corr": corr, "serial": serial, "resp": None, "outcome": None, "kind": "proxy"}
                if corr is not None:
                    self.slog.sent(corr, token)
                if op in ("ping", "handshake", "badhandshake"):
                    rec["kind"] = op
                    # a raw connection needs a free worker on the thread-pool server. Worker demand is bounded by construction: at most one raw
                    # connection at a time, started only when no earlier raw connection's worker is still busy, so that
                    # live <= 2*clients (each proxy may be reconnecting, its old worker not yet back) + 1 <= pool size
                    with self.slog.raw_sem:
                        self.fx.wait_until(lambda: self.fx.live_connection_count() <= self.slog.nclients or self.fx.servertype != "thread", 5.0)
                        try:
                            c = wire.RawClient(self.fx.location, timeout=10.0)
                            if op == "badhandshake":
                                # a first message the daemon refuses before it has parsed anything of it (wrong type / unknown serializer / junk payload):
                                # the refusal is a handshake answer too and must not carry a method's annotations
                                variant = n % 3
                                body = ser.dumps({"handshake": "hello", "object": "svc"})
                                if variant == 0:
                                    c.send(wire.encode(wire.INVOKE, 0, 0, ser.serializer_id, body))
                                elif variant == 1:
                                    c.send(wire.encode(wire.CONNECT, 0, 0, 99, body))
                                else:
                                    c.send(wire.encode(wire.CONNECT, 0, 0, ser.serializer_id, b"\xff\xfe not a handshake"))
                                m = c.recv_msg()
                                rec.update(kind="handshake", resp=dict(m.anns), outcome=m.type, bad=True)
                                c.close()
                                self.records.append(rec)
                                continue
                            m = c.handshake("svc", ser, anns=[(b"TOKN", token.encode())], corr=corr.bytes if corr else None)
                            rec["reply_corr"] = [(m.flags & wire.F_CORR, m.corr)]
                            if m.type != wire.CONNECTOK:
                                rec.update(resp=dict(m.anns), outcome="refused")     # e.g. no free worker: still a reply whose annotations count
                            elif op == "handshake":
                                rec.update(kind="handshake", resp=dict(m.anns), outcome=m.type)
                            else:
                                m2 = c.ping(seq=5)
                                rec.update(kind="ping", resp=dict(m2.anns), outcome=m2.type, resp_hs=dict(m.anns))
                                rec["reply_corr"].append((m2.flags & wire.F_CORR, m2.corr))
                            c.close()
                        except Exception as x:
                            rec.update(outcome="error:%r" % (x,))
                    self.records.append(rec)
                    continue
                if op == "reconnect":
                    p._pyroRelease()
                    p._pyroBind()
                    # (the client-side context is only defined "after each call"; the handshake reply itself is observed by the raw 'handshake' op)
                    rec.update(kind="reconnect", resp=None, outcome="rebind")
                    serial = p.whoami()
                    self.records.append(rec)
                    continue
                ctx.annotations = {"TOKN": token.encode()} if op not in ("bare", "barepoll") else {}
                ctx.correlation_id = corr
                try:
                    if op == "bare":
                        out = p.ret(token, idiom)
                    elif op == "barepoll":
                        out = p.poll(token, idiom)
                    elif op == "ret":
                        out = p.ret(token, idiom)
                    elif op == "noresp":
                        out = p.noresp(token, idiom)
                    elif op == "rais":
                        out = p.rais(token, idiom)
                    elif op == "ow":
                        out = p.ow(token, idiom)
                    elif op == "ow_rst":
                        out = p.ow(token, idiom)
                        rec["local"] = p._pyroLocalSocket
                        rec["seq"] = p._pyroSeq
                        import socket as _s
                        import struct as _st
                        p._pyroConnection.sock.setsockopt(_s.SOL_SOCKET, _s.SO_LINGER, _st.pack("ii", 1, 0))
                        p._pyroRelease()
                        p._pyroBind()
                        rec["resp"] = {}
                        rec["after_serial"] = p.whoami()
                    elif op in ("batch", "batch_rais"):
                        b = P.client.BatchProxy(p)
                        b.ret(token, idiom)
                        if op == "batch_rais":
                            b.rais(token + "/2", idiom)
                        out = list(b())
                    elif op == "batch_ow":
                        # two features at once: a batch, submitted oneway
                        b = P.client.BatchProxy(p)
                        b.ret(token, idiom)
                        out = b(oneway=True)
                    elif op in ("propget", "propget_rais"):
                        out = p.prop
                    elif op == "propset":
                        p.prop = [token, idiom]
                        out = None
                    rec["outcome"] = ("ok", out)
                except Exception as x:
                    rec["outcome"] = ("exc", type(x).__name__, str(x)[:80])
                if op == "ow_rst":
                    rec["serial"] = serial
                    serial = rec.pop("after_serial", serial)
                    self.records.append(rec)
                    pending_ow.append((token, rec))
                    continue
                rec["resp"] = {k: bytes(v) for k, v in dict(ctx.response_annotations).items()}
                rec["seq"] = p._pyroSeq
                rec["local"] = p._pyroLocalSocket
                rec["serial"] = serial
                self.records.append(rec)
                if op in ("ow", "batch_ow"):
                    # the client moves on at once (the oneway method is still running while later requests arrive on the same connection);
                    # completions are collected at the end of the history
                    pending_ow.append((token, rec))
            for token, rec in pending_ow:
                if not self.slog.event(token).wait(10 if rec["op"] in ("ow", "batch_ow") else 1.0):
                    rec["ow_timeout"] = True
            p._pyroRelease()
        except Exception as x:
            self.error = x


def check_history(fx, slog, clients, rec, pay):
    P = fx.P
    F = P.protocol
    for cl in clients:
        if cl.error is not None:
            rec.inconc("client thread failed in the harness: %r" % (cl.error,))
            continue
        for r in cl.records:
            token = r["token"]
            rec.count("replies_checked")
            resp = r.get("resp") or {}
            got = resp.get("RESP")
            if got is not None:
                got = bytes(got)
            # (b)/(c): a reply carries RESP only if it answers the very call that set it
            if r["kind"] == "reconnect":
                continue
            # the token the handshake validator issues belongs to the answer of that very handshake: no other reply carries one, and no two
            # handshake answers carry the same
            hs_tok = resp.get("HSHK")
            if r["kind"] == "handshake" and not r.get("bad") and r.get("outcome") == wire.CONNECTOK:
                seen_hs = getattr(slog, "hs_tokens", None)
                if seen_hs is None:
                    seen_hs = slog.hs_tokens = {}
                if hs_tok is not None:
                    hs_tok = bytes(hs_tok)
                    if seen_hs.setdefault(hs_tok, token) != token:
                        rec.violation("handshake-annotation-of-other-connection", "the handshake answer to client %d carries %r, the token issued to another connection" % (cl.cid, hs_tok), pay)
                        return False
                    rec.count("handshake_tokens_checked")
            elif hs_tok is not None:
                rec.violation("handshake-annotation-leaks-to-%s-reply" % ("refused-handshake" if r.get("bad") else r["kind"]), "client %d op %s: the reply carries HSHK=%r, which a handshake "
                              "validator set for the answer to some connection's handshake" % (cl.cid, r["op"], bytes(hs_tok)), pay)
                return False
            if r["kind"] == "badhandshake":
                rec.count("refused_without_reply")       # (unknown serializer id: the daemon just closes) nothing was sent, nothing can leak
                continue
            if r["kind"] in ("ping", "handshake"):
                rec.count("ping_replies" if r["kind"] == "ping" else "refused_handshake_replies" if r.get("bad") else "handshake_replies")
                for i, (flag, cb) in enumerate(r.get("reply_corr") or []):
                    which = "handshake reply" if i == 0 else "ping reply"
                    rec.count("reply_correlation_ids_checked")
                    if i == 0 and r["corr"] is not None:
                        if cb != r["corr"].bytes:
                            rec.violation("reply-carries-foreign-correlation-id", "%s of client %d carries correlation id %s, the request's is %s" % (
                                which, cl.cid, cb.hex(), r["corr"].hex), pay)
                            return False
                    elif cb != b"\0" * 16:
                        # a request without an id (the raw PING, an id-less handshake): the reply may carry a freshly generated id, never another request's
                        other = slog.foreign_corr(cb, token + "#%d" % i)
                        if other is not None:
                            rec.violation("reply-carries-foreign-correlation-id", "%s of client %d to a request that carried no correlation id carries %s, "
                                          "the id of request %s" % (which, cl.cid, cb.hex(), other), pay)
                            return False
                for label, anns in (("reply", resp), ("handshake reply", r.get("resp_hs") or {})):
                    if anns.get("RESP") is not None:
                        rec.violation("response-annotation-leaks-to-%s-reply" % r["kind"], "%s of client %d (%s) carries RESP=%r, set by a method call of another request" % (
                            label, cl.cid, r["kind"], bytes(anns["RESP"])), pay)
                        return False
                continue
            if got is not None and r["op"] == "noresp":
                rec.violation("response-annotation-of-other-call", "client %d: the reply to a call that set no annotation carries RESP=%r (another call's)" % (cl.cid, got), pay)
                return False
            if got is not None and got.decode() != token and not (r["op"] == "batch_rais" and got.decode() == token + "/2"):
                rec.violation("response-annotation-of-other-call", "client %d op %s token %s received RESP=%r (a different call's annotation)" % (cl.cid, r["op"], token, got), pay)
                return False
            if r["op"] in ("ow", "ow_rst", "batch_ow") and resp:
                rec.violation("oneway-call-consumed-annotations", "oneway call left response annotations %r at the client" % (resp,), pay)
                return False
            if r.get("ow_timeout"):
                if r["op"] == "ow_rst":
                    rec.count("reset_oneway_requests_lost")       # the reset overtook the request: nothing ran, nothing to judge
                    continue
                rec.inconc("oneway completion not observed within the watchdog")
                continue
            # (a) the context the method saw
            toks = [token] + ([token + "/2"] if r["op"] == "batch_rais" else [])
            for tk in toks:
                snaps = slog.snap.get(tk, [])
                if r["outcome"] and r["outcome"][0] == "exc" and r["outcome"][1] not in ("ValueError", "KeyError"):
                    rec.inconc("call failed unexpectedly: %r" % (r["outcome"],))
                    continue
                if len(snaps) != 1:
                    rec.violation("method-ran-wrong-number-of-times", "client %d op %s token %s recorded %d context snapshots: %r" % (cl.cid, r["op"], tk, len(snaps), snaps), pay)
                    return False
                s = snaps[0]
                exp_flags = (F.FLAGS_CORR_ID if r["corr"] is not None else 0) | (F.FLAGS_ONEWAY if r["op"] in ("ow", "ow_rst", "batch_ow") else 0) | (F.FLAGS_BATCH if r["op"].startswith("batch") else 0)
                local = r.get("local")
                problems = []
                if r["op"] in ("bare", "barepoll"):
                    rec.count("bare_requests")
                    if s["ann_keys"]:
                        problems.append("request annotations %r although the request carried none" % (s["ann_keys"],))
                elif s["TOKN"] != token.encode():
                    problems.append("request annotation TOKN=%r (sent %r)" % (s["TOKN"], token))
                if r["corr"] is None:
                    rec.count("idless_requests")
                    other = slog.foreign_corr(s["corr"].bytes, token) if isinstance(s["corr"], uuid.UUID) else "<none at all>"
                    if other is not None:
                        problems.append("correlation id %s although the request carried none: that id belongs to request %s" % (s["corr"], other))
                elif s["corr"] != r["corr"]:
                    problems.append("correlation id %s (sent %s)" % (s["corr"], r["corr"]))
                if s["seq"] != r.get("seq"):
                    problems.append("seq %r (sent %r)" % (s["seq"], r.get("seq")))
                if s["flags"] != exp_flags:
                    problems.append("flags %r (sent %r)" % (s["flags"], exp_flags))
                if s["ser"] != P.serializers.serializers[cl.sername].serializer_id:
                    problems.append("serializer id %r" % s["ser"])
                if s["serial"] != r["serial"]:
                    problems.append("connection #%r (the caller's connection is #%r)" % (s["serial"], r["serial"]))
                if local is not None and s["addr"] is not None and tuple(s["addr"][:2]) != tuple(local[:2]):
                    problems.append("peer address %r (the caller is %r)" % (s["addr"], local))
                if problems:
                    rec.violation("method-saw-foreign-context",
                                  "client %d op %s token %s: method saw %s" % (cl.cid, r["op"], tk, "; ".join(problems)), pay)
                    return False
                rec.count("snapshots_checked")
            if r["op"] == "ow_rst":
                rec.count("reset_oneway_requests_served")
            rec.count({"rais": "raising_calls", "ow": "oneway_calls", "batch": "batch_calls", "batch_rais": "batch_calls", "batch_ow": "oneway_batch_calls"}.get(r["op"], "other_calls"))
    return True


def run_history(fx, slog, rec, r, sername, nclients, nops):
    plans = []
    for c in range(nclients):
        ops = [(r.choice(OPS), r.choice(["rebind", "inplace"]), r.random() < 0.65) for _ in range(nops)]
        plans.append(ops)
    pay = {"plans": plans, "serializer": sername, "servertype": fx.servertype, "pool": fx.P.config.THREADPOOL_SIZE}
    fx.wait_until(lambda: fx.live_connection_count() == 0, 10.0)      # workers of the previous history are back in the pool
    slog.nclients = nclients
    barrier = threading.Barrier(nclients)
    clients = [Client(fx, slog, c, plans[c], sername, barrier) for c in range(nclients)]
    for c in clients:
        c.start()
    for c in clients:
        c.join(60)
        if c.is_alive():
            rec.inconc("client thread did not finish within the watchdog")
            return
    total = sum(len(p) for p in plans)
    for i in range(total):
        rec.case((core.h64(repr(plans)), i, sername, fx.servertype), sample=pay if rec.evaluations % 1500 == 0 else None)
    check_history(fx, slog, clients, rec, pay)
    if fx.daemon.reply_annotations != {"DMON": b"static"}:
        rec.violation("daemon-annotations-dict-modified", "the dict returned by the application's Daemon.annotations() now holds %r: per-call data was written into it" % (
            {k: bytes(v) for k, v in fx.daemon.reply_annotations.items()},), pay)
        fx.daemon.reply_annotations = {"DMON": b"static"}


def sequential_reuse(fx, slog, rec, r, sername):
    """one client at a time on a pool whose single idle worker is reused: raising call, disconnect, then a fresh handshake / ping / call"""
    P = fx.P
    ser = P.serializers.serializers[sername]
    for idiom in ("rebind", "inplace"):
        for first in ("rais", "ow", "propget_rais", "batch_rais", "ret"):
            for follow in ("handshake", "ping", "ret", "noresp", "reconnect", "badhandshake"):
                barrier = threading.Barrier(1)
                c1 = Client(fx, slog, 90, [(first, idiom)], sername, barrier)
                c1.start()
                c1.join(30)
                fx.wait_until(lambda: fx.live_connection_count() == 0, 5.0)
                c2 = Client(fx, slog, 91, [(follow, idiom, False)], sername, barrier)     # the follow-up carries no correlation id of its own
                c2.start()
                c2.join(30)
                pay = {"plans": [[(first, idiom)], [(follow, idiom, False)]], "sequential": True, "serializer": sername, "servertype": fx.servertype, "pool": P.config.THREADPOOL_SIZE}
                rec.case(("seq", first, follow, idiom, sername, fx.servertype))
                rec.count("worker_reuse_handshakes")
                # the connect handshake of c2 itself (made by Proxy._pyroBind) is also a reply of the reused thread:
                check_history(fx, slog, [c1, c2], rec, pay)
                fx.wait_until(lambda: fx.live_connection_count() == 0, 5.0)


def stream_context_phase(fx, rec, r, sername):
    """a streamed method reads its call context while it produces each item: it is the context of the request fetching that item (the
    caller's connection and address, that request's annotations, correlation id and sequence number), whoever else was served in between"""
    import uuid
    P = fx.P
    ctx = P.callcontext.current_context
    pa = fx.proxy("svc", serializer=sername, timeout=10.0)
    pb = fx.proxy("svc", serializer=sername, timeout=10.0)
    pay = {"stream_context": True, "serializer": sername, "servertype": fx.servertype}
    rec.case(("stream-context", sername, fx.servertype), nontrivial=True)
    bad = None
    try:
        serial_a = pa.whoami()
        local_a = list(pa._pyroLocalSocket)
        ctx.annotations = {"TOKN": b"A-open"}
        it = pa.items(4)
        for k in range(4):
            # somebody else is served in between, with a context of its own
            ctx.annotations = {"TOKN": b"B-call-%d" % k}
            ctx.correlation_id = uuid.uuid4()
            pb.ret("sc-b%d-%s" % (k, uuid.uuid4().hex), "rebind")
            tok = "A-fetch-%d" % k
            ctx.annotations = {"TOKN": tok.encode()}
            ctx.correlation_id = corr = uuid.uuid4()
            seq_before = pa._pyroSeq
            item = list(next(it))
            want = [k, serial_a, local_a, tok, str(corr), (seq_before + 1) & 0xFFFF]
            if item != want:
                bad = "item %d of client A's stream was produced under the context %r (item number, connection, peer address, TOKN annotation, correlation id, sequence number); the request fetching it had %r" % (k, item, want)
                break
            rec.count("stream_items_context_checked")
        try:
            it.close()
        except Exception:
            pass
    except Exception as x:
        rec.inconc("stream context phase failed in the harness: %r" % (x,))
    finally:
        ctx.annotations = {}
        ctx.correlation_id = None
        for p in (pa, pb):
            try:
                p._pyroRelease()
            except Exception:
                pass
    if bad:
        rec.violation("method-saw-foreign-context:streamed-item", bad, pay)


def nested_calls_phase(fx, rec, r, sername):
    """a served method makes calls of its own (to an object of another daemon) before it answers. The replies to THOSE calls carry response
    annotations of their own; the method itself sets none: its reply carries none of them"""
    P = fx.P
    ctx = P.callcontext.current_context
    aux = fixture.Fixture(servertype="thread", COMMTIMEOUT=0.0, THREADPOOL_SIZE=P.config.THREADPOOL_SIZE, THREADPOOL_SIZE_MIN=1)

    @P.server.expose
    class Aux(object):
        def tag(self, token, setit):
            if setit:
                ctx.response_annotations = {"RESP": token.encode(), "AUXX": b"aux"}
            return token
    aux.register(Aux(), "aux")
    aux_uri = aux.uri("aux")

    @P.server.expose
    class Nester(object):
        def nest(self, token, order):
            with P.client.Proxy(aux_uri) as q:
                q._pyroSerializer = sername
                for k, setit in enumerate(order):
                    q.tag("%s/n%d" % (token, k), setit)
            return token
    if "nester" not in fx.daemon.objectsById:
        fx.register(Nester(), "nester")
    try:
        with fx.proxy("nester", serializer=sername, timeout=10.0) as p:
            for order, judged in (([True, False], True), ([True, True, False], True), ([False], True), ([False, True], False), ([True], False)):
                token = "nest-%s" % "".join("s" if x else "p" for x in order)
                pay = {"nested_calls": True, "order": order, "serializer": sername, "servertype": fx.servertype}
                rec.case(("nested", tuple(order), sername, fx.servertype), nontrivial=True)
                ctx.annotations = {"TOKN": token.encode()}
                try:
                    out = p.nest(token, order)
                except Exception as x:
                    rec.inconc("nested calls phase: call failed %r" % (x,))
                    continue
                got = {k: bytes(v) for k, v in dict(ctx.response_annotations).items() if k != "DMON"}
                if out != token:
                    rec.violation("foreign-reply", "nest(%s) returned %r" % (token, out), pay)
                    return
                if got:
                    rec.violation("response-annotation-of-other-call:nested" if judged else "nested-call-reply-annotations-forwarded",
                                  "a method that sets no response annotation made the nested calls %s (s = that reply carried annotations, p = it carried none) before answering; its own reply carried %r" % (
                                      "".join("s" if x else "p" for x in order), got), pay)
                    if judged:
                        return
                    continue
                rec.count("nested_call_replies_clean")
    finally:
        ctx.annotations = {}
        aux.stop()


def plan(tier, seed):
    shards = []
    nh = 40 if tier == "quick" else 400
    for st, pool in (("multiplex", 8), ("thread", 8), ("thread", 3)):
        for sername in (["serpent", "json"] if tier == "quick" else fixture.SERIALIZERS):
            shards.append({"servertype": st, "pool": pool, "serializer": sername, "histories": nh, "inject": False})
            shards.append({"servertype": st, "pool": pool, "serializer": sername, "histories": nh, "inject": True})
    return shards


def run_shard(shard, rec):
    P = fixture.pyro()
    r = gen.rng(rec.seed, "c12", repr(sorted(shard.items())))
    fx, slog = make_env(P, shard["servertype"], shard["pool"], fixture.variant_for(rec.seed, "c12", repr(sorted(shard.items()))))
    rec.count("fixture_variant:" + fx.variant)
    try:
        sequential_reuse(fx, slog, rec, r, shard["serializer"])
        if shard["pool"] >= 8:
            stream_context_phase(fx, rec, r, shard["serializer"])
            nested_calls_phase(fx, rec, r, shard["serializer"])
        if shard.get("inject"):
            yieldinj.enable(("Pyro5/server.py", "Pyro5/callcontext.py", "Pyro5/svr_threads.py", "Pyro5/svr_multiplex.py"), 0.03, rec.seed * 7 + 1)
        for h in range(shard["histories"]):
            if rec.should_stop(10):
                break
            nclients = (r.randrange(2, 6) if shard["servertype"] == "multiplex" else r.randrange(2, 4)) if shard["pool"] >= 8 else 1
            # raw ping/handshake ops need a free worker on the thread server: clients + raw connections in flight <= pool
            run_history(fx, slog, rec, r, shard["serializer"], nclients, r.randrange(4, 14))
            if not fx.loop_alive():
                rec.violation("daemon-loop-died", "request loop stopped: %r" % (fx.loop_exc,), None)
                break
        if shard.get("inject"):
            n, lines = yieldinj.disable()
            rec.count("injected_yields", n)
            rec.count("monitored_lines", lines)
        for kind, text in fixture.take_faults():
            if kind == "thread-exception":
                rec.violation("server-thread-fault", text, None)
    finally:
        yieldinj.disable()
        fx.stop()


def replay(payload, rec):
    if payload.get("nested_calls"):
        P = fixture.pyro()
        fx, slog = make_env(P, payload["servertype"], 8)
        try:
            nested_calls_phase(fx, rec, gen.rng(0, "replay"), payload["serializer"])
        finally:
            fx.stop()
        return
    if payload.get("stream_context"):
        P = fixture.pyro()
        fx, slog = make_env(P, payload["servertype"], 8)
        try:
            stream_context_phase(fx, rec, gen.rng(0, "replay"), payload["serializer"])
        finally:
            fx.stop()
        return
    P = fixture.pyro()
    fx, slog = make_env(P, payload["servertype"], payload.get("pool", 8))
    try:
        plans = payload["plans"]
        barrier = threading.Barrier(1 if payload.get("sequential") else len(plans))
        clients = []
        for c, ops in enumerate(plans):
            cl = Client(fx, slog, c, [tuple(o) for o in ops], payload["serializer"], barrier)
            clients.append(cl)
            cl.start()
            if payload.get("sequential"):
                cl.join(30)
                fx.wait_until(lambda: fx.live_connection_count() == 0, 5.0)
        for cl in clients:
            cl.join(60)
        rec.case(("replay", repr(plans)[:100]))
        check_history(fx, slog, clients, rec, payload)
    finally:
        fx.stop()
