"""C06 - wire messages decode to exactly what was encoded; nothing else decodes.

Three-way oracle: repo encoder -> {repo decoder (both entry points), reference decoder};
reference encoder -> repo decoder; hostile bytes -> accept implies well-formed (reference WF)
and equal to the reference decoding; over-size refused by the sender and by the receiver
before any body byte is read (the fake socket records every recv)."""
import itertools
import uuid
import zlib

from vlib import core, wire, gen
from vlib.fakesock import FragSock

PROPERTY = "C06"
LEVEL = "exploration"
RULE = ("cases: (a) field tuples (type, flags, seq, serializer id, payload, annotations, correlation id, COMPRESSION, "
        "MAX_MESSAGE_SIZE, fragmentation) with every 8/16-bit boundary value enumerated and payload lengths swept around "
        "the 100-byte threshold, built by SendingMessage and decoded three ways; (b) reference-encoded messages decoded by the repo; "
        "(c) hostile byte strings: field-wise mutations of valid messages and random bytes. distinct = hash of the field tuple / "
        "byte string; non-trivial = hostile strings that pass the 6-byte prefix check, and all round-trip tuples")
ASSUMPTIONS = ["reference codec in vlib/wire.py (written from the protocol docstring) is the second opinion",
               "zlib is trusted", "any exception type counts as 'raises'"]
REQUIRED_REACH = ["roundtrip_ok", "hostile_accepted", "hostile_rejected", "oversize_send_refused", "oversize_recv_refused_before_body"]
SHARD_TIMEOUT = {"quick": 480, "thorough": 2400}

U8 = [0, 1, 2, 3, 4, 5, 6, 7, 42, 127, 128, 254, 255]
U16 = [0, 1, 2, 255, 256, 257, 0x7FFF, 0x8000, 0xFFFE, 0xFFFF, 502, 0x4DC5]
FLAGMASK = 0xFFFF & ~(wire.F_COMPRESSED | wire.F_CORR)
MAXES = [64, 1024, 65536, 1024 * 1024 * 1024]
IDCHARS = "ABCDEFGHIJKLMNOPQRSTUVWXYZabcxyz0189 _-.\x00\x7f~"


def plan(tier, seed):
    n = 8 if tier == "quick" else 16
    per = 12000 if tier == "quick" else 150000
    return [{"i": i, "n_round": per, "n_ref": per // 4, "n_hostile": per, "boundaries": i == 0} for i in range(n)] + ([{"kind": "e10"}] if tier == "thorough" else [])


def gen_payload(r):
    k = r.random()
    if k < 0.45:
        n = r.choice([0, 1, 2, 39, 40, 41, 98, 99, 100, 101, 102, 103, 150, 299, 300])
    elif k < 0.9:
        n = r.randrange(0, 301)
    else:
        n = r.choice([1000, 5000, 60000, 70001])
    m = r.random()
    if m < 0.3:
        return bytes(r.randrange(256) for _ in range(min(n, 400))) + b"\xaa" * max(0, n - 400)
    if m < 0.6:
        return (b"abc" * (n // 3 + 1))[:n]
    return bytes([r.randrange(256)]) * n


def gen_anns(r):
    k = r.random()
    if k < 0.3:
        return {}
    out = {}
    for _ in range(r.choice([1, 1, 2, 3, 8])):
        aid = "".join(r.choice(IDCHARS) for _ in range(4))
        ln = r.choice([0, 0, 1, 3, 7, 8, 9, 50, 200])
        v = bytes(r.randrange(256) for _ in range(ln))
        t = r.random()
        out[aid] = v if t < 0.5 else (bytearray(v) if t < 0.75 else memoryview(v))
    return out


def gen_fields(r):
    f = gen_fields0(r)
    if r.random() < 0.1:
        # sizes within a few bytes of the limit, incompressible data, so the size check is decided by zlib's overhead
        f["max"] = r.choice(MAXES[:3])
        n = f["max"] - sum(8 + len(v) for v in f["anns"].values()) + r.randrange(-24, 6)
        f["payload"] = bytes(r.randrange(256) for _ in range(max(0, n)))
        f["compression"] = r.random() < 0.8
    return f


def gen_fields0(r):
    return {
        "type": r.choice(U8) if r.random() < 0.6 else r.randrange(256),
        "flags": (r.choice(U16) if r.random() < 0.5 else r.randrange(65536)) & (FLAGMASK if r.random() < 0.8 else 0xFFFF & ~wire.F_CORR),
        "seq": r.choice(U16) if r.random() < 0.6 else r.randrange(65536),
        "ser": r.choice(U8) if r.random() < 0.6 else r.randrange(256),
        "payload": gen_payload(r),
        "anns": gen_anns(r),
        "corr": None if r.random() < 0.5 else (uuid.UUID(int=r.getrandbits(128)) if r.random() < 0.8 else
                                               uuid.UUID(int=r.choice([0, 1, 2 ** 128 - 1, 2 ** 64, 0x50 << 120]))),   # the nil uuid is an id too
        "compression": r.random() < 0.5,
        "max": r.choice(MAXES),
        "frags": [r.choice([1, 2, 3, 5, 7, 39, 40, 41, 100, 65536]) for _ in range(r.randrange(1, 6))],
        "waitall": r.random() < 0.5,
        "honour": r.random() < 0.5,
    }


def boundary_cases():
    base = {"type": 4, "flags": 0, "seq": 1, "ser": 1, "payload": b"x" * 50, "anns": {}, "corr": None, "compression": False,
            "max": MAXES[-1], "frags": [7], "waitall": False, "honour": False}
    for t in range(256):
        yield dict(base, type=t)
    for s in range(256):
        yield dict(base, ser=s)
    for v in U16 + [1 << b for b in range(16)]:
        yield dict(base, seq=v)
        yield dict(base, flags=v & FLAGMASK)
        yield dict(base, flags=v & ~wire.F_CORR)
    for n in range(0, 301):
        for comp in (False, True):
            yield dict(base, payload=(b"ab" * 200)[:n], compression=comp)
            yield dict(base, payload=bytes((i * 131 + 7) & 255 for i in range(n)), compression=comp)
    for mx in MAXES[:3]:
        for delta in (-9, -8, -1, 0, 1, 8, 9):
            n = mx + delta
            if n >= 0:
                yield dict(base, payload=b"\x01" * n, max=mx)
                if n >= 8:
                    yield dict(base, payload=b"\x01" * (n - 8), anns={"ABCD": b""}, max=mx)
    # the limit is a number like any other: nothing special happens at zero or below (every non-empty message is too large then)
    for mx in (0, -1, -65536):
        for n in (0, 1, 2, 50, 300):
            for anns in ({}, {"ABCD": b""}, {"TEST": b"abc"}):
                for comp in (False, True):
                    yield dict(base, payload=b"\x07" * n, max=mx, anns=anns, compression=comp)
    import random
    rb = random.Random(12345)
    for mx in MAXES[:3]:
        for delta in range(-24, 6):
            for anns in ({}, {"TEST": b"abc"}):
                n = mx + delta - sum(8 + len(v) for v in anns.values())
                # incompressible payloads: zlib makes them slightly larger than the plain size
                yield dict(base, payload=bytes(rb.randrange(256) for _ in range(n)), compression=True, max=mx, anns=anns)


def fields_key(f):
    return (f["type"], f["flags"], f["seq"], f["ser"], core.h64(f["payload"]), tuple((k, bytes(v)) for k, v in f["anns"].items()),
            f["corr"], f["compression"], f["max"], tuple(f["frags"]), f["waitall"], f["honour"])


def expected_flags(f):
    fl = f["flags"] & ~wire.F_COMPRESSED
    if f["corr"] is not None:
        fl |= wire.F_CORR
    return fl


def msg_fields_repo(m):
    if m.data_size != len(m.data):
        raise SizeFieldMismatch("decoded message reports data_size=%d but carries %d payload bytes" % (m.data_size, len(m.data)))
    fields = (m.type, m.flags, m.seq, m.serializer_id, bytes(m.data), {k: bytes(v) for k, v in m.annotations.items()}, bytes(m.corr_id))
    # a decoded message belongs to its consumer, who may update its annotation dictionary in place (the daemon makes it the call context's
    # annotations, application code adds to those): that must not show in any message decoded later
    m.annotations["ZZZZ"] = b"written by the consumer of an earlier message"
    return fields


def msg_fields_ref(m):
    return (m.type, m.flags, m.seq, m.ser, bytes(m.data), dict(m.anns), m.corr)


def same_fields(a, b):
    """equivalence of decoded messages: all fields; the correlation id only if the message says it carries one"""
    if a[:6] != b[:6]:
        return False
    if a[1] & wire.F_CORR:
        return a[6] == b[6]
    return True


class SizeFieldMismatch(Exception):
    pass


def picklable(f):
    if isinstance(f, dict) and "anns" in f:
        f = dict(f, anns={k: (bytes(v) if isinstance(v, memoryview) else v) for k, v in f["anns"].items()})
    return f


class Env:
    def __init__(self):
        import Pyro5
        from Pyro5 import protocol, config, socketutil, errors
        from Pyro5.callcontext import current_context
        self.protocol, self.config, self.socketutil, self.errors, self.ctx = protocol, config, socketutil, errors, current_context
        socketutil.time.sleep  # exists

    def set(self, compression, mx, corr, waitall):
        self.config.COMPRESSION = compression
        self.config.MAX_MESSAGE_SIZE = mx
        self.ctx.correlation_id = corr
        self.socketutil.USE_MSG_WAITALL = waitall

    def decode_direct(self, buf):
        return self.protocol.ReceivingMessage(buf[:40], buf[40:])

    def decode_stream(self, stream, frags, honour):
        fs = FragSock(stream, frags, honour_waitall=honour)
        conn = self.socketutil.SocketConnection(fs, keep_open=True)
        try:
            return self.protocol.recv_stub(conn), fs
        except Exception as x:
            x._fs = fs
            raise


def run_roundtrip(env, f, rec, r):
    rec.case(("rt",) + fields_key(f), sample=None if rec.evaluations > 3 else {"kind": "roundtrip", "fields": core.jsonable(f)})
    P = env.protocol
    env.set(f["compression"], f["max"], f["corr"], f["waitall"])
    if r.random() < 0.3:
        # the sending thread has just read somebody else's message (a pong, a reply, a request): reading is not writing - what it sends next
        # is still described by its own settings only
        foreign = wire.encode(r.choice([1, 4, 5, 6]), wire.F_CORR, 7, 2, b"pong", [], b"\xab" * 16)
        try:
            P.recv_stub(env.socketutil.SocketConnection(FragSock(foreign, [64], honour_waitall=True), keep_open=True))
            rec.count("foreign_message_read_before_encoding")
        except Exception:
            pass
    payload = f["payload"]
    ann_size = sum(8 + len(v) for v in f["anns"].values())
    size_plain = len(payload) + ann_size
    size_comp = len(zlib.compress(payload, 4)) + ann_size
    try:
        sm = P.SendingMessage(f["type"], f["flags"], f["seq"], f["ser"], payload, annotations=dict(f["anns"]))
    except Exception as x:
        if min(size_plain, size_comp) > f["max"] or (max(size_plain, size_comp) > f["max"] and f["compression"]) or \
                (size_plain > f["max"] and not f["compression"]):
            rec.count("oversize_send_refused")
            return
        rec.violation("sender-refused-buildable-message", "SendingMessage raised %r for a message within MAX_MESSAGE_SIZE" % (x,), ("rt", picklable(f)))
        return
    wirebytes = bytes(sm.data)
    try:
        hdr = wire.parse_header(wirebytes)
    except wire.WireError as x:
        rec.violation("sender-built-illformed-header", "reference cannot parse header: %s" % x, ("rt", picklable(f)))
        return
    if hdr.data_len + hdr.ann_len > f["max"]:
        rec.violation("oversize-message-built", "sender built a message declaring %d bytes with MAX_MESSAGE_SIZE=%d" % (hdr.data_len + hdr.ann_len, f["max"]), ("rt", picklable(f)))
        return
    exp = (f["type"], expected_flags(f), f["seq"], f["ser"], payload, {k: bytes(v) for k, v in f["anns"].items()},
           f["corr"].bytes if f["corr"] else b"\0" * 16)
    # reference decoder
    try:
        ref = msg_fields_ref(wire.decode(wirebytes, f["max"]))
    except wire.WireError as x:
        rec.violation("sender-built-illformed-message", "reference decoder rejects what SendingMessage built: %s" % x, ("rt", picklable(f)))
        return
    if ref != exp:
        rec.violation("encode-mismatch-vs-reference", "reference decoding %s != sent fields %s" % (core.short(ref), core.short(exp)), ("rt", picklable(f)))
        return
    if len(wirebytes) != hdr.total:
        rec.violation("sender-built-illformed-message", "length fields do not tile", ("rt", picklable(f)))
        return
    # repo decoder, direct
    try:
        got = msg_fields_repo(env.decode_direct(wirebytes))
    except SizeFieldMismatch as x:
        rec.violation("decoded-size-field-wrong", str(x), ("rt", picklable(f)))
        return
    except Exception as x:
        rec.violation("decoder-rejects-own-message", "ReceivingMessage raised %r on a message the sender built" % (x,), ("rt", picklable(f)))
        return
    if got != exp:
        rec.violation("decode-mismatch", "ReceivingMessage decoded %s, sent %s" % (core.short(got), core.short(exp)), ("rt", picklable(f)))
        return
    # repo decoder, stream: message + second message + garbage, arbitrary fragmentation
    # (behind a large message the second one is large too, but not larger: a receive buffer that is re-used would be overwritten by it)
    second_body = b"second" if len(wirebytes) < 1200 else b"S" * r.randrange(1024, max(1025, len(wirebytes) - 60))
    second = wire.encode(5, 0, (f["seq"] + 1) & 0xFFFF, 2, second_body, [(b"SEC2", b"zz")])
    garbage = bytes(r.randrange(256) for _ in range(r.randrange(0, 30)))
    stream = wirebytes + second + garbage
    frags = f["frags"] if len(stream) < 3000 else [max(x, 997) for x in f["frags"]]
    fs = FragSock(stream, frags, honour_waitall=f["honour"])
    conn = env.socketutil.SocketConnection(fs, keep_open=True)
    try:
        m1 = P.recv_stub(conn)
    except Exception as x:
        rec.violation("decoder-rejects-own-message", "recv_stub raised %r on a fragmented stream (frags=%s)" % (x, f["frags"]), ("rt", picklable(f)))
        return
    if fs.pos != len(wirebytes):
        rec.violation("wrong-consumption", "recv_stub consumed %d bytes of a %d byte message" % (fs.pos, len(wirebytes)), ("rt", picklable(f)))
        return
    got = msg_fields_repo(m1)
    if got != exp:
        rec.violation("decode-mismatch", "recv_stub decoded %s, sent %s" % (core.short(got), core.short(exp)), ("rt", picklable(f)))
        return
    if len(second) - 40 > f["max"]:
        rec.count("followup_message_over_the_limit_skipped")      # (a limit at or below zero: the follow-up message itself is too large)
        return
    try:
        m2 = P.recv_stub(conn)
        ok2 = (m2.type, m2.seq, bytes(m2.data), {k: bytes(v) for k, v in m2.annotations.items()}) == (5, (f["seq"] + 1) & 0xFFFF, second_body, {"SEC2": b"zz"})
    except Exception as x:
        ok2 = False
    if not ok2 or fs.pos != len(wirebytes) + len(second):
        rec.violation("wrong-consumption", "the message following on the stream was not decoded intact (pos=%d want %d)" % (fs.pos, len(wirebytes) + len(second)), ("rt", picklable(f)))
        return
    # the first message is still what was sent, now that the next one has been received over the same connection
    if len(second_body) > 6:
        rec.count("large_message_followed_by_large_message")
    try:
        if "ZZZZ" in f["anns"]:                 # (what this consumer wrote into it itself is taken back: the message's own entry, if it had one)
            m1.annotations["ZZZZ"] = bytes(f["anns"]["ZZZZ"])
        else:
            m1.annotations.pop("ZZZZ", None)
        still = msg_fields_repo(m1)
    except Exception as x:
        still = ("raised", repr(x))
    if still != exp:
        rec.violation("decoded-message-changed-by-next-message", "a message decoded by recv_stub (%d bytes) held %s; after the next message (%d bytes) was received on the same connection it holds %s" % (
            len(wirebytes), core.short(exp), len(second), core.short(still)), ("rt", picklable(f)))
        return
    # decode . encode . decode == decode
    env.ctx.correlation_id = uuid.UUID(bytes=got[6]) if got[1] & wire.F_CORR else None
    try:
        re_sm = P.SendingMessage(got[0], got[1], got[2], got[3], got[4], annotations=dict(got[5]))
        again = msg_fields_repo(env.decode_direct(bytes(re_sm.data)))
        if not same_fields(again, got):
            rec.violation("reencode-not-equivalent", "decode(encode(decode(m))) %s != decode(m) %s" % (core.short(again), core.short(got)), ("rt", picklable(f)))
            return
    except Exception as x:
        rec.violation("reencode-raises", "re-encoding an accepted message raised %r" % (x,), ("rt", picklable(f)))
        return
    rec.count("roundtrip_ok")
    if f["compression"] and wirebytes[9] & wire.F_COMPRESSED:
        rec.count("roundtrip_compressed")
    rec.count("fragmented_reads", len(fs.recv_log))


def gen_ref_message(r):
    anns = []
    for _ in range(r.choice([0, 0, 1, 2, 5])):
        aid = bytes(r.choice(IDCHARS.encode("ascii")) for _ in range(4))
        anns.append((aid, bytes(r.randrange(256) for _ in range(r.choice([0, 1, 8, 30])))))
    if anns and r.random() < 0.15:
        anns.append((anns[0][0], b"dup"))        # duplicate id: well-formed, later chunk wins
    payload = gen_payload(r)
    flags = r.randrange(65536) & ~wire.F_COMPRESSED
    data = payload
    if r.random() < 0.4:
        data = zlib.compress(payload, r.choice([1, 4, 9]))
        flags |= wire.F_COMPRESSED
    corr = bytes(r.randrange(256) for _ in range(16)) if flags & wire.F_CORR else (b"\0" * 16 if r.random() < 0.8 else b"\x01" * 16)
    reserved = 0 if r.random() < 0.8 else r.randrange(65536)
    buf = wire.encode(r.randrange(256), flags, r.randrange(65536), r.randrange(256), data, anns, corr, reserved=reserved)
    buildable = reserved == 0 and len({a for a, _ in anns}) == len(anns)
    return buf, buildable


def run_ref(env, r, rec):
    buf, buildable = gen_ref_message(r)
    env.set(False, MAXES[-1], None, r.random() < 0.5)
    rec.case(("ref", core.h64(buf)))
    ref = msg_fields_ref(wire.decode(buf))
    for how in ("direct", "stream"):
        try:
            if how == "direct":
                got = msg_fields_repo(env.decode_direct(buf))
            else:
                frags = [r.choice([1, 3, 40, 1000]) for _ in range(3)]
                m, fs = env.decode_stream(buf + b"tail", frags, r.random() < 0.5)
                got = msg_fields_repo(m)
                if fs.pos != len(buf):
                    rec.violation("wrong-consumption", "recv_stub consumed %d of %d bytes" % (fs.pos, len(buf)), ("bytes", buf, MAXES[-1]))
                    return
        except Exception as x:
            if buildable:
                rec.violation("decoder-rejects-wellformed", "%s decoder raised %r on a well-formed, sender-buildable message" % (how, x), ("bytes", buf, MAXES[-1]))
            else:
                rec.count("ref_unbuildable_rejected")
            return
        if got[:6] != ref[:6] or got[6] != ref[6]:
            rec.violation("decode-mismatch-vs-reference", "%s decoder %s != reference %s" % (how, core.short(got), core.short(ref)), ("bytes", buf, MAXES[-1]))
            return
    rec.count("ref_decoded_equal")


def mutate(r, buf):
    b = bytearray(buf)
    k = r.randrange(14)
    hdr = wire.parse_header(bytes(buf))
    if k == 0:      # data length off
        b[12:16] = wire.u32(max(0, hdr.data_len + r.choice([-2, -1, 1, 2, 8, 1000, 2 ** 32 - 1 - hdr.data_len])) & 0xFFFFFFFF)
    elif k == 1:    # annotation length off
        b[16:20] = wire.u32(max(0, hdr.ann_len + r.choice([-9, -8, -4, -1, 1, 4, 8, 9, 1000])) & 0xFFFFFFFF)
    elif k == 2:    # move the annotation/data boundary, total unchanged
        d = r.choice([-8, -4, -1, 1, 4, 8])
        if hdr.ann_len + d >= 0 and hdr.data_len - d >= 0:
            b[16:20] = wire.u32(hdr.ann_len + d)
            b[12:16] = wire.u32(hdr.data_len - d)
    elif k == 3 and hdr.ann_len >= 8:   # chunk length field corrupted
        off = 40 + 4
        cur = int.from_bytes(b[off:off + 4], "big")
        b[off:off + 4] = wire.u32((cur + r.choice([-1, 1, 2, 8, 255, 2 ** 31])) & 0xFFFFFFFF)
    elif k == 4 and hdr.ann_len >= 4:   # non-ascii id
        b[40 + r.randrange(4)] = r.randrange(128, 256)
    elif k == 5:    # truncate
        del b[r.randrange(0, len(b) + 1):]
    elif k == 6:    # extend
        b += bytes(r.randrange(256) for _ in range(r.randrange(1, 20)))
    elif k == 7:    # flip header byte
        i = r.randrange(40)
        b[i] ^= 1 << r.randrange(8)
    elif k == 8:    # flip any byte
        i = r.randrange(len(b))
        b[i] ^= 1 << r.randrange(8)
    elif k == 9:    # claim compression on raw data
        b[9] |= wire.F_COMPRESSED
    elif k == 10:   # version / magic / tag +-1
        w = r.choice([(4, 6), (38, 40), (0, 4)])
        v = int.from_bytes(b[w[0]:w[1]], "big") + r.choice([-1, 1])
        b[w[0]:w[1]] = (v & ((1 << (8 * (w[1] - w[0]))) - 1)).to_bytes(w[1] - w[0], "big")
    elif k == 11:   # huge declared sizes
        b[r.choice([12, 16]):][:4] = b"\xff\xff\xff\xff"
        w = r.choice([12, 16])
        b[w:w + 4] = r.choice([b"\xff\xff\xff\xff", b"\x7f\xff\xff\xff", b"\x40\x00\x00\x00", b"\x40\x00\x00\x01"])
    elif k == 12:   # splice in a second annotation chunk with overlapping lengths
        b[40:40] = b"OVER" + wire.u32(r.choice([0, 5, 2 ** 32 - 1])) + b"12345"
    # k == 13: unchanged valid message
    return bytes(b)


def run_hostile(env, r, rec):
    mx = r.choice([256, 1024, 1024 * 1024 * 1024, 1024 * 1024 * 1024, 0, -1])
    if r.random() < 0.12:
        n = r.choice([0, 1, 3, 4, 5, 6, 39, 40, 41, 60])
        buf = bytes(r.randrange(256) for _ in range(n))
        if r.random() < 0.5:
            buf = (b"PYRO\x01\xf6" + buf)[:max(n, 6)]
    else:
        base, _ = gen_ref_message(r)
        buf = mutate(r, base)
        if r.random() < 0.3:
            buf = mutate(r, buf) if len(buf) >= 40 and wire.well_formed(buf) else buf
    env.set(False, mx, None, r.random() < 0.5)
    nontrivial = len(buf) >= 6 and buf[:6] == b"PYRO\x01\xf6"
    rec.case(("h", core.h64(buf), mx), nontrivial=nontrivial)
    wf = wire.well_formed(buf, mx)
    # direct
    if len(buf) >= 40:
        try:
            got = msg_fields_repo(env.decode_direct(buf))
            acc = True
        except Exception:
            acc = False
        if acc:
            rec.count("hostile_accepted")
            if not wf:
                rec.violation("accepts-illformed", "ReceivingMessage accepted a byte string the reference rejects", ("bytes", buf, mx))
                return
            ref = msg_fields_ref(wire.decode(buf, mx))
            if got != ref:
                rec.violation("decode-mismatch-vs-reference", "accepted hostile message decoded %s, reference %s" % (core.short(got), core.short(ref)), ("bytes", buf, mx))
                return
        else:
            rec.count("hostile_rejected")
    # stream
    frags = [r.choice([1, 2, 6, 34, 40, 1000]) for _ in range(3)]
    fs = None
    try:
        m, fs = env.decode_stream(buf, frags, r.random() < 0.5)
        acc = True
    except Exception as x:
        acc = False
        fs = getattr(x, "_fs", None)
    if acc:
        rec.count("hostile_stream_accepted")
        consumed = buf[:fs.pos]
        if not wire.well_formed(consumed, mx):
            rec.violation("accepts-illformed", "recv_stub accepted a prefix (%d bytes) the reference rejects" % fs.pos, ("bytes", buf, mx))
            return
        ref = msg_fields_ref(wire.decode(consumed, mx))
        if msg_fields_repo(m) != ref:
            rec.violation("decode-mismatch-vs-reference", "recv_stub decoded %s, reference %s" % (core.short(msg_fields_repo(m)), core.short(ref)), ("bytes", buf, mx))
            return
    else:
        rec.count("hostile_stream_rejected")
        if len(buf) >= 40 and buf[:6] == b"PYRO\x01\xf6" and buf[38:40] == b"\x4d\xc5":
            h = wire.parse_header(buf)
            if h.data_len + h.ann_len > mx:
                if fs is not None and fs.pos > 40:
                    rec.violation("oversize-body-read", "receiver read %d bytes (> 40 byte header) of a message declaring %d > MAX_MESSAGE_SIZE=%d" % (fs.pos, h.data_len + h.ann_len, mx), ("bytes", buf, mx))
                    return
                rec.count("oversize_recv_refused_before_body")


BAD_KEYS = ["ÅBCD", "ABÅD", "ABCÅ", "😀BCD", "étés", "ÿÿÿÿ", "A\x80CD", "日本語x", "AB", "ABCDE", "", "ABC", "\udc80BCD"]
BAD_IDS = [b"\xc3\x85BC", b"\xf0\x9f\x98\x80", b"AB\xc3\xa9", b"\xe6\x97\xa5A", b"\xff\xfe\xfd\xfc", b"\x80ABC", b"AB\x00\xc2"]


def annotation_id_cases(env, rec):
    """annotation identifiers are four ASCII characters. Any other key is refused by the encoder - or, if it is taken, it arrives as exactly that
    key; a chunk id that is not ASCII is refused by the decoder - or, if it is taken, the decoded message can be encoded again to the same bytes"""
    P = env.protocol
    env.set(False, MAXES[-1], None, True)
    for key in BAD_KEYS:
        for extra in ({}, {"GOOD": b"g"}, {key[:-1] + "E" if key else "XXXX": b"second"}):
            anns = dict(extra)
            anns[key] = b"value"
            rec.case(("bad-annotation-key", key, tuple(sorted(extra))), nontrivial=True)
            try:
                sm = P.SendingMessage(4, 0, 1, 1, b"payload", annotations=dict(anns))
            except Exception:
                rec.count("bad_annotation_keys_refused")
                continue
            try:
                ref = wire.decode(bytes(sm.data), MAXES[-1])
                ref_anns = {k.decode("latin-1") if isinstance(k, bytes) else k: bytes(v) for k, v in dict(ref.anns).items()}
            except wire.WireError as x:
                rec.violation("sender-built-illformed-message", "annotation key %r was accepted by the encoder; the reference decoder rejects the message: %s" % (key, x), None)
                continue
            try:
                got = {k: bytes(v) for k, v in env.decode_direct(bytes(sm.data)).annotations.items()}
            except Exception as x:
                got = "decoder raises %r" % (x,)
            want = {k: bytes(v) for k, v in anns.items()}
            if got != want:
                rec.violation("decode-mismatch", "annotations %r were accepted by the encoder but arrive as %r (%d chunk(s) on the wire)" % (want, got, len(ref_anns)), None)
            else:
                rec.count("bad_annotation_keys_roundtrip")
    for cid in BAD_IDS:
        buf = wire.encode(4, 0, 1, 1, b"payload", [(cid, b"value")])
        rec.case(("bad-annotation-id", cid), nontrivial=True)
        try:
            m = env.decode_direct(buf)
        except Exception:
            rec.count("bad_annotation_ids_refused")
            continue
        try:
            again = bytes(P.SendingMessage(m.type, m.flags, m.seq, m.serializer_id, bytes(m.data), annotations={k: bytes(v) for k, v in m.annotations.items()}).data)
        except Exception as x:
            again = "encoder raises %r" % (x,)
        if again != buf:
            rec.violation("reencode-not-equivalent", "a message whose annotation chunk id is %r was accepted (as %r); encoding what was decoded gives %s" % (
                cid, sorted(m.annotations), again if isinstance(again, str) else "other bytes"), None)
        else:
            rec.count("bad_annotation_ids_roundtrip")


def run_shard(shard, rec):
    if shard.get("kind") == "e10":
        from vlib import e10
        e10.run_e10("C06", rec)
        return
    core.assert_repo()
    env = Env()
    env.socketutil.time = type("T", (), {"sleep": staticmethod(lambda s: None)})   # no back-off waits on the fake socket
    r = gen.rng(rec.seed, "c06", shard["i"])
    if shard.get("boundaries"):
        annotation_id_cases(env, rec)
        for f in boundary_cases():
            run_roundtrip(env, f, rec, r)
            rec.count("boundary_cases")
    for _ in range(shard["n_round"]):
        run_roundtrip(env, gen_fields(r), rec, r)
    for _ in range(shard["n_ref"]):
        run_ref(env, r, rec)
    for _ in range(shard["n_hostile"]):
        run_hostile(env, r, rec)


def replay(payload, rec):
    core.assert_repo()
    env = Env()
    env.socketutil.time = type("T", (), {"sleep": staticmethod(lambda s: None)})
    r = gen.rng(0, "replay")
    if payload[0] == "rt":
        run_roundtrip(env, payload[1], rec, r)
    else:
        _, buf, mx = payload
        env.set(False, mx, None, True)
        rec.case(("h", core.h64(buf)))
        wf = wire.well_formed(buf, mx)
        for how in ("direct", "stream"):
            try:
                if how == "direct":
                    m = env.decode_direct(buf)
                else:
                    m, fs = env.decode_stream(buf, [7], False)
                acc = True
            except Exception as x:
                acc = False
                print("replay: %s decoder raised %r" % (how, x))
            if acc:
                print("replay: %s decoder accepted -> %s ; reference well-formed=%s" % (how, core.short(msg_fields_repo(m)), wf))
                if how == "direct" and not wf:
                    rec.violation("accepts-illformed", "accepted ill-formed bytes", payload)
