"""C18 - thread pool: each connection served once or refused; workers stay bounded; close is clean.

(a) The real Pool/Worker of svr_threads under the controlled line-level scheduler (E5): an accept thread submits jobs while
    workers finish earlier ones, optionally a closer races with completions. Monitor counters are kept under the monitor's
    own lock; 'all controlled threads blocked' is a detected state, so a deadlock is an observation, not a timeout.
(b) Socket level: SocketServer_Threadpool with a small pool, raw clients with seeded delays and yield injection."""
import threading
import time

from vlib import core, gen, fixture, sched, wire, yieldinj

PROPERTY = "C18"
LEVEL = "exploration"
RULE = ("(a) schedules (source-line granularity) of {accept thread submitting 2-5 jobs, workers, optional closer} on the real Pool/Worker for "
        "THREADPOOL_SIZE_MIN<=THREADPOOL_SIZE in 1..3: every schedule with at most B preemptions (B=1 quick, 2 thorough; replay-by-prefix DFS), then "
        "PCT and uniform random walks; (b) socket runs: 20-200 raw clients against a pool of 2-3 with yield injection in svr_threads.py. "
        "distinct = hash of the (thread, line) sequence; non-trivial = at least one context switch")
ASSUMPTIONS = ["scheduling points are source lines of Pool/Worker methods and the job body; CPython can also switch between bytecodes of one line",
               "a job accepted just before a racing close() may be dropped (the statement's 'starts no further job'); only runs without close require every accepted job to run",
               "a refusal is illegitimate only if accepted-minus-completed(notify_done returned) < THREADPOOL_SIZE at process() entry"]
REQUIRED_REACH = ["slow_hello_refusals_checked", "pool_resizes_followed", "hook_connections_to_sibling_daemon_served", "schedules_explored", "jobs_executed", "refusals_seen", "closes_completed", "socket_clients_served", "socket_clients_refused", "unix_socket_runs", "proxy_retries_after_refusal", "start_faults_injected", "workers_killed_by_exiting_jobs", "full_pool_refusals_checked"]
SHARD_TIMEOUT = {"quick": 480, "thorough": 3000}


class Mon:
    """monitor state, updated atomically with the events it shadows (own lock; never held across a scheduling point)"""

    def __init__(self, size):
        self.lock = threading.Lock()
        self.size = size
        self.accepted = 0
        self.done_returned = 0
        self.exec = {}
        self.refused = []          # (job, inflight_upper at entry)
        self.started = []          # worker objects in start order
        self.retired = set()       # id(worker) told to exit (handed None)
        self.exited = set()
        self.max_nonretired = 0
        self.close_returned = False
        self.started_after_close = []
        self.violations = []
        self.pool = None
        self.killed = set()        # id(worker) whose job ended with a BaseException that is not an Exception (the thread is gone with it)
        self.grow_starts = 0       # Worker.start() calls made by process() (not by the pool's constructor)
        self.faulted = []          # jobs whose process() failed because the injected thread-start fault hit it

    def worker_started(self, w):
        with self.lock:
            self.started.append(w)
            n = len([x for x in self.started if id(x) not in self.retired and id(x) not in self.exited])
            self.max_nonretired = max(self.max_nonretired, n)
            if n > self.size:
                self.violations.append(("too-many-workers", "%d worker threads started and not told to retire with THREADPOOL_SIZE=%d" % (n, self.size)))

    def note_killed(self):
        with self.lock:
            self.killed.add(id(threading.current_thread()))

    def job_started(self, j):
        with self.lock:
            self.exec[j] = self.exec.get(j, 0) + 1
            if self.exec[j] > 1:
                self.violations.append(("job-run-twice", "job %d executed %d times" % (j, self.exec[j])))
            if self.close_returned:
                self.started_after_close.append(j)
                self.violations.append(("job-started-after-close", "job %d started after close() had returned" % j))


def controlled_run(P, cfg, choices, strategy):
    """one controlled execution of the real Pool; returns (result, monitor, refused list)"""
    S = P.svr_threads
    size, minsize, njobs, closer = cfg["size"], cfg["min"], cfg["jobs"], cfg["closer"]
    P.config.THREADPOOL_SIZE, P.config.THREADPOOL_SIZE_MIN = size, minsize
    sc = sched.Scheduler(choices=choices, strategy=strategy, max_steps=6000)
    mon = Mon(size)
    codes = sched.code_objects_of(S.Pool, S.Worker)       # of the original methods, before the harness wrappers go in
    saved = (S.threading, S.time, S.Worker.run, S.Worker.start, S.Worker.join, S.Worker.process, S.Pool.notify_done)
    orig_run, orig_start, orig_process, orig_notify = S.Worker.run, S.Worker.start, S.Worker.process, S.Pool.notify_done
    S.threading = sc.shim_threading()
    S.time = sc.shim_time()

    def run_wrapped(self):
        try:
            return orig_run(self)
        finally:
            # (workers that are still parked when the controlled execution ends are unwound by the scheduler's teardown: not an exit of the pool's making)
            if not getattr(sc, "aborting", False):
                with mon.lock:
                    mon.exited.add(id(self))
    S.Worker.run = sc.wrap_thread_entry(run_wrapped, "worker")

    def start(self):
        if shared["pool"] is not None:
            with mon.lock:
                mon.grow_starts += 1
                hit = mon.grow_starts == cfg.get("start_fault")
            if hit:
                # the operating system refuses one more thread: what Thread.start() raises then. The job is lost (its caller sees the
                # error); everything the pool does AFTERWARDS must still be right
                raise RuntimeError("can't start new thread")
        mon.worker_started(self)
        sc.start_child(orig_start, self)
    S.Worker.start = start
    S.Worker.join = lambda self, timeout=None: sc.join_thread(lambda: sc.ts_of_thread(self), timeout)

    def process(self, job):
        if job is None:
            with mon.lock:
                mon.retired.add(id(self))
        return orig_process(self, job)
    S.Worker.process = process

    def notify_done(self, worker):
        r = orig_notify(self, worker)
        with mon.lock:
            mon.done_returned += 1
        return r
    S.Pool.notify_done = notify_done
    shared = {"pool": None, "pool_ready": sc.Event(), "submitted": sc.Event()}

    raisers = set(cfg.get("raisers", ()))
    exiters = set(cfg.get("exiters", ()))

    def make_job(j):
        def job():
            mon.job_started(j)
            x = 0
            x += 1
            x += 1
            if j in raisers:
                raise RuntimeError("job %d ends with an exception" % j)     # a job may end by raising: its worker is free again all the same
            if j in exiters:
                # sys.exit() inside a job: the worker's thread goes with it. That worker is lost (it may stay listed as busy, as on the pinned
                # tree); nobody may ever be handed to it again
                mon.note_killed()          # (a helper: the job's own lines are scheduling points, the monitor's lock is never held across one)
                raise SystemExit("job %d calls sys.exit()" % j)
            return x
        return job
    jobs = [make_job(j) for j in range(njobs)]

    def accept_thread():
        pool = S.Pool()
        shared["pool"] = pool
        mon.pool = pool
        shared["pool_ready"].set()
        for j in range(njobs):
            with mon.lock:
                inflight = mon.accepted - mon.done_returned
            try:
                pool.process(jobs[j])
                with mon.lock:
                    mon.accepted += 1
            except S.NoFreeWorkersError:
                with mon.lock:
                    mon.refused.append((j, inflight))
                    if inflight < size:
                        mon.violations.append(("refused-while-workers-free", "job %d refused although at most %d of %d workers could be busy" % (j, inflight, size)))
            except S.PoolError:
                with mon.lock:
                    mon.refused.append((j, -1))       # pool already closed by the racing closer: a legitimate refusal
            except RuntimeError as x:
                if "can't start new thread" not in str(x):
                    raise
                with mon.lock:
                    mon.refused.append((j, -2))       # the injected thread-start fault: this job is lost, its submitter was told
                    mon.faulted.append(j)
        shared["submitted"].set()
        if closer == "same":
            pool.close()
            with mon.lock:
                mon.close_returned = True

    def closer_thread():
        shared["pool_ready"].wait()
        if cfg.get("close_after_submit"):
            shared["submitted"].wait()
        shared["pool"].close()
        with mon.lock:
            mon.close_returned = True
    bodies = [accept_thread] + ([closer_thread] if closer == "other" else [])
    codes = codes + [j.__code__ for j in jobs[:1]]
    try:
        res = sc.run(bodies, codes, watchdog=30.0)
    finally:
        S.threading, S.time, S.Worker.run, _, _, S.Worker.process, S.Pool.notify_done = saved
        for inherited in ("start", "join"):          # inherited from Thread: drop the harness overrides again
            if inherited in vars(S.Worker):
                delattr(S.Worker, inherited)
    return sc, res, mon


def judge(cfg, res, mon, rec, pay):
    if res.timeout or res.steps_exceeded:
        rec.inconc("controlled execution did not finish (timeout=%s steps_exceeded=%s)" % (res.timeout, res.steps_exceeded))
        return True
    if res.errors:
        rec.inconc("harness errors during controlled execution: %r" % (res.errors[:2],))
        return True
    if res.deadlock:
        rec.violation("pool-deadlock", "all controlled threads blocked while %r had not finished; cfg=%r" % (res.blocked, cfg), pay)
        return False
    for mech, msg in mon.violations:
        rec.violation(mech, "%s; cfg=%r; schedule %r..." % (msg, cfg, res.trace[:30]), pay)
        return False
    closed = cfg["closer"] != "none"
    with mon.lock:
        execs = dict(mon.exec)
        accepted = mon.accepted
        refused = list(mon.refused)
        started = list(mon.started)
        retired, exited = set(mon.retired), set(mon.exited)
    rec.count("jobs_executed", sum(execs.values()))
    if mon.faulted:
        rec.count("start_faults_injected", len(mon.faulted))
    rec.count("refusals_seen", len(refused))
    refused_ids = {j for j, _ in refused}
    for j in range(cfg["jobs"]):
        n = execs.get(j, 0)
        if j in refused_ids and n:
            rec.violation("refused-job-executed", "job %d was refused and executed; cfg=%r" % (j, cfg), pay)
            return False
        if j not in refused_ids and n == 0 and not closed:
            rec.violation("accepted-job-never-run", "job %d was accepted by process() but never executed (no close involved); blocked=%r cfg=%r" % (j, res.blocked, cfg), pay)
            return False
    if not closed and mon.pool is not None:
        # quiescence without close(): every job has ended, the workers are parked or gone. The pool's books must say so:
        # nobody busy, nobody listed who has exited, and the listed workers are exactly the live ones
        pool = mon.pool
        busy, idle = list(pool.busy), list(pool.idle)
        with mon.lock:
            killed = set(mon.killed)
        if killed:
            rec.count("workers_killed_by_exiting_jobs", len(killed))
        busy = [w for w in busy if id(w) not in killed]          # (a worker whose thread died inside its job stays on the books as busy: tolerated)
        dead = [w for w in busy + idle if id(w) in exited]
        live = [w for w in started if id(w) not in exited]
        if busy or dead or len(idle) != len(live):
            rec.violation("pool-accounting-wrong", "at quiescence (all %d accepted jobs ended) the pool lists %d busy and %d idle workers, %d of the listed have exited, "
                          "%d worker threads are alive; cfg=%r" % (accepted, len(busy), len(idle), len(dead), len(live), cfg), pay)
            return False
        rec.count("accounting_at_quiescence_ok")
    if closed:
        rec.count("closes_completed")
        stranded = [i for i, w in enumerate(started) if id(w) not in exited and id(w) not in retired]
        # at quiescence after close() every worker has exited or has been told to exit
        if stranded:
            rec.violation("worker-stranded-after-close", "worker(s) %r neither exited nor were told to exit after close(); blocked=%r cfg=%r" % (stranded, res.blocked, cfg), pay)
            return False
        waiting = [b for b in res.blocked if b[1] == "worker"]
        if waiting:
            rec.violation("worker-stranded-after-close", "after close() workers are still parked waiting for a job: %r cfg=%r" % (waiting, cfg), pay)
            return False
    return True


def explore(P, cfg, bound, nrandom, npct, rec, r):
    seen = set()

    def one(choices, strategy):
        sc, res, mon = controlled_run(P, cfg, choices, strategy)
        h = core.h64(repr(res.trace))
        pay = {"cfg": cfg, "choices": res.choices_made}
        rec.case(("sched", repr(sorted(cfg.items())), h), nontrivial=res.preemptions > 0 or len(res.points) > 0,
                 sample={"cfg": cfg, "schedule_head": res.trace[:30], "choices": res.choices_made[:30]} if rec.evaluations % 700 == 5 else None)
        if h not in seen:
            seen.add(h)
            rec.count("schedules_explored")
        rec.count("scheduling_points", len(res.trace))
        rec.maxi("max_nonretired_workers_seen", mon.max_nonretired)
        judge(cfg, res, mon, rec, pay)
        return res
    runs, exhaustive = sched.dfs(one, bound, max_runs=cfg.get("max_runs", 1500), stop=lambda: rec.should_stop(8))
    rec.note("dfs:%s" % sorted(cfg.items()), {"runs": runs, "exhaustive_within_bound": exhaustive, "bound": bound})
    for k in range(npct):
        if rec.should_stop(8):
            return
        one(None, ("pct", r.getrandbits(32), 3, 120))
    for k in range(nrandom):
        if rec.should_stop(8):
            return
        one(None, ("random", r.getrandbits(32)))


# ---- (b) socket level -----------------------------------------------------------------------------------------------
def socket_run(P, rec, r, size, nclients, inject, unix=False):
    fx = fixture.Fixture(servertype="thread", unix=unix, COMMTIMEOUT=0.0, THREADPOOL_SIZE=size, THREADPOOL_SIZE_MIN=r.randrange(1, size + 1))
    if unix:
        rec.count("unix_socket_runs")
    served_tokens = {}
    lock = threading.Lock()
    active = [0]
    max_active = [0]

    @P.server.expose
    class Svc(object):
        def enter(self, token):
            with lock:
                served_tokens[token] = served_tokens.get(token, 0) + 1
                active[0] += 1
                max_active[0] = max(max_active[0], active[0])
            return token

        def leave(self, token):
            with lock:
                active[0] -= 1
            return token
    fx.register(Svc(), "svc")
    ser = P.serializers.serializers["marshal"]
    results = []
    if inject:
        yieldinj.enable(("Pyro5/svr_threads.py",), 0.05, r.getrandbits(30), max_sleep=0.003)

    def proxy_client(i, delay, hold):
        """a client that uses ONE Proxy object and simply tries again after a refusal: every attempt is served or refused with the reason"""
        time.sleep(delay)
        p = fx.proxy("svc", serializer="marshal", timeout=20.0)
        backlog_retries = [0]
        try:
            attempt = -1
            while attempt < 3:
                attempt += 1
                tok = "c%d" % i if attempt == 0 else "c%d.%d" % (i, attempt)
                try:
                    a = p.enter(tok)
                    time.sleep(hold)
                    b = p.leave(tok)
                    results.append((tok, "served", a, b))
                    return
                except P.errors.CommunicationError as x:
                    if "no free workers" in str(x):
                        results.append((tok, "refused", str(x), None))
                        time.sleep(0.01 + 0.01 * attempt)
                        continue
                    if unix and ("Transport endpoint is not connected" in str(x) or "Resource temporarily unavailable" in str(x)) and backlog_retries[0] < 40:
                        # a unix-domain connect() fails at once with EAGAIN while the listener's backlog is full (the proxy then finds its socket
                        # unconnected): the kernel's queue, not the daemon's answer - this connection was never accepted. Try again.
                        backlog_retries[0] += 1
                        rec.count("unix_backlog_full_retries")
                        p._pyroRelease()
                        time.sleep(0.02)
                        attempt -= 1          # (not an attempt the daemon ever saw)
                        continue
                    results.append((tok, "error", "attempt %d of one Proxy object (after %d refusal(s)): %r" % (attempt + 1, attempt, x), None))
                    return
        except Exception as x:
            results.append(("c%d" % i, "error", repr(x), None))
        finally:
            p._pyroRelease()

    def client(i, delay, hold):
        if i % 4 == 3:
            return proxy_client(i, delay, hold)
        time.sleep(delay)
        tok = "c%d" % i
        try:
            c = wire.RawClient(fx.location, timeout=20.0)
            # every seventh client presents a connect message far larger than the socket buffers (a big per-proxy handshake object): it is
            # served, or told why not, like everybody else
            big = i % 7 == 5
            if big:
                rec.count("clients_with_huge_connect_message")
            m = c.handshake("svc", ser, handshake="h" * ((600 * 1024) if unix else (12 * 1024 * 1024))) if big else c.handshake("svc", ser)
            if m.type == wire.CONNECTOK:
                a = c.invoke("svc", "enter", (tok,), {}, ser)
                time.sleep(hold)
                b = c.invoke("svc", "leave", (tok,), {}, ser)
                results.append((tok, "served", ser.loads(a.data), ser.loads(b.data)))
            elif m.type == wire.CONNECTFAIL:
                results.append((tok, "refused", P.serializers.serializers_by_id[m.ser].loads(m.data), None))
            else:
                results.append((tok, "weird", m.type, None))
            c.close()
        except Exception as x:
            results.append((tok, "error", repr(x), None))
    ts = []
    for i in range(nclients):
        t = threading.Thread(target=client, args=(i, r.random() * 0.05, r.choice([0, 0.001, 0.005, 0.02])), daemon=True)
        ts.append(t)
        t.start()
    for t in ts:
        t.join(30)
    if inject:
        n, lines = yieldinj.disable()
        rec.count("injected_yields", n)
    pay = {"socket": True, "size": size, "nclients": nclients, "unix": unix}
    hung = [t for t in ts if t.is_alive()]
    try:
        if hung:
            rec.inconc("%d raw clients still waiting after the 30 s watchdog (left waiting?)" % len(hung))
            return
        for tok, outcome, a, b in results:
            i = tok
            rec.case(("sock", size, nclients, tok, outcome))
            if "." in tok:
                rec.count("proxy_retries_after_refusal")
            if outcome == "served":
                rec.count("socket_clients_served")
                if a != tok or b != tok or served_tokens.get(tok) != 1:
                    rec.violation("socket-client-misserved", "client %s: replies %r/%r, executions %r" % (i, a, b, served_tokens.get(tok)), pay)
            elif outcome == "refused":
                rec.count("socket_clients_refused")
                if "no free workers" not in str(a):
                    rec.violation("refusal-without-reason", "client %s refused with %r" % (i, a), pay)
                if served_tokens.get(tok):
                    rec.violation("refused-client-served", "client %s was refused but its call ran" % i, pay)
            else:
                rec.violation("connection-dropped-silently", "client %s neither served nor refused with a reason: %s %r" % (i, outcome, a), pay)
        if max_active[0] > size:
            rec.violation("too-many-workers", "%d clients were served concurrently with THREADPOOL_SIZE=%d" % (max_active[0], size), pay)
        # a full pool, for certain: `size` clients hold their connections; whoever comes now - also a client speaking a serializer this daemon
        # does not have (another implementation, a missing optional library) - is told at once that there are no free workers
        if fx.wait_until(lambda: fx.busy_count() == 0, 10.0):
            holders = []
            try:
                for _ in range(size):
                    h = wire.RawClient(fx.location, timeout=10.0)
                    if h.handshake("svc", ser).type == wire.CONNECTOK:
                        holders.append(h)
                if len(holders) == size and fx.wait_until(lambda: fx.busy_count() == size, 5.0):
                    for ser_id, label in ((ser.serializer_id, "known serializer"), (42, "unknown serializer id 42"), (0, "serializer id 0")):
                        c = wire.RawClient(fx.location, timeout=10.0)
                        try:
                            c.send(wire.encode(wire.CONNECT, 0, 0, ser_id, ser.dumps({"handshake": "hello", "object": "svc"})))
                            try:
                                m = c.recv_msg()
                                text = repr(P.serializers.serializers_by_id[m.ser].loads(m.data)) if m.type == wire.CONNECTFAIL else "message type %d" % m.type
                            except (EOFError, OSError) as x:
                                m, text = None, "no answer at all (%r)" % (x,)
                        finally:
                            c.close()
                        rec.case(("full-pool", size, label, unix))
                        if m is None or m.type != wire.CONNECTFAIL or "no free workers" not in text:
                            rec.violation("connection-dropped-silently" if m is None else "refusal-without-reason", "all %d workers busy; a client with a %s in its connect message got: %s" % (size, label, text), pay)
                            break
                        rec.count("full_pool_refusals_checked")
                    else:
                        # a client that is slow to say hello (its connect message comes seconds after its connection): the answer is the same
                        c = wire.RawClient(fx.location, timeout=15.0)
                        try:
                            time.sleep(2.6)
                            c.send(wire.encode(wire.CONNECT, 0, 0, ser.serializer_id, ser.dumps({"handshake": "hello", "object": "svc"})))
                            try:
                                m = c.recv_msg()
                                text = repr(P.serializers.serializers_by_id[m.ser].loads(m.data)) if m.type == wire.CONNECTFAIL else "message type %d" % m.type
                            except (EOFError, OSError) as x:
                                m, text = None, "no answer at all (%r)" % (x,)
                        finally:
                            c.close()
                        rec.case(("full-pool-slow-hello", size, unix))
                        if m is None or m.type != wire.CONNECTFAIL or "no free workers" not in text:
                            rec.violation("connection-dropped-silently" if m is None else "refusal-without-reason", "all %d workers busy; a client that sent its connect message 2.6 s after connecting got: %s" % (size, text), pay)
                        else:
                            rec.count("slow_hello_refusals_checked")
                        # THREADPOOL_SIZE is a configuration item like any other: the value it has when a connection arrives decides. Raised by
                        # two while the pool is full: not all THREADPOOL_SIZE workers are busy any more, two more clients are served, the third is
                        # refused. (Lowering the limit is not judged: idle workers of a larger pool are reused on the pinned tree, and the
                        # statement does not say when they have to go)
                        def attempt():
                            c = wire.RawClient(fx.location, timeout=10.0)
                            try:
                                m = c.handshake("svc", ser)
                            except (EOFError, OSError):
                                c.close()
                                return None, None
                            return c, m.type
                        saved_size = P.config.THREADPOOL_SIZE
                        try:
                            P.config.THREADPOOL_SIZE = size + 2
                            got = []
                            for _ in range(3):
                                c, t = attempt()
                                got.append("served" if t == wire.CONNECTOK else "refused" if t == wire.CONNECTFAIL else "dropped")
                                if c is not None:
                                    holders.append(c)
                            rec.case(("pool-resized-up", size, unix))
                            if got != ["served", "served", "refused"]:
                                rec.violation("pool-limit-not-followed", "THREADPOOL_SIZE raised from %d to %d while %d clients were connected: the next three clients were %r" % (size, size + 2, size, got), pay)
                            else:
                                rec.count("pool_resizes_followed")
                        finally:
                            P.config.THREADPOOL_SIZE = saved_size
            finally:
                for h in holders:
                    h.close()
        # accounting after the run
        ok = fx.wait_until(lambda: fx.busy_count() == 0, 10.0)
        if not ok:
            rec.violation("worker-stranded", "busy workers %r after all clients left" % fx.busy_count(), pay)
        pool = fx.pool()
        alive_workers = [t for t in threading.enumerate() if t.name.startswith("Pyro-Worker-")]
        rec.maxi("max_worker_threads_alive", len(alive_workers))
        for kind, text in fixture.take_faults():
            if kind == "thread-exception":
                rec.violation("server-thread-fault", text, pay)
    finally:
        yieldinj.disable()
        fx.stop()


def two_daemons_phase(P, rec, r):
    """Two thread-pool daemons in one process, the way a server that is also somebody else's client looks: daemon A's connection hooks
    (handshake validator, disconnect hook) report to an accounting object served by daemon B. B is idle and has free workers all the time,
    so every connection it accepts is served - whoever opens it, from whatever thread."""
    fxb = fixture.Fixture(servertype="thread", COMMTIMEOUT=0.0, THREADPOOL_SIZE=12, THREADPOOL_SIZE_MIN=2)
    fxa = fixture.Fixture(servertype="thread", COMMTIMEOUT=0.0, THREADPOOL_SIZE=12, THREADPOOL_SIZE_MIN=2)
    notes, outcomes, lock = [], [], threading.Lock()

    @P.server.expose
    class Accounting(object):
        def note(self, what):
            with lock:
                notes.append(what)
            return len(notes)

    @P.server.expose
    class Svc(object):
        def ping(self):
            return "pong"
    fxb.register(Accounting(), "acct")
    fxa.register(Svc(), "svc")

    def report(what):
        t0 = time.monotonic()
        try:
            with fxb.proxy("acct", serializer="marshal", timeout=12.0) as p:
                p.note(what)
            res = ("ok", None)
        except Exception as x:
            res = ("failed", repr(x))
        with lock:
            outcomes.append((what, res[0], res[1], round(time.monotonic() - t0, 2)))

    def validator(conn, data):
        report("hello")
        return "welcome"
    fxa.daemon.hs_validator = validator
    fxa.daemon.on_disconnect = lambda conn: report("bye")
    nclients = 6
    pay = {"two_daemons": True}
    rec.case(("two-daemons", nclients), nontrivial=True, sample=pay)
    errors = []

    def client(i):
        try:
            with fxa.proxy("svc", serializer="marshal", timeout=40.0) as p:
                for _ in range(2):
                    if p.ping() != "pong":
                        errors.append("wrong answer")
        except Exception as x:
            errors.append(repr(x))
    try:
        ts = [threading.Thread(target=client, args=(i,), daemon=True) for i in range(nclients)]
        for t in ts:
            t.start()
        for t in ts:
            t.join(60)
        fxa.wait_until(lambda: len(outcomes) >= 2 * nclients, 45.0)
        with lock:
            out = list(outcomes)
        bad = [o for o in out if o[1] != "ok"]
        if bad or len(out) < 2 * nclients:
            rec.violation("accepted-connection-left-waiting", "a second, idle thread-pool daemon in the same process (12 workers) did not serve connections opened from the first "
                          "daemon's connection hooks: %d of %d reports arrived; failures: %r; client errors: %r" % (len(out) - len(bad), 2 * nclients, bad[:3], errors[:2]), pay)
            return
        if errors:
            rec.inconc("two-daemons phase: client failed in the harness: %r" % errors[:2])
            return
        rec.count("hook_connections_to_sibling_daemon_served", len(out))
    finally:
        for f in (fxa, fxb):
            try:
                f.stop()
            except Exception:
                pass


def plan(tier, seed):
    shards = []
    cfgs = []
    for size in (1, 2, 3):
        for mn in range(1, size + 1):
            for jobs in ((2, 3) if tier == "quick" else (2, 3, 4, 5)):
                for closer in ("none", "same", "other"):
                    cfgs.append({"size": size, "min": mn, "jobs": jobs, "closer": closer})
    # jobs that end with an exception (first, last, all)
    for size in (1, 2, 3):
        for mn in range(1, size + 1):
            for closer in ("none", "same") if tier == "quick" else ("none", "same", "other"):
                for jobs in ((3,) if tier == "quick" else (3, 4)):
                    for raisers in ((0,), (jobs - 1,), tuple(range(jobs))):
                        if tier == "quick" and (size + mn + len(raisers) + (closer == "same")) % 2:
                            continue
                        cfgs.append({"size": size, "min": mn, "jobs": jobs, "closer": closer, "raisers": raisers})
    if tier == "quick":
        # grow - retire - grow again needs four jobs: a few such configurations also in the quick tier
        for size, mn in ((2, 1), (3, 1), (3, 2)):
            cfgs.append({"size": size, "min": mn, "jobs": 4, "closer": "none"})
    # jobs that end the worker's thread (sys.exit() inside the job)
    for size, mn, jobs, exiters in (((2, 1, 4, (0,)), (3, 2, 4, (1,)), (2, 2, 3, (0,)), (1, 1, 3, (0,))) if tier == "quick" else
                                    [(s_, m_, j_, e_) for s_ in (1, 2, 3) for m_ in range(1, s_ + 1) for j_ in (3, 4) for e_ in ((0,), (1,), (0, 2))]):
        cfgs.append({"size": size, "min": mn, "jobs": jobs, "closer": "none", "exiters": exiters})
    # a worker thread that cannot be started (Thread.start raises) when the pool grows: that job is lost, but the pool's books, later
    # refusals and close() must be as right as before
    for size, mn, jobs, closer, k in (((2, 1, 4, "none", 1), (3, 1, 4, "none", 2), (3, 2, 4, "none", 1), (2, 1, 3, "same", 1)) if tier == "quick" else
                                      [(s_, m_, j_, c_, k_) for s_ in (2, 3) for m_ in range(1, s_) for j_ in (3, 4, 5) for c_ in ("none", "same", "other") for k_ in (1, 2)]):
        cfgs.append({"size": size, "min": mn, "jobs": jobs, "closer": closer, "start_fault": k})
    for i, cfg in enumerate(cfgs):
        deep = tier == "quick" and cfg["jobs"] == 4
        shards.append({"kind": "sched", "cfg": cfg, "bound": (2 if deep else 1) if tier == "quick" else 2, "nrandom": (400 if deep else 40) if tier == "quick" else 1500,
                       "npct": (200 if deep else 20) if tier == "quick" else 600, "max_runs": (2500 if deep else 250) if tier == "quick" else 12000})
    for i in range(2 if tier == "quick" else 12):
        shards.append({"kind": "socket", "i": i, "runs": 2 if tier == "quick" else 5})
    return shards


def run_shard(shard, rec):
    P = fixture.pyro()
    import Pyro5.svr_threads
    P.svr_threads = Pyro5.svr_threads
    r = gen.rng(rec.seed, "c18", repr(shard))
    if shard["kind"] == "sched":
        cfg = dict(shard["cfg"], max_runs=shard["max_runs"])
        explore(P, cfg, shard["bound"], shard["nrandom"], shard["npct"], rec, r)
        return
    if shard["i"] == 0:
        two_daemons_phase(P, rec, r)
    for run in range(shard["runs"]):
        if rec.should_stop(6):
            break
        size = r.choice([2, 3])
        socket_run(P, rec, r, size, r.choice([20, 40, 60]) if rec.tier == "quick" else r.choice([20, 60, 120, 200]), inject=True, unix=(run + shard["i"]) % 2 == 1)


def replay(payload, rec):
    P = fixture.pyro()
    import Pyro5.svr_threads
    P.svr_threads = Pyro5.svr_threads
    if payload.get("two_daemons"):
        two_daemons_phase(P, rec, gen.rng(0, "replay"))
        return
    if payload.get("socket"):
        socket_run(P, rec, gen.rng(0, "replay"), payload["size"], payload["nclients"], True, unix=payload.get("unix", False))
        return
    sc, res, mon = controlled_run(P, payload["cfg"], payload["choices"], None)
    rec.case(("replay", repr(payload)[:100]))
    print("cfg", payload["cfg"])
    for t in res.trace:
        print("  thread %s line %s" % t)
    judge(payload["cfg"], res, mon, rec, payload)
