"""E5 (cheap mode): seeded yield/sleep injection into free-running threads through sys.monitoring LINE events.
Only statement-start lines of code objects from the chosen repository files fire; the callback sleeps for a few
microseconds with a seeded probability, which releases the GIL and manufactures interleavings the program can have."""
import random
import sys
import threading
import time

TOOL = 3          # coverage uses 1
_state = {"on": False, "files": (), "prob": 0.0, "rng": None, "lock": threading.Lock(), "count": 0, "lines": 0, "max_sleep": 0.002, "delay_funcs": ()}


def _line(code, lineno):
    st = _state
    if not st["on"]:
        return sys.monitoring.DISABLE
    fn = code.co_filename
    for suffix, name, dur in st["delay_funcs"]:
        # named functions whose every line is delayed (e.g. the entry of a freshly started thread): widens one specific window
        if code.co_name == name and fn.endswith(suffix):
            with st["lock"]:
                st["count"] += 1
            time.sleep(dur)
            return None
    if not fn.endswith(st["files"]):
        return sys.monitoring.DISABLE
    with st["lock"]:
        st["lines"] += 1
        x = st["rng"].random()
        if x >= st["prob"]:
            return None
        st["count"] += 1
        d = st["rng"].random()
    if d < 0.6:
        time.sleep(0)
    else:
        time.sleep(d * st["max_sleep"])
    return None


def enable(files, prob, seed, max_sleep=0.002, delay_funcs=()):
    """files: tuple of filename suffixes, e.g. ('Pyro5/server.py',); delay_funcs: (filename suffix, function name, seconds per line)"""
    mon = sys.monitoring
    _state.update(on=True, files=tuple(files), prob=prob, rng=random.Random(seed), count=0, lines=0, max_sleep=max_sleep, delay_funcs=tuple(delay_funcs))
    try:
        mon.use_tool_id(TOOL, "verif-yield")
    except ValueError:
        pass
    mon.register_callback(TOOL, mon.events.LINE, _line)
    mon.set_events(TOOL, mon.events.LINE)
    mon.restart_events()


def disable():
    mon = sys.monitoring
    _state["on"] = False
    try:
        mon.set_events(TOOL, 0)
        mon.register_callback(TOOL, mon.events.LINE, None)
        mon.free_tool_id(TOOL)
    except Exception:
        pass
    return _state["count"], _state["lines"]
