"""E3: daemon fixture and probes. Starts a real Daemon (thread pool or multiplex, TCP loopback or
unix socket) in a thread; monitoring attaches only through public override points."""
import itertools
import os
import sys
import threading
import weakref
import time
import warnings

from vlib import core

FAULTS = []            # unhandled exceptions in threads / unraisable / ResourceWarnings: (kind, text)
_hooks_installed = False
_flock = threading.Lock()


def install_fault_hooks():
    global _hooks_installed
    if _hooks_installed:
        return
    _hooks_installed = True

    def thook(args):
        import traceback
        with _flock:
            FAULTS.append(("thread-exception", "%s in thread %s: %s" % (
                args.exc_type.__name__, getattr(args.thread, "name", "?"),
                "".join(traceback.format_exception(args.exc_type, args.exc_value, args.exc_traceback))[-1200:])))

    def uhook(u):
        with _flock:
            FAULTS.append(("unraisable", "%r %r in %r" % (u.exc_type, u.exc_value, u.object)))

    threading.excepthook = thook
    sys.unraisablehook = uhook
    warnings.simplefilter("always", ResourceWarning)
    orig_show = warnings.showwarning

    def show(message, category, filename, lineno, file=None, line=None):
        if issubclass(category, ResourceWarning):
            with _flock:
                FAULTS.append(("resource-warning", "%s (%s:%s)" % (message, filename, lineno)))
            return
        # other warnings (Pyro warns about classes exposing nothing etc.) are not faults
    warnings.showwarning = show


def take_faults():
    with _flock:
        out = list(FAULTS)
        del FAULTS[:]
    return out


class EventLog:
    """append-only log stamped by one global logical clock (a counter under a lock)"""

    def __init__(self):
        self._lock = threading.Lock()
        self._clock = itertools.count(1)
        self.events = []

    def add(self, kind, *data):
        with self._lock:
            t = next(self._clock)
            self.events.append((t, kind) + data)
            return t

    def of(self, kind):
        with self._lock:
            return [e for e in self.events if e[1] == kind]

    def snapshot(self):
        with self._lock:
            return list(self.events)

    def clear(self):
        with self._lock:
            del self.events[:]


_unix_counter = itertools.count()


def pyro():
    """import the repo's Pyro5 (asserting where it comes from) and return commonly used modules"""
    core.assert_repo()
    import Pyro5.api
    import Pyro5.server
    import Pyro5.client
    import Pyro5.errors
    import Pyro5.protocol
    import Pyro5.serializers
    import Pyro5.socketutil
    import Pyro5.core
    import Pyro5.callcontext
    import Pyro5
    enable_logging_for_some_shards()
    return Pyro5


LOGGING_ON = [False]


def enable_logging_for_some_shards():
    """every third shard process runs with Pyro5's logging switched on (level DEBUG, records discarded by a NullHandler): whatever the
    library does only when somebody listens to its log - formatting arguments, helper calls - runs there too"""
    if LOGGING_ON[0] or int(os.environ.get("VERIF_SHARD_INDEX", "0")) % 3 != 1:
        return
    import logging
    lg = logging.getLogger("Pyro5")
    lg.addHandler(logging.NullHandler())
    lg.setLevel(logging.DEBUG)
    lg.propagate = False
    LOGGING_ON[0] = True


def make_monitored_daemon_class(base=None, hooks_on_instance=False):
    """hooks_on_instance: the application's handshake validator and disconnect hook are not methods of a Daemon subclass but callables
    assigned on the daemon instance after it was constructed (the other way applications install them)"""
    P = pyro()
    base = base or P.server.Daemon

    class MonitoredDaemon(base):
        """only public override points: validateHandshake, clientDisconnect"""
        _serials = itertools.count(1)
        _serial_lock = threading.Lock()

        def __init__(self, *a, **k):
            self.evlog = EventLog()
            self.hs_validator = None
            self.on_disconnect = None
            self.conn_refs = {}                 # connection serial -> weakref to the server-side SocketConnection
            self.reply_annotations = None       # dict: sent with every response (the documented Daemon.annotations() override point)
            super().__init__(*a, **k)
            if hooks_on_instance:
                self.validateHandshake = self._monitored_validate
                self.clientDisconnect = self._monitored_disconnect

        def annotations(self):
            # (the application's own long-lived dict is handed out, not a copy: that is what a subclass returning a member does)
            return self.reply_annotations if self.reply_annotations else {}

        def _monitored_validate(self, conn, data):
            with MonitoredDaemon._serial_lock:
                serial = next(MonitoredDaemon._serials)
            # never key connections by id(conn): ids are reused; stamp a serial on the object
            conn._vserial = serial
            self.conn_refs[serial] = weakref.ref(conn)
            self.evlog.add("handshake", serial, data if isinstance(data, (str, int, type(None))) else repr(data)[:100])
            if self.hs_validator is not None:
                return self.hs_validator(conn, data)
            return "hello"

        def _monitored_disconnect(self, conn):
            self.evlog.add("disconnect", getattr(conn, "_vserial", None))
            if self.on_disconnect is not None:
                self.on_disconnect(conn)

    if not hooks_on_instance:
        MonitoredDaemon.validateHandshake = MonitoredDaemon._monitored_validate
        MonitoredDaemon.clientDisconnect = MonitoredDaemon._monitored_disconnect
    return MonitoredDaemon


# configuration values the properties do not depend on: a daemon may run under any of these combinations (one per shard, picked from the
# seed), so that a change that only misbehaves under a non-default setting is still driven
VARIANTS = [
    ("default", {}),
    ("compression", {"COMPRESSION": True}),
    ("detailed-traceback", {"DETAILED_TRACEBACK": True}),
    ("nodelay+logwire", {"SOCK_NODELAY": True, "LOGWIRE": True}),
    ("compression+detailed-traceback+nodelay", {"COMPRESSION": True, "DETAILED_TRACEBACK": True, "SOCK_NODELAY": True}),
]
VARIANT_DEFAULTS = {"COMPRESSION": False, "DETAILED_TRACEBACK": False, "SOCK_NODELAY": False, "LOGWIRE": False}


LAST_VARIANT = None
FORCED_VARIANT = None


def variant_for(seed, *salt):
    # (the upper half of the range: the same configurations, with the application's hooks assigned on the daemon instance)
    return core.h64(repr((seed,) + salt)) % (2 * len(VARIANTS))


_ssl_files = None


def ssl_files():
    """a fresh self-signed certificate for 127.0.0.1 / localhost, made once per process with the openssl command line tool (the certificates
    shipped in the repository's certs/ directory have expired on this machine's clock, so a verifying Pyro client would refuse them)"""
    global _ssl_files
    if _ssl_files is None:
        import atexit
        import shutil
        import subprocess
        d = os.path.join(core.VERIF, ".work", "ssl-%d" % os.getpid())
        os.makedirs(d, exist_ok=True)
        key, cert = os.path.join(d, "key.pem"), os.path.join(d, "cert.pem")
        subprocess.run(["openssl", "req", "-x509", "-newkey", "ec", "-pkeyopt", "ec_paramgen_curve:prime256v1", "-nodes", "-keyout", key, "-out", cert, "-days", "3", "-subj", "/CN=localhost",
                        "-addext", "subjectAltName=IP:127.0.0.1,DNS:localhost"], check=True, capture_output=True, timeout=120)
        atexit.register(shutil.rmtree, d, True)
        _ssl_files = (cert, key)
    return _ssl_files


class Fixture:
    def __init__(self, servertype="thread", unix=False, daemon_cls=None, interface=None, variant=None, start_loop=True, ssl=False, **cfg):
        P = pyro()
        install_fault_hooks()
        self.P = P
        config = P.config
        self.ssl = bool(ssl) and not unix
        from vlib import wire as _wire
        if self.ssl:
            # the daemon speaks TLS (config.SSL): Proxy clients verify the certificate made for this process, raw clients wrap their socket
            cert, key = ssl_files()
            config.SSL, config.SSL_SERVERCERT, config.SSL_SERVERKEY, config.SSL_CACERTS, config.SSL_REQUIRECLIENTCERT = True, cert, key, cert, False
        else:
            config.SSL = False
        _wire.DEFAULT_SSL = self.ssl
        config.SERVERTYPE = servertype
        config.POLLTIMEOUT = cfg.pop("POLLTIMEOUT", 0.5)
        global LAST_VARIANT
        self.variant = "unvaried"
        if FORCED_VARIANT is not None:
            variant = FORCED_VARIANT      # replaying a recorded witness: the same configuration variant
        hooks_on_instance = False
        if variant is not None:
            LAST_VARIANT = variant % (2 * len(VARIANTS))
            self.variant, vcfg = VARIANTS[variant % len(VARIANTS)]
            hooks_on_instance = LAST_VARIANT >= len(VARIANTS)
            if hooks_on_instance:
                self.variant += "+hooks-on-instance"
            for k, v in dict(VARIANT_DEFAULTS, **vcfg).items():
                setattr(config, k, v)
        for k, v in cfg.items():
            setattr(config, k, v)
        self.servertype = servertype
        cls = daemon_cls or make_monitored_daemon_class(hooks_on_instance=hooks_on_instance)
        kw = {}
        if interface is not None:
            kw["interface"] = interface
        if unix:
            d = os.path.join(core.VERIF, ".work", "sock")
            os.makedirs(d, exist_ok=True)
            self.sockpath = os.path.join(d, "s%d-%d" % (os.getpid(), next(_unix_counter)))
            if os.path.exists(self.sockpath):
                os.remove(self.sockpath)
            self.daemon = cls(unixsocket=self.sockpath, **kw)
            self.location = self.sockpath
        else:
            self.sockpath = None
            self.daemon = cls(host="127.0.0.1", port=0, **kw)
            host, port = self.daemon.locationStr.rsplit(":", 1)
            self.location = (host, int(port))
        self.thread = threading.Thread(target=self._loop, name="daemon-loop", daemon=True)
        self.loop_exc = None
        if start_loop:          # (a daemon that is going to be combined into another daemon's loop does not run one of its own)
            self.thread.start()

    def _loop(self):
        try:
            self.daemon.requestLoop()
        except BaseException as x:      # the request loop dying is an observation, not a crash of the harness
            self.loop_exc = x

    # -- helpers ------------------------------------------------------------------------------
    def register(self, obj, objid=None, **kw):
        return self.daemon.register(obj, objid, **kw)

    def uri(self, objid):
        return "PYRO:%s@%s" % (objid, self.daemon.locationStr)

    def proxy(self, objid, serializer=None, timeout=None, retries=None):
        p = self.P.client.Proxy(self.uri(objid))
        if serializer:
            p._pyroSerializer = serializer
        if timeout is not None:
            p._pyroTimeout = timeout
        if retries is not None:
            p._pyroMaxRetries = retries
        return p

    def loop_alive(self):
        return self.thread.is_alive() and self.loop_exc is None

    # -- probes: state the code already has -----------------------------------------------------
    def pool(self):
        ts = self.daemon.transportServer
        return getattr(ts, "pool", None)

    def busy_count(self):
        p = self.pool()
        return len(p.busy) if p is not None else None

    def idle_count(self):
        p = self.pool()
        return len(p.idle) if p is not None else None

    def selector_conns(self):
        """multiplex: registered file objects other than the server socket"""
        ts = self.daemon.transportServer
        m = ts.selector.get_map()
        # (client connections only: server sockets of combined daemons and other event sources in the same loop are not connections)
        return [k.fileobj for k in list(m.values()) if isinstance(k.fileobj, self.P.socketutil.SocketConnection)]

    def live_connection_count(self):
        if self.servertype == "thread":
            return self.busy_count()
        return len(self.selector_conns())

    def server_side_closed(self, serial):
        """True once the daemon has closed (or dropped) its end of the connection with this serial"""
        ref = getattr(self.daemon, "conn_refs", {}).get(serial)
        conn = ref() if ref is not None else None
        if conn is None:
            return True
        try:
            return conn.sock.fileno() == -1
        except Exception:
            return True

    def wait_until(self, pred, timeout=10.0, step=0.005):
        """bounded wait; returns True if pred() became true (the caller treats False as inconclusive)"""
        end = time.time() + timeout
        while time.time() < end:
            try:
                if pred():
                    return True
            except Exception:
                pass
            time.sleep(step)
        return bool(pred())

    def stop(self):
        try:
            self.daemon.shutdown()
        except Exception:
            pass
        if self.ssl:
            from vlib import wire as _wire
            self.P.config.SSL = False
            _wire.DEFAULT_SSL = False
        if self.thread.ident is not None:
            self.thread.join(5)
        if self.sockpath and os.path.exists(self.sockpath):
            try:
                os.remove(self.sockpath)
            except OSError:
                pass


SERIALIZERS = ["serpent", "json", "marshal", "msgpack"]
