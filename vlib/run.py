"""CLI: python -m vlib.run Cxx [--tier quick|thorough] [--replay file] | --shard spec --out file"""
import argparse
import os
import sys


def main():
    ap = argparse.ArgumentParser()
    ap.add_argument("prop", nargs="?")
    ap.add_argument("--tier", default=None)
    ap.add_argument("--replay", default=None)
    ap.add_argument("--shard", default=None)
    ap.add_argument("--out", default=None)
    ap.add_argument("--jobs", type=int, default=None)
    a = ap.parse_args()
    from vlib import core
    if a.shard:
        core.shard_main(a.shard, a.out)
        return 0
    tier = a.tier or os.environ.get("VERIF_TIER") or "quick"
    if tier not in ("quick", "thorough"):
        tier = "quick"
    try:
        seed = int(os.environ.get("VERIF_SEED", "0"))
    except ValueError:
        seed = 0
    return core.main_check(a.prop, tier, seed, a.replay, a.jobs)


if __name__ == "__main__":
    sys.exit(main())
