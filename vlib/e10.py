"""E10 driver: run the repository's own test-suite with the contracts of one property family switched on (thorough tier)."""
import json
import os
import subprocess
import sys
import tempfile

from vlib import core


def run_e10(prop, rec):
    out = tempfile.mktemp(prefix="e10-", suffix=".json", dir=os.path.join(core.VERIF, ".work"))
    env = dict(os.environ, E10_OUT=out, E10_PROPS=prop, PYTHONPATH=os.pathsep.join([core.REPO, core.VERIF, os.path.join(core.VERIF, ".deps")]))
    try:
        import importlib.util
        if importlib.util.find_spec("icontract") is None:
            rec.inconc("E10: icontract is not installed (setup.sh installs it from /opt/veriftools/wheels)")
            return
        p = subprocess.run([sys.executable, "-m", "pytest", "-q", "-p", "no:cacheprovider", "-p", "vlib.e10_plugin", "--timeout=900", "tests"],
                           cwd=core.REPO, env=env, capture_output=True, text=True, timeout=1500)
        if not os.path.exists(out):
            rec.inconc("E10: the test run produced no contract record: %s" % p.stdout[-300:])
            return
        data = json.load(open(out))
        n = sum(v for k, v in data["evaluations"].items() if k.startswith(prop + ":"))
        rec.count("e10_contract_evaluations", n)
        for k, v in data["evaluations"].items():
            rec.case(("e10", k), nontrivial=True, sample={"e10_family": k, "evaluations_during_repo_tests": v})
        if n == 0:
            rec.inconc("E10: zero contract evaluations for %s (references bound before decoration?)" % prop)
        for b in data["broken"]:
            if b["family"].startswith(prop + ":"):
                rec.violation("e10-contract-broken:" + b["family"], "while the repository's own tests ran: " + b["detail"], {"e10": b})
        rec.note("e10_pytest_tail", p.stdout.strip().splitlines()[-1] if p.stdout.strip() else "")
    except subprocess.TimeoutExpired:
        rec.inconc("E10: test run timed out")
    finally:
        if os.path.exists(out):
            os.remove(out)
