"""E7: sandbox monitor. A process-wide audit hook, armed thread-locally only while the code under
test runs. Calibrated allow-list for deserialisation: {compile (serpent's ast.literal_eval),
marshal.loads}. Everything else is recorded and reported by the caller."""
import sys
import threading

_state = threading.local()
_installed = False
# (builtins.id and sys._getframe* are raised by id() and by warnings/logging looking at the caller's frame: introspection, not one of the
# actions the property forbids - a decoder may do that without harm)
ALLOW = {"compile", "marshal.loads", "builtins.id", "sys._getframe", "sys._getframemodulename"}


def _hook(event, args):
    buf = getattr(_state, "events", None)
    if buf is None:
        return
    if event in ALLOW or (event == "object.__getattr__" and len(args) > 1 and isinstance(args[1], str) and args[1].startswith(("f_", "co_", "tb_"))):
        # (reading f_code / f_back / co_filename of a frame is what logging.findCaller does when somebody listens to the log)
        c = _state.allowed
        c[event] = c.get(event, 0) + 1
        return
    # keep it cheap and reentrancy-safe: no repr of arbitrary objects while armed
    _state.events = None
    try:
        try:
            detail = tuple(a if isinstance(a, (str, int, bytes, type(None))) else type(a).__name__ for a in args)[:4]
        except Exception:
            detail = ("?",)
        buf.append((event, detail))
    finally:
        _state.events = buf


def install():
    global _installed
    if not _installed:
        sys.addaudithook(_hook)
        _installed = True


class armed:
    """with armed() as s: ... ; s.events -> [(event, detail)], s.allowed -> {event: count}"""

    def __enter__(self):
        install()
        self.events = []
        self.allowed = {}
        _state.allowed = self.allowed
        _state.events = self.events
        return self

    def __exit__(self, *exc):
        _state.events = None
        return False
