"""E2: reference wire codec written from the header table in protocol.py's *docstring*
(not from its code), a well-formedness predicate, and a raw socket client that bypasses
Proxy's client-side filtering.

    0x00 4s 'PYRO' | 0x04 H version | 0x06 B type | 0x07 B serializer | 0x08 H flags | 0x0a H seq
    0x0c I data length | 0x10 I annotations length | 0x14 16s correlation uuid | 0x24 H reserved | 0x26 H magic 0x4dc5
    annotation chunk: 4s id (ASCII) | I length | data
"""
import socket
import time
import struct
import zlib

VERSION = 502
MAGIC = 0x4DC5
HDR = 40
CONNECT, CONNECTOK, CONNECTFAIL, INVOKE, RESULT, PING = 1, 2, 3, 4, 5, 6
F_EXC, F_COMPRESSED, F_ONEWAY, F_BATCH, F_STREAM, F_KEEPSER, F_CORR = 1, 2, 4, 8, 16, 32, 64


class WireError(Exception):
    pass


def u16(v):
    return bytes([(v >> 8) & 255, v & 255])


def u32(v):
    return bytes([(v >> 24) & 255, (v >> 16) & 255, (v >> 8) & 255, v & 255])


def encode(msgtype, flags, seq, ser, data, anns=(), corr=b"\0" * 16, version=VERSION, magic=MAGIC, reserved=0,
           data_len=None, ann_len=None, tag=b"PYRO"):
    """anns: sequence of (id: bytes(4), value: bytes). Length fields can be overridden to build ill-formed messages."""
    ann = b"".join(bytes(i) + u32(len(v)) + bytes(v) for i, v in anns)
    if data_len is None:
        data_len = len(data)
    if ann_len is None:
        ann_len = len(ann)
    return (tag + u16(version) + bytes([msgtype & 255, ser & 255]) + u16(flags) + u16(seq) + u32(data_len) + u32(ann_len)
            + corr + u16(reserved) + u16(magic) + ann + bytes(data))


class Msg:
    __slots__ = ("type", "flags", "seq", "ser", "data", "anns", "corr", "raw_flags", "data_len", "ann_len", "total")

    def __repr__(self):
        return "Msg(type=%d flags=%d seq=%d ser=%d data=%r anns=%r)" % (self.type, self.flags, self.seq, self.ser, bytes(self.data)[:60], self.anns)


def parse_header(h):
    if len(h) < HDR:
        raise WireError("short header")
    if h[0:4] != b"PYRO":
        raise WireError("bad tag")
    if (h[4] << 8 | h[5]) != VERSION:
        raise WireError("bad version")
    if (h[38] << 8 | h[39]) != MAGIC:
        raise WireError("bad magic")
    m = Msg()
    m.type, m.ser = h[6], h[7]
    m.raw_flags = m.flags = h[8] << 8 | h[9]
    m.seq = h[10] << 8 | h[11]
    m.data_len = int.from_bytes(h[12:16], "big")
    m.ann_len = int.from_bytes(h[16:20], "big")
    m.corr = bytes(h[20:36])
    m.total = HDR + m.data_len + m.ann_len
    return m


def decode(buf, max_size=None):
    """Reference decoder of exactly one message occupying the whole of buf. Raises WireError unless well-formed."""
    buf = bytes(buf)
    m = parse_header(buf)
    if max_size is not None and m.data_len + m.ann_len > max_size:
        raise WireError("too large")
    if len(buf) != m.total:
        raise WireError("length fields do not match the bytes")
    anns = {}
    i, end = HDR, HDR + m.ann_len
    while i < end:
        if i + 8 > end:
            raise WireError("annotation chunk header crosses the annotation area")
        aid = buf[i:i + 4]
        if any(c > 127 for c in aid):
            raise WireError("non-ascii annotation id")
        ln = int.from_bytes(buf[i + 4:i + 8], "big")
        if i + 8 + ln > end:
            raise WireError("annotation chunk overruns the annotation area")
        anns[aid.decode("ascii")] = buf[i + 8:i + 8 + ln]
        i += 8 + ln
    data = buf[end:]
    if m.flags & F_COMPRESSED:
        try:
            data = zlib.decompress(data)
        except zlib.error as x:
            raise WireError("bad zlib data: %s" % x)
        m.flags &= ~F_COMPRESSED
    m.data, m.anns = data, anns
    return m


def well_formed(buf, max_size=None):
    try:
        decode(buf, max_size)
        return True
    except WireError:
        return False


# ---- raw client --------------------------------------------------------------------------------
DEFAULT_SSL = False         # set by the fixture while a TLS daemon is under test


class RawClient:
    """Speaks the wire protocol directly; no metadata checks, no sequence checks, arbitrary bytes allowed."""

    def __init__(self, location, timeout=5.0, use_ssl=None):
        if isinstance(location, str):
            self.sock = socket.socket(socket.AF_UNIX, socket.SOCK_STREAM)
        else:
            self.sock = socket.socket(socket.AF_INET, socket.SOCK_STREAM)
            self.sock.setsockopt(socket.IPPROTO_TCP, socket.TCP_NODELAY, 1)
        self.sock.settimeout(timeout)
        if isinstance(location, str):
            # a unix-domain connect() fails at once with EAGAIN while the listener's backlog is full (TCP would wait): that is the kernel's
            # queue, not the daemon's answer, so the client just tries again for a while
            end = time.time() + max(timeout or 5.0, 5.0)
            while True:
                try:
                    self.sock.connect(location)
                    break
                except BlockingIOError:
                    if time.time() > end:
                        raise
                    time.sleep(0.005)
        else:
            self.sock.connect(location)
            if DEFAULT_SSL if use_ssl is None else use_ssl:
                # the daemon under test speaks TLS: a raw client that does not care whose certificate it is shown
                import ssl as _ssl
                ctx = _ssl.SSLContext(_ssl.PROTOCOL_TLS_CLIENT)
                ctx.check_hostname = False
                ctx.verify_mode = _ssl.CERT_NONE
                self.sock = ctx.wrap_socket(self.sock)
        self.seq = 0

    def local(self):
        return self.sock.getsockname()

    def send(self, b):
        self.sock.sendall(b)

    def recv_exact(self, n):
        buf = bytearray()
        while len(buf) < n:
            c = self.sock.recv(n - len(buf))
            if not c:
                raise EOFError(bytes(buf))
            buf += c
        return bytes(buf)

    def recv_msg(self):
        """returns Msg; EOFError if the peer closed; socket.timeout if nothing arrives"""
        h = self.recv_exact(HDR)
        m = parse_header(h)
        body = self.recv_exact(m.data_len + m.ann_len)
        return decode(h + body)

    def expect_eof(self, timeout=5.0):
        """True if the peer has closed/reset (within the watchdog), False if data arrives, None if still open"""
        self.sock.settimeout(timeout)
        try:
            c = self.sock.recv(1)
            return True if c == b"" else False
        except (ConnectionResetError, BrokenPipeError):
            return True
        except socket.timeout:
            return None
        except OSError:
            return True

    def drain_eof(self, timeout=5.0):
        """reads whatever the peer still sends; True once the end of the stream (or a reset) is seen, None if the stream is still open after the watchdog"""
        end = time.time() + timeout
        while True:
            self.sock.settimeout(max(0.05, end - time.time()))
            try:
                if self.sock.recv(65536) == b"":
                    return True
            except (ConnectionResetError, BrokenPipeError):
                return True
            except socket.timeout:
                return None
            except OSError:
                return True
            if time.time() > end:
                return None

    def handshake(self, objid, ser, handshake="hello", anns=(), corr=None, flags=0):
        data = ser.dumps({"handshake": handshake, "object": objid})
        f = flags | (F_CORR if corr else 0)
        self.send(encode(CONNECT, f, self.seq, ser.serializer_id, data, anns, corr or b"\0" * 16))
        return self.recv_msg()

    def invoke(self, objid, method, vargs, kwargs, ser, flags=0, anns=(), corr=None, seq=None, read=True):
        if seq is None:
            self.seq = (self.seq + 1) & 0xFFFF
            seq = self.seq
        data = ser.dumpsCall(objid, method, vargs, kwargs)
        f = flags | (F_CORR if corr else 0)
        self.send(encode(INVOKE, f, seq, ser.serializer_id, data, anns, corr or b"\0" * 16))
        if read and not (flags & F_ONEWAY):
            return self.recv_msg()
        return None

    def ping(self, seq=0, ser_id=42):
        self.send(encode(PING, 0, seq, ser_id, b"ping"))
        return self.recv_msg()

    def close(self, rst=False):
        try:
            if rst:
                self.sock.setsockopt(socket.SOL_SOCKET, socket.SO_LINGER, struct.pack("ii", 1, 0))
        except OSError:
            pass
        try:
            self.sock.close()
        except OSError:
            pass
