"""Linearizability checker (Wing-Gong search with memoisation on (linearised set, model state)).

ops: list of dicts {id, call, ret, op, args, result}; ret may be None for operations that never returned (they stay open:
they may take effect at any point after their call, or never).
model: object with  init() -> state (hashable) ; apply(state, op, args) -> (new_state, result)."""
import time


def check(ops, model, init_state, timeout=5.0):
    """returns (True, order) | (False, None) | (None, None) on timeout (inconclusive)"""
    t0 = time.time()
    n = len(ops)
    INF = float("inf")
    rets = [o["ret"] if o["ret"] is not None else INF for o in ops]
    calls = [o["call"] for o in ops]
    complete = frozenset(i for i, o in enumerate(ops) if o["ret"] is not None)
    memo = set()
    order = []

    def rec(done, state):
        if complete <= done:
            return True
        key = (done, state)
        if key in memo:
            return False
        if time.time() - t0 > timeout:
            raise TimeoutError()
        remaining = [i for i in range(n) if i not in done]
        minret = min(rets[i] for i in remaining)
        for i in remaining:
            if calls[i] > minret:
                continue          # some remaining op returned before this one was even called: it must come first
            new_state, result = model.apply(state, ops[i]["op"], ops[i]["args"])
            if ops[i]["ret"] is not None and result != ops[i]["result"]:
                continue
            order.append(i)
            if rec(done | {i}, new_state):
                return True
            order.pop()
        memo.add(key)
        return False
    try:
        ok = rec(frozenset(), init_state)
    except TimeoutError:
        return None, None
    return (True, list(order)) if ok else (False, None)
