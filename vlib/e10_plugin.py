"""E10: pytest plugin that puts icontract post-conditions on real functions of the repository while its own test-suite
runs (secondary workload: every URI the tests parse, every message they build, every socket read they make, every class
dict they decode). The conditions *record and return True*, so they never change what a test observes.

Enabled with  -p vlib.e10_plugin ; E10_PROPS selects the contract families (e.g. "C19,C06"); E10_OUT is the result file."""
import json
import os
import threading

_lock = threading.Lock()
EVAL = {}
BROKEN = []


class ContractBroken(Exception):
    pass


def _note(family, ok, detail=None):
    with _lock:
        EVAL[family] = EVAL.get(family, 0) + 1
        if not ok and len(BROKEN) < 50:
            BROKEN.append({"family": family, "detail": str(detail)[:600]})


def pytest_configure(config):
    import icontract
    props = set(os.environ.get("E10_PROPS", "C19,C06,C17,C04").split(","))
    import Pyro5.core
    import Pyro5.protocol
    import Pyro5.socketutil
    import Pyro5.serializers
    from vlib import wire

    if "C19" in props:
        URI = Pyro5.core.URI

        def uri_text_form_roundtrips(self, uri):
            try:
                if not isinstance(uri, str):
                    return True
                known = self.host == "./u" or (self.protocol == "PYROMETA" and ("" in self.object or any("@" in t for t in self.object)))
                t = str(self)
                u2 = URI.__new__(URI)
                orig_init(u2, t)
                ok = (u2 == self) and str(u2) == t
                _note("C19:uri-init", ok or known, "URI(%r) -> text %r -> %r" % (uri, t, u2.__getstate__()))
            except Exception as x:
                _note("C19:uri-init", False, "URI(%r): text form %r raised %r" % (uri, str(self), x))
            return True
        orig_init = URI.__init__
        URI.__init__ = icontract.ensure(uri_text_form_roundtrips, error=ContractBroken)(URI.__init__)

    if "C06" in props:
        SM = Pyro5.protocol.SendingMessage
        RM = Pyro5.protocol.ReceivingMessage

        def built_message_is_wellformed(self, msgtype, flags, seq, serializer_id, payload, annotations):
            if Pyro5.protocol.PROTOCOL_VERSION != wire.VERSION:
                return True       # a test patched the protocol version to build a deliberately invalid message
            try:
                m = wire.decode(bytes(self.data))
                exp_ann = {k: bytes(v) for k, v in (annotations or {}).items()}
                ok = (m.type, m.seq, m.ser, bytes(m.data), m.anns) == (msgtype, seq, serializer_id, bytes(payload), exp_ann) and \
                     (m.flags & ~wire.F_CORR) == (flags & ~wire.F_COMPRESSED & ~wire.F_CORR)
                _note("C06:sending-message", ok, "type=%r flags=%r seq=%r payload=%r -> reference decodes %r" % (msgtype, flags, seq, bytes(payload)[:40], m))
            except Exception as x:
                _note("C06:sending-message", False, "reference decoder rejects a built message: %r" % (x,))
            return True
        SM.__init__ = icontract.ensure(built_message_is_wellformed, error=ContractBroken)(SM.__init__)

        def accepted_payload_is_wellformed(self, payload):
            try:
                ok = len(self.data) == self.data_size and all(len(k) == 4 for k in self.annotations)
                _note("C06:add-payload", ok, "data_size=%r len(data)=%r annotations=%r" % (self.data_size, len(self.data), list(self.annotations)))
            except Exception as x:
                _note("C06:add-payload", False, repr(x))
            return True
        RM.add_payload = icontract.ensure(accepted_payload_is_wellformed, error=ContractBroken)(RM.add_payload)

    if "C17" in props:
        su = Pyro5.socketutil

        def returns_exactly_size_bytes(sock, size, result):
            _note("C17:receive-data", len(result) == size, "asked for %r bytes, got %r" % (size, len(result)))
            return True
        su.receive_data = icontract.ensure(returns_exactly_size_bytes, error=ContractBroken)(su.receive_data)

    if "C04" in props:
        SB = Pyro5.serializers.SerializerBase
        import builtins
        import sqlite3
        import struct
        allowed = [Pyro5.core.URI, Pyro5.core._ExceptionWrapper, Pyro5.serializers.SerializerBase, float]
        import Pyro5.client
        import Pyro5.server
        allowed += [Pyro5.client.Proxy, Pyro5.server.Daemon]
        orig = SB.__dict__["dict_to_class"].__func__

        def builds_only_known_classes(cls, data, result):
            try:
                registered = data.get("__class__") in getattr(SB, "_SerializerBase__custom_dict_to_class_registry", {})
                ok = registered or isinstance(result, tuple(allowed)) or (isinstance(result, BaseException) and type(result).__module__ in ("builtins", "Pyro5.errors", "sqlite3", "struct"))
                _note("C04:dict-to-class", ok, "tag %r built %r" % (data.get("__class__"), type(result)))
            except Exception as x:
                _note("C04:dict-to-class", False, repr(x))
            return True
        SB.dict_to_class = classmethod(icontract.ensure(builds_only_known_classes, error=ContractBroken)(orig))


def pytest_sessionfinish(session, exitstatus):
    out = os.environ.get("E10_OUT")
    if out:
        with open(out, "w") as f:
            json.dump({"evaluations": EVAL, "broken": BROKEN, "exitstatus": int(exitstatus)}, f)
