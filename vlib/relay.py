"""E4: fault-injecting relay. A TCP man-in-the-middle between Proxy and daemon that frames the byte stream with the
reference codec (E2) and applies a per-message action from a fault script. It knows exactly which requests it forwarded
to the server - that is what makes exactly-once accounting an equality instead of a guess."""
import socket
import struct
import threading
import time

from vlib import wire

import re
TOKEN_RE = re.compile(rb"T[A-Za-z0-9]+\.[A-Za-z0-9]+\.[a-z]+;")
ACTIONS = ["deliver", "drop-reply", "delay-reply", "cut-reply", "rst-before", "rst-after", "stale-reply", "dup-reply", "alter-seq",
           "fin-before", "fin-after", "cut-reply-fin"]       # (the fin variants end the connection in an orderly way: the client sees a clean end of stream)


def _recv_exact(sock, n):
    buf = bytearray()
    while len(buf) < n:
        c = sock.recv(n - len(buf))
        if not c:
            raise EOFError()
        buf += c
    return bytes(buf)


def read_message(sock):
    h = _recv_exact(sock, wire.HDR)
    m = wire.parse_header(h)
    body = _recv_exact(sock, m.data_len + m.ann_len)
    return h + body, m


def fin(sock):
    """orderly end: the peer reads a clean end of stream"""
    try:
        sock.shutdown(socket.SHUT_RDWR)
    except OSError:
        pass
    try:
        sock.close()
    except OSError:
        pass


def rst(sock):
    try:
        sock.setsockopt(socket.SOL_SOCKET, socket.SO_LINGER, struct.pack("ii", 1, 0))
    except OSError:
        pass
    try:
        sock.close()
    except OSError:
        pass


class Relay:
    def __init__(self, upstream):
        self.upstream = upstream
        self.lsock = socket.socket(socket.AF_INET, socket.SOCK_STREAM)
        self.lsock.setsockopt(socket.SOL_SOCKET, socket.SO_REUSEADDR, 1)
        self.lsock.bind(("127.0.0.1", 0))
        self.lsock.listen(50)
        self.port = self.lsock.getsockname()[1]
        self.lock = threading.Lock()
        self.script = []
        self.si = 0
        self.current_token = None
        self.received = {}      # token -> requests that reached the relay
        self.forwarded = {}     # token -> requests fully sent to the server
        self.applied = []       # (token, action, detail)
        self.stored_replies = []
        self.anomalies = []     # (token, request seq, seq of what the server answered): the server sent something nobody asked for
        self.connections = 0
        self.stopping = False
        self.threads = []
        self.delay = 0.4
        t = threading.Thread(target=self._accept, daemon=True, name="relay-accept")
        t.start()

    def set_script(self, script):
        with self.lock:
            self.script = list(script)
            self.si = 0
            if script:
                self.stored_replies = []      # stale replies are replayed only within one proxy's history (sequence numbers restart per proxy)

    def exhausted(self):
        with self.lock:
            return self.si >= len(self.script)

    def _next(self):
        with self.lock:
            if self.si < len(self.script):
                a = self.script[self.si]
                self.si += 1
                return a
            return ("deliver",)

    def _accept(self):
        while not self.stopping:
            try:
                c, _ = self.lsock.accept()
            except OSError:
                return
            with self.lock:
                self.connections += 1
            t = threading.Thread(target=self._serve, args=(c,), daemon=True, name="relay-conn")
            t.start()
            self.threads.append(t)

    def _serve(self, c):
        c.setsockopt(socket.IPPROTO_TCP, socket.TCP_NODELAY, 1)
        try:
            u = socket.create_connection(self.upstream, timeout=10)
            u.setsockopt(socket.IPPROTO_TCP, socket.TCP_NODELAY, 1)
        except OSError:
            rst(c)
            return
        u.settimeout(10)
        c.settimeout(30)
        try:
            while True:
                try:
                    req, rh = read_message(c)
                except (EOFError, OSError, wire.WireError):
                    return
                is_invoke = rh.type == wire.INVOKE
                token = None
                if is_invoke:
                    # the token travels inside the request (a oneway caller has moved on before the relay reads its request);
                    # requests that carry none (attribute reads, stream item fetches) are synchronous: the announced token applies
                    mt = TOKEN_RE.search(req[wire.HDR:])
                    token = mt.group(0).decode("ascii") if mt else self.current_token
                    if not mt:
                        self.applied.append((token, "tokenless-request", bytes(req[wire.HDR:wire.HDR + 70])))
                if not is_invoke:
                    # handshake and pings pass through untouched
                    u.sendall(req)
                    rep, _ = read_message(u)
                    c.sendall(rep)
                    continue
                with self.lock:
                    self.received[token] = self.received.get(token, 0) + 1
                act = self._next()
                kind = act[0]
                oneway = bool(rh.raw_flags & wire.F_ONEWAY)
                if kind == "rst-before":
                    self.applied.append((token, kind, None))
                    rst(c)
                    return
                if kind == "fin-before":
                    self.applied.append((token, kind, None))
                    fin(c)
                    return
                u.sendall(req)
                with self.lock:
                    self.forwarded[token] = self.forwarded.get(token, 0) + 1
                if oneway:
                    self.applied.append((token, "deliver-oneway" if kind != "rst-after" else kind, None))
                    if kind == "rst-after":
                        time.sleep(0.01)
                        rst(c)
                        return
                    continue        # (the fin variants after a oneway request: delivered like any other; nothing to cut)
                try:
                    rep, ph = read_message(u)
                except (EOFError, OSError, wire.WireError):
                    rst(c)
                    return
                self.applied.append((token, kind, act[1:] if len(act) > 1 else None))
                if ph.seq != rh.seq:
                    # request and reply travel in lock step through this relay: a reply with another sequence number is one the daemon sent
                    # unasked earlier on this connection (e.g. in answer to a oneway request)
                    self.anomalies.append((token, rh.seq, ph.seq))
                try:
                    if kind == "deliver":
                        c.sendall(rep)
                    elif kind == "drop-reply":
                        pass
                    elif kind == "delay-reply":
                        time.sleep(self.delay)
                        c.sendall(rep)
                    elif kind == "cut-reply":
                        k = min(len(rep) - 1, max(0, int(act[1] * len(rep)) if isinstance(act[1], float) else act[1]))
                        c.sendall(rep[:k])
                        time.sleep(0.005)
                        rst(c)
                        return
                    elif kind == "rst-after":
                        rst(c)
                        return
                    elif kind == "fin-after":
                        fin(c)
                        return
                    elif kind == "cut-reply-fin":
                        k = min(len(rep) - 1, max(0, int(act[1] * len(rep)) if isinstance(act[1], float) else act[1]))
                        c.sendall(rep[:k])
                        fin(c)
                        return
                    elif kind == "stale-reply":
                        if self.stored_replies:
                            c.sendall(self.stored_replies[act[1] % len(self.stored_replies)])
                        c.sendall(rep)
                    elif kind == "dup-reply":
                        c.sendall(rep)
                        c.sendall(rep)
                    elif kind == "alter-seq":
                        seq = (ph.seq + act[1]) & 0xFFFF
                        c.sendall(rep[:10] + bytes([seq >> 8, seq & 255]) + rep[12:])
                    self.stored_replies.append(rep)
                    if len(self.stored_replies) > 8:
                        self.stored_replies.pop(0)
                except OSError:
                    return
        finally:
            try:
                u.close()
            except OSError:
                pass
            try:
                c.close()
            except OSError:
                pass

    def close(self):
        self.stopping = True
        try:
            self.lsock.close()
        except OSError:
            pass
