"""E8: scripted fake socket. Per-call behaviour comes from a script; the fake tracks the
stream offset handed out and the bytes accepted. Realism rules (from calibration probes):
EOF is sticky, nothing is ever delivered after a zero-length read."""
import errno
import socket

MSG_WAITALL = socket.MSG_WAITALL


class FragSock:
    """Read side for C06: delivers a byte stream in scripted fragment sizes; records every recv."""

    def __init__(self, stream, frags, honour_waitall=False, timeout=None):
        self.stream = bytes(stream)
        self.pos = 0
        self.frags = list(frags)
        self.fi = 0
        self.honour_waitall = honour_waitall
        self.recv_log = []      # (requested, flags, returned_len)
        self.sent = bytearray()
        self._timeout = timeout
        self.family = socket.AF_INET

    def recv(self, n, flags=0):
        avail = len(self.stream) - self.pos
        if flags & MSG_WAITALL and self.honour_waitall:
            k = min(n, avail)
        else:
            f = self.frags[self.fi % len(self.frags)] if self.frags else n
            self.fi += 1
            k = max(1, min(n, f, avail)) if avail and n else 0
        chunk = self.stream[self.pos:self.pos + k]
        self.pos += k
        self.recv_log.append((n, flags, len(chunk)))
        return chunk

    def recv_into(self, buffer, nbytes=0, flags=0):
        mv = memoryview(buffer)
        chunk = self.recv(nbytes or len(mv), flags)
        mv[:len(chunk)] = chunk
        return len(chunk)

    def send(self, data):
        self.sent += data
        return len(data)

    def sendall(self, data):
        self.sent += data

    def gettimeout(self):
        return self._timeout

    def settimeout(self, t):
        self._timeout = t

    def shutdown(self, how):
        pass

    def close(self):
        pass

    def fileno(self):
        return -1


# ---- C17 scripts ----------------------------------------------------------------------------------
# read events: ("d", k)  deliver up to k bytes (k>=1) ; ("rest",) deliver all that was requested
#              ("e", errno) raise OSError(errno) ; ("t",) raise socket.timeout ; ("eof",) return b""
class ScriptedReadSock:
    def __init__(self, stream, script, honour_waitall, timeout=None):
        self.stream = bytes(stream)
        self.pos = 0
        self.script = list(script)
        self.si = 0
        self.honour_waitall = honour_waitall
        self._timeout = timeout
        self.eof = False
        self.calls = []
        self.script_exhausted = False
        self.family = socket.AF_INET

    def recv(self, n, flags=0):
        self.calls.append((n, flags))
        if self.eof:
            return b""       # sticky
        if self.si >= len(self.script):
            # script over: behave like a healthy peer that delivers everything
            self.script_exhausted = True
            ev = ("rest",)
        else:
            ev = self.script[self.si]
            self.si += 1
        kind = ev[0]
        avail = len(self.stream) - self.pos
        if kind == "e":
            raise OSError(ev[1], "scripted errno %d" % ev[1])
        if kind == "t":
            raise socket.timeout("scripted timeout")
        if kind == "eof" or avail == 0:
            self.eof = True
            return b""
        if kind == "rest":
            k = min(n, avail)
        else:
            k = min(n, ev[1], avail)
            if flags & MSG_WAITALL and self.honour_waitall:
                # an OS honouring MSG_WAITALL only returns short on EOF/error/signal: model 'deliver k' as
                # 'k bytes then the call was interrupted' which real kernels do; still a legal short return
                pass
        if n == 0:
            return b""
        chunk = self.stream[self.pos:self.pos + k]
        self.pos += k
        return chunk

    def recv_into(self, buffer, nbytes=0, flags=0):
        mv = memoryview(buffer)
        chunk = self.recv(nbytes or len(mv), flags)
        mv[:len(chunk)] = chunk
        return len(chunk)

    def gettimeout(self):
        return self._timeout


# write events: ("a", k) accept k bytes (k>=1); ("all",) accept everything; ("e", errno); ("t",)
class ScriptedWriteSock:
    def __init__(self, script, timeout):
        self.script = list(script)
        self.si = 0
        self._timeout = timeout
        self.accepted = bytearray()
        self.calls = 0
        self.family = socket.AF_INET

    def _next(self):
        if self.si >= len(self.script):
            return ("all",)
        ev = self.script[self.si]
        self.si += 1
        return ev

    def send(self, data):
        self.calls += 1
        ev = self._next()
        if ev[0] == "e":
            raise OSError(ev[1], "scripted errno %d" % ev[1])
        if ev[0] == "t":
            raise socket.timeout("scripted timeout")
        k = len(data) if ev[0] == "all" else min(len(data), ev[1])
        self.accepted += bytes(data[:k])
        return k

    def sendall(self, data):
        # real sendall: loops internally; a scripted error may hit after a partial write
        self.calls += 1
        data = bytes(data)
        while data:
            ev = self._next()
            if ev[0] == "e":
                raise OSError(ev[1], "scripted errno %d" % ev[1])
            if ev[0] == "t":
                raise socket.timeout("scripted timeout")
            k = len(data) if ev[0] == "all" else min(len(data), ev[1])
            self.accepted += data[:k]
            data = data[k:]

    def gettimeout(self):
        return self._timeout


RETRYABLE = [errno.EINTR, errno.EAGAIN, errno.EINPROGRESS]          # EWOULDBLOCK == EAGAIN on Linux
FATAL = [errno.ECONNRESET, errno.EPIPE]
