"""E1: value generators (hypothesis strategies, derandomised from the seed) and the
type-exact deep comparison shared by all value oracles."""
import datetime
import decimal
import math
import random
import uuid

from hypothesis import strategies as st, settings, HealthCheck, Phase, seed as hyp_seed, given

INT_BOUND = 2 ** 2048      # below CPython's 4300-digit int<->str limit (an interpreter limit, not Pyro's)


def deep_eq(a, b):
    """type-exact structural equality: True!=1, 1!=1.0, tuple!=list, -0.0!=0.0, nan==nan"""
    ta, tb = type(a), type(b)
    if ta is not tb:
        return False
    if ta is float:
        if a != a:
            return b != b
        return a == b and math.copysign(1.0, a) == math.copysign(1.0, b)
    if ta is complex:
        return deep_eq(a.real, b.real) and deep_eq(a.imag, b.imag)
    if ta in (list, tuple):
        return len(a) == len(b) and all(deep_eq(x, y) for x, y in zip(a, b))
    if ta is dict:
        if len(a) != len(b):
            return False
        for k, v in a.items():
            if k not in b:
                return False
            # key types must match exactly too
            kb = next(kk for kk in b if kk == k)
            if type(kb) is not type(k) or not deep_eq(v, b[k]):
                return False
        return True
    if ta in (set, frozenset):
        if len(a) != len(b):
            return False
        # elements hashable; compare with type tags (1 vs True vs 1.0 collapse in sets anyway)
        return {(type(x).__name__, canon(x)) for x in a} == {(type(x).__name__, canon(x)) for x in b}
    return a == b


def canon(v):
    """canonical, hashable, type-tagged form (for distinct counting and set comparison)"""
    t = type(v)
    if t is float:
        if v != v:
            return ("f", "nan")
        return ("f", v.hex())
    if t is complex:
        return ("c", canon(v.real), canon(v.imag))
    if t in (list, tuple):
        return (t.__name__,) + tuple(canon(x) for x in v)
    if t is dict:
        return ("d",) + tuple(sorted(((canon(k), canon(x)) for k, x in v.items()), key=repr))
    if t in (set, frozenset):
        return (t.__name__,) + tuple(sorted((canon(x) for x in v), key=repr))
    if t is bytearray:
        return ("ba", bytes(v))
    return (t.__name__, v if t in (int, str, bytes, bool, type(None)) else repr(v))


# ---- strategies -------------------------------------------------------------------------
def ints():
    return st.one_of(
        st.integers(-300, 300),
        st.sampled_from([2 ** 31 - 1, 2 ** 31, -2 ** 31, -2 ** 31 - 1, 2 ** 32, 2 ** 63 - 1, 2 ** 63, 2 ** 64 - 1, 2 ** 64,
                         -2 ** 63, -2 ** 63 - 1, -2 ** 64, 2 ** 127, 2 ** 200, -2 ** 200, 10 ** 100, -10 ** 100]),
        st.integers(-INT_BOUND, INT_BOUND),
    )


def floats():
    return st.one_of(st.floats(allow_nan=True, allow_infinity=True),
                     st.sampled_from([0.0, -0.0, float("inf"), float("-inf"), float("nan"), 1e308, 5e-324, 0.1, 1e22, 2.0 ** 53]))


# valid unicode only (no lone surrogates), incl. NUL, controls, astral, combining
TEXT_ALPHABET = st.characters(blacklist_categories=("Cs",))
SPICY = ["", "\x00", "\n", "\r\n", "\t", "\x1b", "\x7f", "\x85", " ", " ", "'", '"', "\\", "\\n", "\\x00",
         "é", "é", "\U0001F600", "\U0010FFFF", "﻿", "￿", "a" * 150, "__class__", "ß", "İ", "ǆ", " ", "'''", '"""']


def texts():
    return st.one_of(st.text(TEXT_ALPHABET, max_size=12), st.sampled_from(SPICY),
                     st.builds(lambda a, b: a + b, st.sampled_from(SPICY), st.text(TEXT_ALPHABET, max_size=5)),
                     st.text(TEXT_ALPHABET, min_size=90, max_size=130))


def dict_keys():
    return texts().filter(lambda k: k != "__class__")


def core_leaves():
    return st.one_of(st.none(), st.booleans(), ints(), floats(), texts())


def core_values(max_leaves=25):
    """the lossless core: None, bool, int, float, str, list, str-keyed dict, nested"""
    return st.recursive(core_leaves(),
                        lambda ch: st.one_of(st.lists(ch, max_size=5), st.dictionaries(dict_keys(), ch, max_size=5)),
                        max_leaves=max_leaves)


def deep_core(depth, rnd):
    """deterministic deep nesting (<= 12) that hypothesis' recursive() rarely reaches"""
    v = rnd.choice([None, True, 0, -1, 2 ** 70, 1.5, float("inf"), float("nan"), -0.0, "x", "\U0001F600"])
    for i in range(depth):
        if rnd.random() < 0.5:
            v = [v] if rnd.random() < 0.6 else [rnd.choice([None, 1, "s"]), v]
        else:
            v = {rnd.choice(["k", "", "é", "key2"]): v}
    return v


def dates():
    return st.dates(min_value=datetime.date(1902, 1, 2), max_value=datetime.date(2200, 1, 1))


def datetimes_ms():
    # naive, whole milliseconds, TZ=UTC in the environment: float-timestamp transport is exact there
    # (dates before the epoch too: negative timestamps)
    return st.one_of(st.datetimes(min_value=datetime.datetime(1902, 1, 2), max_value=datetime.datetime(2200, 1, 1)),
                     st.datetimes(min_value=datetime.datetime(1969, 12, 30), max_value=datetime.datetime(1970, 1, 3))).map(
        lambda d: d.replace(microsecond=(d.microsecond // 1000) * 1000))


def ext_leaves():
    return st.one_of(
        st.binary(max_size=20), st.binary(min_size=100, max_size=140).map(bytes),
        st.binary(max_size=10).map(bytearray),
        st.complex_numbers(allow_nan=False), st.sampled_from([complex(0.0, -0.0), complex(float("inf"), 1.0), 1j]),
        st.uuids(), st.decimals(allow_nan=False, allow_infinity=False, places=4, min_value=-10 ** 9, max_value=10 ** 9),
        st.sampled_from([decimal.Decimal("0"), decimal.Decimal("-0.00"), decimal.Decimal("1E+30")]),
        dates(), datetimes_ms(),
    )


def hashable_leaves():
    return st.one_of(st.none(), st.booleans(), st.integers(-10 ** 30, 10 ** 30), texts(), st.binary(max_size=6),
                     st.floats(allow_nan=False))


def ext_values(max_leaves=15):
    """per-serializer extended domain: adds bytes, bytearray, complex, tuple, set, frozenset, uuid, Decimal, date(time)"""
    leaves = st.one_of(core_leaves(), ext_leaves())
    return st.recursive(
        leaves,
        lambda ch: st.one_of(
            st.lists(ch, max_size=4), st.lists(ch, max_size=4).map(tuple),
            st.dictionaries(dict_keys(), ch, max_size=4),
            st.sets(hashable_leaves(), max_size=4), st.frozensets(hashable_leaves(), max_size=4),
            st.dictionaries(st.one_of(st.integers(-5, 5), st.tuples(st.integers(0, 3), texts())), ch, max_size=3),
        ),
        max_leaves=max_leaves)


def hyp_settings(n):
    return settings(max_examples=n, database=None, deadline=None, derandomize=False,
                    phases=[Phase.generate], suppress_health_check=list(HealthCheck), report_multiple_bugs=False)


def draw_many(strategy, n, seed, fn):
    """call fn(value) for n hypothesis-generated values, derandomised from seed"""
    @hyp_seed(seed)
    @hyp_settings(n)
    @given(strategy)
    def _run(v):
        fn(v)
    _run()


def rng(seed, *salt):
    return random.Random("%d|%s" % (seed, "|".join(map(str, salt))))


class TapeRNG:
    """records every draw of a history generator (record mode) or feeds a recorded tape back (replay mode): a history that is
    generated on the fly from the evolving state becomes exactly replayable"""

    def __init__(self, base=None, tape=None):
        self.base = base
        self.replaying = tape is not None
        self.tape = list(tape) if tape is not None else []
        self.pos = 0

    def _draw(self, fn):
        if self.replaying:
            if self.pos >= len(self.tape):
                raise IndexError("replay tape exhausted")
            v = self.tape[self.pos]
            self.pos += 1
            return v
        v = fn()
        self.tape.append(v)
        return v

    def random(self):
        return self._draw(self.base.random if self.base else None)

    def randrange(self, a, b=None):
        lo, hi = (0, a) if b is None else (a, b)
        return self._draw(lambda: self.base.randrange(lo, hi))

    def choice(self, seq):
        return seq[self._draw(lambda: self.base.randrange(len(seq)))]
