"""Plumbing shared by all checks: recorder, shard runner, evidence, replay, known findings.

A check module (checks/cNN_*.py) defines:

    PROPERTY = "C06"
    LEVEL    = "exploration" | "fault_enumeration"
    RULE     = "how cases are generated and what makes one distinct / non-trivial"
    ASSUMPTIONS = [...]
    REQUIRED_REACH = ["counter names that must be > 0 or the run is inconclusive"]
    def plan(tier, seed) -> list[dict]          # shard descriptors (picklable)
    def run_shard(shard, rec) -> None           # does the work, reports into rec
    def replay(payload, rec) -> None            # re-runs one recorded case

The parent process runs every shard in its own subprocess (never multiprocessing.Pool),
merges the partial results, classifies violations against known_findings.json, writes
evidence/<id>.json and prints the verdict lines.
"""
import base64
import hashlib
import importlib
import json
import os
import pickle
import signal
import subprocess
import sys
import tempfile
import time
import traceback

VERIF = os.path.dirname(os.path.dirname(os.path.abspath(__file__)))
REPO = os.environ.get("VERIF_REPO", "/repo")
PY = sys.executable

CHECK_MODULES = {
    "C01": "checks.c01_values", "C02": "checks.c02_exposure", "C03": "checks.c03_replies",
    "C04": "checks.c04_deser", "C05": "checks.c05_hostile", "C06": "checks.c06_wire",
    "C07": "checks.c07_exceptions", "C08": "checks.c08_handshake", "C09": "checks.c09_instances",
    "C10": "checks.c10_streams", "C11": "checks.c11_batch", "C12": "checks.c12_context",
    "C13": "checks.c13_cleanup", "C14": "checks.c14_nsmap", "C15": "checks.c15_nsatomic",
    "C16": "checks.c16_registry", "C17": "checks.c17_sockio", "C18": "checks.c18_pool",
    "C19": "checks.c19_uri", "C20": "checks.c20_httpgw",
}

MAX_SAMPLES = 6
MAX_VIOLATIONS_KEPT = 40     # per shard, per mechanism: 8


def assert_repo():
    """Every check runs the code of $VERIF_REPO (default /repo), never an installed copy."""
    import Pyro5
    f = os.path.realpath(Pyro5.__file__)
    root = os.path.realpath(REPO)
    if not f.startswith(root + os.sep):
        raise RuntimeError("Pyro5 imported from %s, expected under %s" % (f, root))
    return f


def h64(obj) -> int:
    """stable 64-bit hash of a repr-able key (independent of PYTHONHASHSEED)"""
    if not isinstance(obj, (bytes, bytearray)):
        obj = repr(obj).encode("utf-8", "backslashreplace")
    return int.from_bytes(hashlib.blake2b(obj, digest_size=8).digest(), "big")


def short(obj, n=300):
    s = obj if isinstance(obj, str) else repr(obj)
    return s if len(s) <= n else s[:n] + "...(%d chars)" % len(s)


class Recorder:
    """Thread-safe accumulator for one shard (the monitors' own state must not race)."""

    def __init__(self, prop, tier, seed, shard=None):
        import threading
        self.prop, self.tier, self.seed, self.shard = prop, tier, seed, shard
        self._lock = threading.Lock()
        self.evaluations = 0
        self.distinct = set()
        self.distinct_extra = 0
        self.samples = []
        self.counters = {}
        self.violations = []       # dicts: mechanism, message, payload
        self._per_mech = {}
        self.inconclusive = []
        self.notes = {}
        self.exhaustive = None
        self.t0 = time.time()

    # -- cases ---------------------------------------------------------------------
    def case(self, key, nontrivial=True, sample=None):
        with self._lock:
            self.evaluations += 1
            if nontrivial:
                self.distinct.add(key if isinstance(key, int) else h64(key))
            if sample is not None and len(self.samples) < MAX_SAMPLES:
                self.samples.append(sample)

    def case_bulk(self, n, key_sample=None):
        """n cases that are distinct by construction (exhaustive enumeration): counted, not hashed"""
        with self._lock:
            self.evaluations += n
            self.distinct_extra += n

    def count(self, name, n=1):
        with self._lock:
            self.counters[name] = self.counters.get(name, 0) + n

    def maxi(self, name, v):
        with self._lock:
            if v > self.counters.get(name, 0):
                self.counters[name] = v

    def note(self, name, value):
        with self._lock:
            self.notes[name] = value

    # -- verdict material ------------------------------------------------------------
    def violation(self, mechanism, message, payload=None):
        """mechanism: short tag computed from the witness (what fails, not which case)."""
        with self._lock:
            n = self._per_mech.get(mechanism, 0)
            self._per_mech[mechanism] = n + 1
            if n < 8 and len(self.violations) < MAX_VIOLATIONS_KEPT:
                fxm = sys.modules.get("vlib.fixture")
                self.violations.append({"mechanism": mechanism, "message": short(message, 1500),
                                        "payload": payload, "shard": self.shard,
                                        "fixture_variant": getattr(fxm, "LAST_VARIANT", None)})   # the configuration variant of the daemon under test

    def should_stop(self, max_violations=6, budget=None):
        """fail fast: enough witnesses collected, or the shard's time budget is used up (the latter is recorded as inconclusive)"""
        if len(self.violations) >= max_violations:
            return True
        if budget is None:
            budget = 300 if self.tier == "quick" else 2400
        if time.time() - self.t0 > budget:
            if not getattr(self, "_budget_noted", False):
                self._budget_noted = True
                self.inconc("shard time budget (%ds) used up after %d cases; remaining cases not run" % (budget, self.evaluations))
            return True
        return False

    def inconc(self, reason):
        with self._lock:
            if len(self.inconclusive) < 50:
                self.inconclusive.append(short(reason, 400))
            self.counters["inconclusive_cases"] = self.counters.get("inconclusive_cases", 0) + 1

    def partial(self):
        return {"evaluations": self.evaluations, "distinct": self.distinct, "distinct_extra": self.distinct_extra, "samples": self.samples,
                "counters": self.counters, "violations": self.violations, "per_mech": self._per_mech,
                "inconclusive": self.inconclusive, "notes": self.notes, "exhaustive": self.exhaustive,
                "wall": time.time() - self.t0}


def payload_pack(obj):
    """replay payloads may hold bytes/sets/big ints: keep a pickle beside a readable repr"""
    return {"pickle_b64": base64.b64encode(pickle.dumps(obj)).decode("ascii"), "repr": short(obj, 4000)}


def payload_unpack(d):
    return pickle.loads(base64.b64decode(d["pickle_b64"]))


# ---------------------------------------------------------------------------------------
def load_known():
    path = os.path.join(VERIF, "known_findings.json")
    if not os.path.exists(path):
        return []
    with open(path) as f:
        data = json.load(f)
    return data.get("findings", [])


def child_env(seed, extra=None):
    env = dict(os.environ)
    env["PYTHONPATH"] = os.pathsep.join([REPO, VERIF, os.path.join(VERIF, ".deps")])
    env["PYTHONHASHSEED"] = str(seed % 4294967295)
    env["PYTHONDONTWRITEBYTECODE"] = "1"
    env["TZ"] = "UTC"
    env["VERIF_REPO"] = REPO
    env.pop("PYRO_LOGLEVEL", None)
    for k in list(env):
        if k.startswith("PYRO_"):
            env.pop(k)
    if extra:
        env.update(extra)
    return env


def run_shards(prop, modname, tier, seed, shards, jobs, shard_timeout):
    tmpdir = tempfile.mkdtemp(prefix="pv-%s-" % prop, dir=os.path.join(VERIF, ".work"))
    procs = []      # (idx, Popen, outpath, t0, logpath)
    results = [None] * len(shards)
    pending = list(enumerate(shards))
    failures = []

    def launch(idx, shard):
        spec = os.path.join(tmpdir, "shard%d.in" % idx)
        out = os.path.join(tmpdir, "shard%d.out" % idx)
        logp = os.path.join(tmpdir, "shard%d.log" % idx)
        with open(spec, "wb") as f:
            pickle.dump({"prop": prop, "module": modname, "tier": tier, "seed": seed, "shard": shard, "idx": idx}, f)
        hs = shard.get("hashseed", seed + idx) if isinstance(shard, dict) else seed + idx
        lf = open(logp, "wb")
        p = subprocess.Popen([PY, "-X", "faulthandler", "-m", "vlib.run", "--shard", spec, "--out", out],
                             cwd=VERIF, env=child_env(hs, dict((shard.get("env") or {}) if isinstance(shard, dict) else {}, VERIF_SHARD_INDEX=str(idx + seed))),
                             stdout=lf, stderr=subprocess.STDOUT)
        lf.close()
        procs.append((idx, p, out, time.time(), logp))

    while pending or procs:
        while pending and len(procs) < jobs:
            launch(*pending.pop(0))
        time.sleep(0.05)
        for ent in list(procs):
            idx, p, out, t0, logp = ent
            rc = p.poll()
            if rc is None:
                if time.time() - t0 > shard_timeout:
                    try:
                        p.send_signal(signal.SIGABRT)      # -X faulthandler: every thread's stack goes to the shard log first
                        p.wait(5)
                    except Exception:
                        pass
                    p.kill()
                    p.wait()
                    procs.remove(ent)
                    failures.append("shard %d timed out after %ds (watchdog): %s" % (idx, shard_timeout, tail(logp)))
                continue
            procs.remove(ent)
            if os.path.exists(out):
                try:
                    with open(out, "rb") as f:
                        results[idx] = pickle.load(f)
                    if results[idx].get("crashed"):
                        failures.append(results[idx]["crashed"])
                except Exception as x:
                    failures.append("shard %d wrote unreadable output: %r" % (idx, x))
            if results[idx] is None:
                failures.append("shard %d died rc=%s: %s" % (idx, rc, tail(logp)))
            elif rc != 0:
                failures.append("shard %d rc=%s after writing output: %s" % (idx, rc, tail(logp)))
    import shutil
    shutil.rmtree(tmpdir, ignore_errors=True)
    return results, failures


def tail(path, n=1200):
    try:
        with open(path, "rb") as f:
            data = f.read()
        return data[-n:].decode("utf-8", "replace")
    except OSError:
        return "<no log>"


def main_check(prop, tier, seed, replay_path=None, jobs=None):
    os.makedirs(os.path.join(VERIF, ".work"), exist_ok=True)
    os.makedirs(os.path.join(VERIF, "evidence"), exist_ok=True)
    os.makedirs(os.path.join(VERIF, "replays"), exist_ok=True)
    modname = CHECK_MODULES[prop]
    sys.path[:0] = [REPO, VERIF]
    t0 = time.time()
    jobs = jobs or int(os.environ.get("VERIF_JOBS", "16"))
    if replay_path:
        with open(replay_path) as f:
            rp = json.load(f)
        shards = [{"replay": rp}]
        tier = rp.get("tier", tier)
        seed = rp.get("seed", seed)
    else:
        mod = importlib.import_module(modname)
        shards = mod.plan(tier, seed)
    mod = importlib.import_module(modname)
    timeout = getattr(mod, "SHARD_TIMEOUT", {"quick": 480, "thorough": 3000}).get(tier, 600)
    results, failures = run_shards(prop, modname, tier, seed, shards, jobs, timeout)

    ev = 0
    distinct_extra = 0
    distinct = set()
    samples = []
    counters = {}
    violations = []
    per_mech = {}
    inconclusive = list(failures)
    notes = {}
    exhaustive = None
    for r in results:
        if r is None:
            continue
        ev += r["evaluations"]
        distinct |= r["distinct"]
        distinct_extra += r.get("distinct_extra", 0)
        for s in r["samples"]:
            if len(samples) < MAX_SAMPLES:
                samples.append(s)
        for k, v in r["counters"].items():
            if k.startswith("max_"):
                counters[k] = max(counters.get(k, 0), v)
            else:
                counters[k] = counters.get(k, 0) + v
        violations.extend(r["violations"])
        for k, v in r["per_mech"].items():
            per_mech[k] = per_mech.get(k, 0) + v
        inconclusive.extend(r["inconclusive"])
        notes.update(r["notes"])
        if r["exhaustive"] is not None:
            exhaustive = r["exhaustive"] if exhaustive is None else (exhaustive and r["exhaustive"])

    # reach: deciding monitors must have observed something
    required = getattr(mod, "REQUIRED_REACH", [])
    unreached = [c for c in required if counters.get(c, 0) == 0] if not replay_path else []
    for c in unreached:
        inconclusive.append("required monitor/anchor counter %r is zero: nothing was observed there" % c)

    known = [k for k in load_known() if k.get("property") == prop and k.get("status", "open") == "open"]
    known_by_mech = {k["mechanism"]: k for k in known}
    known_seen = {}
    unlisted = []
    for v in violations:
        k = known_by_mech.get(v["mechanism"])
        if k is not None:
            known_seen.setdefault(v["mechanism"], v)
        else:
            unlisted.append(v)

    lines = []
    replay_files = []
    for mech, v in sorted(known_seen.items()):
        lines.append("KNOWN-FINDING: property=%s %s [%s; %d occurrence(s) this run; e.g. %s]" % (
            prop, known_by_mech[mech]["what_fails"], mech, per_mech.get(mech, 1), short(v["message"], 200).replace("\n", " | ")))
    seen_mech = {}
    for v in unlisted:
        n = seen_mech.get(v["mechanism"], 0)
        seen_mech[v["mechanism"]] = n + 1
        if n >= 3:
            continue
        path = os.path.join(VERIF, "replays", "%s-%s-%d-%d.json" % (prop, safe(v["mechanism"]), seed, n))
        with open(path, "w") as f:
            json.dump({"property": prop, "tier": tier, "seed": seed, "mechanism": v["mechanism"],
                       "message": v["message"], "shard": jsonable(v.get("shard")),
                       "fixture_variant": v.get("fixture_variant"),
                       "payload": payload_pack(v.get("payload"))}, f, indent=1)
        replay_files.append(path)
        lines.append("VIOLATION property=%s replay=%s" % (prop, path))
        lines.append("  mechanism=%s (%d occurrence(s)): %s" % (v["mechanism"], per_mech.get(v["mechanism"], 1), short(v["message"], 600).replace("\n", " | ")))
    run_inconclusive = bool(unreached or failures or ev == 0)
    for reason in inconclusive[:12]:
        # run-level reasons (monitor never reached, shard failed) decide the verdict; single cases the harness could not judge
        # are listed (here and in the evidence) but do not turn thousands of judged cases into "inconclusive"
        lines.append("%s property=%s %s" % ("INCONCLUSIVE" if run_inconclusive else "  unjudged-case", prop, short(reason, 500).replace("\n", " | ")))

    wall = time.time() - t0
    coverage = {
        "evaluations": ev,
        "distinct_nontrivial": len(distinct) + distinct_extra,
        "rule": getattr(mod, "RULE", ""),
        "samples": [jsonable(s) for s in samples] or ["<none>"],
        "monitors": counters,
        "inconclusive": inconclusive[:50],
        "known_findings_seen": sorted(known_seen),
        "violation_mechanisms": {k: v for k, v in per_mech.items()},
        "shards": len(shards),
        "notes": jsonable(notes),
    }
    if exhaustive is not None:
        coverage["exhaustive"] = bool(exhaustive)
    evidence = {
        "property_id": prop, "tier": tier if tier in ("quick", "thorough") else "quick", "seed": int(seed),
        "level": getattr(mod, "LEVEL", "exploration"),
        "coverage": coverage,
        "assumptions": getattr(mod, "ASSUMPTIONS", []),
        "wall_s": round(wall, 2),
        "violations": len(unlisted),
    }
    if not replay_path:
        # evidence/<id>.json is only ever written by runs against /repo itself; runs against a scratch copy (seeded changes,
        # my own mutation campaign: VERIF_REPO points elsewhere) leave their record under .work/
        evdir = os.path.join(VERIF, "evidence") if os.path.realpath(REPO) == "/repo" else os.path.join(VERIF, ".work", "evidence-scratch")
        os.makedirs(evdir, exist_ok=True)
        with open(os.path.join(evdir, "%s.json" % prop), "w") as f:
            json.dump(evidence, f, indent=1, sort_keys=True)
    verdict = "VIOLATED" if unlisted else ("INCONCLUSIVE" if (unreached or failures or ev == 0) else "HELD-ON-OBSERVED")
    print("%s tier=%s seed=%d evaluations=%d distinct=%d wall=%.1fs verdict=%s" % (prop, tier, seed, ev, len(distinct) + distinct_extra, wall, verdict))
    print("  monitors: " + json.dumps(counters, sort_keys=True))
    for ln in lines:
        print(ln)
    sys.stdout.flush()
    if unlisted:
        return 1
    if verdict == "INCONCLUSIVE":
        return 3
    return 0


def safe(s):
    return "".join(c if c.isalnum() or c in "-_" else "_" for c in s)[:60]


def jsonable(o, depth=0):
    if depth > 8:
        return short(o, 200)
    if o is None or isinstance(o, (bool, str)):
        return o
    if isinstance(o, int):
        return o if abs(o) < 2 ** 53 else "int:" + short(str(o), 80)
    if isinstance(o, float):
        return o if o == o and abs(o) != float("inf") else repr(o)
    if isinstance(o, (bytes, bytearray, memoryview)):
        return "bytes:" + short(bytes(o).hex(), 160)
    if isinstance(o, dict):
        return {short(str(k), 80): jsonable(v, depth + 1) for k, v in list(o.items())[:40]}
    if isinstance(o, (list, tuple, set, frozenset)):
        return [jsonable(v, depth + 1) for v in list(o)[:40]]
    return short(o, 300)


def shard_main(specpath, outpath):
    with open(specpath, "rb") as f:
        spec = pickle.load(f)
    sys.path[:0] = [REPO, VERIF]
    assert_repo()
    mod = importlib.import_module(spec["module"])
    shard = spec["shard"]
    rec = Recorder(spec["prop"], spec["tier"], spec["seed"], shard=jsonable(shard) if "replay" not in shard else None)
    try:
        if "replay" in shard:
            rp = shard["replay"]
            if rp.get("fixture_variant") is not None:
                from vlib import fixture as _fx
                _fx.FORCED_VARIANT = rp["fixture_variant"]
            mod.replay(payload_unpack(rp["payload"]), rec)
        else:
            mod.run_shard(shard, rec)
    except BaseException:
        # an exception escaping the check code means the rest of this shard's plan was never run: the whole run is inconclusive
        # (whatever the shard judged before is still merged, violations included)
        crashed = "shard %s raised in harness: %s" % (spec["idx"], traceback.format_exc()[-1500:])
    else:
        crashed = None
    out = rec.partial()
    out["crashed"] = crashed
    with open(outpath, "wb") as f:
        pickle.dump(out, f)
    sys.stdout.flush()
    os._exit(0)    # daemon threads / sockets of fixtures must not keep the shard alive
