"""E5: controlled scheduler. Real threads run the real code, but only the thread holding the token runs.
Every sys.monitoring LINE event inside the chosen code objects is a scheduling point; the target module's
threading/time globals are replaced from the harness by shim primitives (cooperative Lock/RLock/Event, virtual sleep),
so a parked thread never holds a real lock and "all controlled threads blocked" is a detected state.

Every execution is a list of thread choices (at the non-trivial decision points) and therefore a replay file."""
import random
import sys
import threading
import time as _time

TOOL = 4
MON = sys.monitoring


class SchedAbort(BaseException):
    """unwinds parked threads at the end of a controlled execution"""


class _T:
    __slots__ = ("idx", "ident", "sem", "status", "on", "wake", "primary", "name")

    def __init__(self, idx, primary, name):
        self.idx, self.primary, self.name = idx, primary, name
        self.ident = None
        self.sem = threading.Semaphore(0)
        self.status = "runnable"      # runnable | blocked | done
        self.on = None
        self.wake = None


class Result:
    def __init__(self):
        self.trace = []            # (thread idx, lineno or tag)
        self.points = []           # non-trivial decision points: (runnable tuple, chosen, prev)
        self.choices_made = []
        self.deadlock = False
        self.quiescent = False
        self.blocked = []
        self.timeout = False
        self.diverged = False
        self.steps_exceeded = False
        self.errors = []
        self.preemptions = 0


class Scheduler:
    def __init__(self, choices=None, strategy=None, max_steps=30000):
        self.prefix = list(choices or [])
        self.strategy = strategy          # None (non-preemptive default) | ("random", seed) | ("pct", seed, depth, est_len)
        self.max_steps = max_steps
        self.lock = threading.Lock()
        self.threads = []
        self.by_ident = {}
        self.res = Result()
        self.finished = threading.Event()
        self.aborting = False
        self.now = 1000.0
        self.prev = None
        self.rng = random.Random(strategy[1]) if strategy else None
        self.child_adopted = threading.Event()
        self.codes = []
        if strategy and strategy[0] == "pct":
            _, seed, depth, est = strategy
            self.pct_prio = {}
            self.pct_changes = sorted(self.rng.randrange(1, max(2, est)) for _ in range(max(0, depth - 1)))
            self.pct_low = 0

    # ---- primitives handed to the code under test ---------------------------------------------------------
    def Lock(self):
        return _SLock(self, False)

    def RLock(self):
        return _SLock(self, True)

    def Event(self):
        return _SEvent(self)

    def sleep(self, t):
        ts = self.current()
        if ts is None:
            return
        self._block(ts, ("sleep",), self.now + max(0.0, t))

    def time(self):
        return self.now

    def shim_threading(self, real=threading):
        """namespace to put in place of a module's `threading` global"""
        sc = self

        class NS:
            Event = staticmethod(sc.Event)
            Lock = staticmethod(sc.Lock)
            RLock = staticmethod(sc.RLock)
            Thread = real.Thread
            current_thread = staticmethod(real.current_thread)
            get_ident = staticmethod(real.get_ident)
            local = real.local
        return NS

    def shim_time(self):
        sc = self

        class NS:
            sleep = staticmethod(sc.sleep)
            time = staticmethod(sc.time)
            monotonic = staticmethod(sc.time)
        return NS

    # ---- thread management --------------------------------------------------------------------------------------
    def current(self):
        return self.by_ident.get(threading.get_ident())

    def _register(self, primary, name):
        with self.lock:
            ts = _T(len(self.threads), primary, name)
            ts.ident = threading.get_ident()
            self.threads.append(ts)
            self.by_ident[ts.ident] = ts
        return ts

    def wrap_thread_entry(self, fn, name="child"):
        """for threads the code under test starts itself: adopt on entry (parked until scheduled), mark done on exit"""
        sc = self

        def entry(*a, **k):
            ts = sc._register(False, name)
            sc.child_adopted.set()
            try:
                sc._park(ts)
                return fn(*a, **k)
            except SchedAbort:
                return None
            finally:
                sc._done(ts)
        return entry

    def start_child(self, real_start, thread_obj):
        """call in place of Thread.start(): the parent keeps the token and waits until the child is registered (determinism)"""
        self.child_adopted.clear()
        real_start(thread_obj)
        if not self.child_adopted.wait(10):
            self.res.errors.append("child thread did not register")

    def join_thread(self, ts_getter, timeout=None):
        """cooperative join: block (virtually) until the target controlled thread is done or the virtual timeout passes"""
        me = self.current()
        if me is None:
            return
        self._point("join")
        target = ts_getter()
        if target is None or target.status == "done" or target is me:
            return
        self._block(me, ("join", target.idx), None if timeout is None else self.now + timeout)

    def ts_of_thread(self, thread_obj):
        return self.by_ident.get(thread_obj.ident)

    # ---- core ------------------------------------------------------------------------------------------------------
    def _on_line(self, code, lineno):
        ts = self.by_ident.get(threading.get_ident())
        if ts is None:
            return None
        if self.aborting:
            raise SchedAbort()
        self._point(lineno)
        return None

    def _point(self, tag):
        ts = self.current()
        if ts is None:
            return
        if self.aborting:
            raise SchedAbort()
        self.res.trace.append((ts.idx, tag))
        if len(self.res.trace) > self.max_steps:
            self.res.steps_exceeded = True
            self._finish()
            self._park(ts)
        nxt = self._choose(ts)
        if nxt is not ts and nxt is not None:
            nxt.sem.release()
            self._park(ts)

    def _park(self, ts):
        ts.sem.acquire()
        if self.aborting:
            raise SchedAbort()

    def _runnable(self):
        return [t for t in self.threads if t.status == "runnable"]

    def _choose(self, cur):
        """pick the next thread to run among the runnable ones (cur included if it is runnable)"""
        with self.lock:
            run = self._runnable()
            if not run:
                # nothing can run: let virtual time pass for sleepers / timed waits
                sleepers = [t for t in self.threads if t.status == "blocked" and t.wake is not None]
                if sleepers:
                    w = min(t.wake for t in sleepers)
                    self.now = max(self.now, w)
                    for t in sleepers:
                        if t.wake <= self.now:
                            t.status, t.on, t.wake = "runnable", None, None
                    run = self._runnable()
            if not run:
                pend = [t for t in self.threads if t.status != "done"]
                self.res.blocked = [(t.idx, t.name, t.on) for t in pend]
                if any(t.primary for t in pend):
                    self.res.deadlock = True
                else:
                    self.res.quiescent = True
                self.finished.set()
                return None
            if len(run) == 1:
                nxt = run[0]
            else:
                k = len(self.res.choices_made)
                prev = cur if (cur is not None and cur.status == "runnable") else None
                ids = tuple(t.idx for t in run)
                pick = None
                if k < len(self.prefix):
                    want = self.prefix[k]
                    if want in ids:
                        pick = want
                    else:
                        self.res.diverged = True
                if pick is None:
                    pick = self._default(run, prev, ids)
                if prev is not None and pick != prev.idx:
                    self.res.preemptions += 1
                self.res.points.append((ids, pick, prev.idx if prev is not None else None))
                self.res.choices_made.append(pick)
                nxt = self.threads[pick]
            self.prev = nxt
            return nxt

    def _default(self, run, prev, ids):
        st = self.strategy
        if st is None:
            return prev.idx if prev is not None else ids[0]
        if st[0] == "random":
            return self.rng.choice(ids)
        # pct: highest priority runnable; priorities drawn on first sight; at a change point the running thread drops to the lowest priority
        for i in ids:
            if i not in self.pct_prio:
                self.pct_prio[i] = self.rng.random() + 1.0
        step = len(self.res.choices_made)
        while self.pct_changes and self.pct_changes[0] <= step:
            self.pct_changes.pop(0)
            if prev is not None:
                self.pct_low -= 1
                self.pct_prio[prev.idx] = self.pct_low
        return max(ids, key=lambda i: self.pct_prio[i])

    def _block(self, ts, on, wake=None):
        """current thread blocks on `on` (optionally until virtual time `wake`); returns when it is runnable again and scheduled"""
        if self.aborting:
            raise SchedAbort()
        with self.lock:
            ts.status, ts.on, ts.wake = "blocked", on, wake
        self.res.trace.append((ts.idx, "block:%s" % (on[0] if isinstance(on, tuple) else type(on).__name__)))
        nxt = self._choose(ts)
        if nxt is not None and nxt is not ts:
            nxt.sem.release()
            self._park(ts)
        elif nxt is None:
            self._park(ts)          # terminal state reached: wait for the abort
        # nxt is ts: woken by virtual time passing, continue

    def _unblock(self, pred):
        with self.lock:
            for t in self.threads:
                if t.status == "blocked" and pred(t.on):
                    t.status, t.on, t.wake = "runnable", None, None

    def _done(self, ts):
        with self.lock:
            ts.status = "done"
            for t in self.threads:
                if t.status == "blocked" and t.on == ("join", ts.idx):
                    t.status, t.on, t.wake = "runnable", None, None
        if self.aborting:
            return
        nxt = self._choose(None)
        if nxt is not None:
            nxt.sem.release()

    def _finish(self):
        self.finished.set()

    # ---- driver ----------------------------------------------------------------------------------------------------
    def run(self, bodies, code_objs, watchdog=30.0):
        res = self.res
        self.codes = list(code_objs)
        try:
            MON.use_tool_id(TOOL, "verif-sched")
        except ValueError:
            pass
        MON.register_callback(TOOL, MON.events.LINE, self._on_line)
        for c in self.codes:
            MON.set_local_events(TOOL, c, MON.events.LINE)
        started = []
        gate = threading.Barrier(len(bodies) + 1)

        def prim(i, body):
            ts = self._register(True, "body%d" % i)
            try:
                gate.wait(10)
                self._park(ts)
                body()
            except SchedAbort:
                pass
            except BaseException as x:          # an exception escaping a body is an observation for the caller
                res.errors.append("body%d raised %r" % (i, x))
            finally:
                self._done(ts)
        # register in index order: start one at a time
        for i, b in enumerate(bodies):
            t = threading.Thread(target=prim, args=(i, b), daemon=True, name="sched-body%d" % i)
            t.start()
            started.append(t)
            # wait until registered so that indexes are deterministic
            end = _time.time() + 10
            while len(self.threads) <= i and _time.time() < end:
                _time.sleep(0.0002)
        try:
            gate.wait(10)
        except threading.BrokenBarrierError:
            res.errors.append("start barrier broken")
        first = self._choose(None)
        if first is not None:
            first.sem.release()
        if not self.finished.wait(watchdog):
            res.timeout = True
        # teardown: unwind everything that is parked
        self.aborting = True
        for t in list(self.threads):
            t.sem.release()
            t.sem.release()
        for t in started:
            t.join(2)
        for c in self.codes:
            try:
                MON.set_local_events(TOOL, c, 0)
            except Exception:
                pass
        MON.register_callback(TOOL, MON.events.LINE, None)
        try:
            MON.free_tool_id(TOOL)
        except Exception:
            pass
        return res


class _SLock:
    def __init__(self, sc, reentrant):
        self.sc, self.reentrant = sc, reentrant
        self.owner = None
        self.count = 0

    def acquire(self, blocking=True, timeout=-1):
        sc = self.sc
        ts = sc.current()
        if ts is None:          # used outside a controlled thread (set-up code): plain bookkeeping
            self.owner, self.count = "outside", self.count + 1
            return True
        sc._point("acquire")
        while self.owner is not None and not (self.reentrant and self.owner is ts):
            if not blocking:
                return False
            sc._block(ts, self, None if timeout is None or timeout < 0 else sc.now + timeout)
            if timeout is not None and timeout >= 0 and self.owner is not None and self.owner is not ts:
                return False
        self.owner = ts
        self.count += 1
        return True

    def release(self):
        self.count -= 1
        if self.count <= 0:
            self.count = 0
            self.owner = None
            self.sc._unblock(lambda on: on is self)

    def locked(self):
        return self.owner is not None

    def __enter__(self):
        self.acquire()
        return self

    def __exit__(self, *a):
        self.release()
        return False


class _SEvent:
    def __init__(self, sc):
        self.sc = sc
        self.flag = False

    def is_set(self):
        return self.flag

    def set(self):
        self.flag = True
        self.sc._unblock(lambda on: on is self)

    def clear(self):
        self.flag = False

    def wait(self, timeout=None):
        sc = self.sc
        ts = sc.current()
        if ts is None:
            return self.flag
        sc._point("wait")
        if not self.flag:
            sc._block(ts, self, None if timeout is None else sc.now + timeout)
        return self.flag


# ---- exploration drivers ------------------------------------------------------------------------------------------------
def code_objects_of(*funcs):
    """code objects of the given functions/classes (methods and nested functions included)"""
    out = []
    seen = set()

    def add_code(c):
        if id(c) in seen:
            return
        seen.add(id(c))
        out.append(c)
        for k in c.co_consts:
            if hasattr(k, "co_code"):
                add_code(k)
    for f in funcs:
        if isinstance(f, type):
            for v in vars(f).values():
                v = getattr(v, "__func__", v)
                if hasattr(v, "__code__"):
                    add_code(v.__code__)
                elif isinstance(v, property):
                    for g in (v.fget, v.fset):
                        if g is not None:
                            add_code(g.__code__)
        else:
            f = getattr(f, "__func__", f)
            f = getattr(f, "__wrapped__", f)
            add_code(f.__code__)
    return out


def preemptions_of(points, choices):
    n = 0
    for (ids, _, prev), c in zip(points, choices):
        if prev is not None and prev in ids and c != prev:
            n += 1
    return n


def dfs(run_one, bound, max_runs=10000, stop=lambda: False):
    """systematic exploration of all schedules with at most `bound` preemptions (replay-by-prefix).
    run_one(prefix, strategy) -> Result. Returns (runs, exhaustive)."""
    stack = [[]]
    runs = 0
    while stack:
        if runs >= max_runs or stop():
            return runs, False
        prefix = stack.pop()
        res = run_one(prefix, None)
        runs += 1
        if res.diverged or res.timeout:
            continue
        for j in range(len(res.points) - 1, len(prefix) - 1, -1):
            ids, chosen, prev = res.points[j]
            for alt in ids:
                if alt == chosen:
                    continue
                newp = res.choices_made[:j] + [alt]
                if preemptions_of(res.points[:j + 1], newp) <= bound:
                    stack.append(newp)
    return runs, True
